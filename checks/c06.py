"""C06 - a read holds SQLite's SHARED lock from its first page read until it returns"""
import os, random, shutil, subprocess, sys, sqlite3
from vlib import core, sqlfmt
from checks.common import check_obligations
from checks import lockutil as lk


def make_db(path):
    c = sqlfmt.new_db(path, 512)
    c.execute("CREATE TABLE t(a, b)")
    c.execute("CREATE INDEX t_a ON t(a)")
    c.execute("CREATE TABLE p(id INTEGER PRIMARY KEY, v)")
    c.execute("CREATE TABLE k(name TEXT PRIMARY KEY, v)")
    c.execute("CREATE TABLE w(x, y, PRIMARY KEY(x)) WITHOUT ROWID")
    c.execute("CREATE INDEX w_y ON w(y)")
    c.execute("BEGIN")
    for i in range(120):
        c.execute("INSERT INTO t VALUES(?, ?)", (i % 7, "v%d" % i))
        c.execute("INSERT INTO p VALUES(?, ?)", (i, "p%d" % i))
        c.execute("INSERT INTO k VALUES(?, ?)", ("n%03d" % i, i))
        c.execute("INSERT INTO w VALUES(?, ?)", (i, i % 5))
    c.execute("COMMIT")
    c.close()


SCENARIOS = [   # (mode, hold arguments, pauses?)
    ("normal", "select t a,b", True), ("stop", "select t a,b", True), ("panic", "select t a,b", True),
    ("normal", "selectplain t a,b", True), ("panic", "selectplain w x,y", True), ("stop", "select w x,y", True),
    ("normal", "iselect t t_a a,b", True), ("panic", "iselect t t_a a,b", True), ("normal", "iselect w w_y x,y", True),
    ("normal", "iselecteq t t_a i3 a,b", True), ("panic", "iselecteq t t_a i3 a,b", True), ("panic", "iselecteq w w_y i2 x,y", True),
    ("normal", "pkselect p i5 id,v", True), ("panic", "pkselect p i5 id,v", True),
    ("normal", "pkselect k t6e303035 name,v", True), ("panic", "pkselect k t6e303035 name,v", True),
    ("normal", "pkselect w i7 x,y", True), ("panic", "pkselect w i7 x,y", True),
    ("normal", "selectrowid p 5 id,v", False), ("normal", "selectrowid p 99999 id,v", False), ("normal", "columns t", False),
    ("normal", "select t nosuchcolumn", False), ("normal", "select nosuchtable a", False), ("normal", "iselect t nosuchindex a", False),
    ("normal", "pkselect p i99999 id,v", False), ("normal", "iselecteq t t_a i99 a,b", False),
]


def model_lock(model, sched):
    out = model.cmd("lock 1 1 " + sched)
    return out


def check(run):
    rng = random.Random(run.seed)
    check_obligations(run)
    wd = os.path.join(core.WORK, "c06")
    shutil.rmtree(wd, ignore_errors=True)
    os.makedirs(wd, exist_ok=True)
    path = os.path.join(wd, "lock.db")
    make_db(path)
    known = core.load_known("C06")
    impl = core.Session(core.IMPLRUN)
    model = core.Session(core.MODELRUN)
    dist = {"scenarios": 0, "paused": 0, "probes": 0, "writer_attempts": 0, "same_process": 0}
    o = impl.cmd("fopen %s" % path)
    if o != ["open ok 512"]:
        run.violation("cannot open the test database through the real pager: %s" % o, {"kind": "harness", "impl": o})
    # what the model says the reader's process holds while locked / afterwards, and what a writer then reaches
    m_locked = model_lock(model, "L1:0 L2:0 L3:0 P:0")
    m_after = model_lock(model, "L1:0 L2:0 L3:0 P:0 U:0")
    m_writer_blocked = model_lock(model, "L1:0 L2:0 L3:0 P:0 S1:0 S2:0 S3:0 R:0 Pe:0 X:0 W:0")
    m_writer_free = model_lock(model, "L1:0 L2:0 L3:0 P:0 U:0 S1:0 S2:0 S3:0 R:0 Pe:0 X:0 W:0")
    exp_locked = m_locked[0].split(" ", 2)[2] if m_locked else "?"
    exp_after = m_after[0].split(" ", 2)[2] if m_after else "?"
    exp_blocked = "writes=0" in (m_writer_blocked[-1] if m_writer_blocked else "")
    exp_free = "writes=1" in (m_writer_free[-1] if m_writer_free else "")
    if exp_locked != "pending=- reserved=- shared=R" or exp_after != "pending=- reserved=- shared=-" or not exp_blocked or not exp_free:
        run.violation("the lock model no longer predicts SHARED during a read and nothing afterwards: %s / %s" % (m_locked, m_after),
                      {"no_failing_input_found": True, "broken": "Model/Lock.v run", "model": [m_locked, m_after, m_writer_blocked, m_writer_free]})
    for mode, args, pauses in SCENARIOS:
        run.count(); dist["scenarios"] += 1
        what = "%s (%s)" % (args, {"normal": "runs to the end", "stop": "callback asks to stop", "panic": "callback panics"}[mode])
        core.session_send(impl, "hold %s %s" % (mode, args))
        lines = core.session_read_until(impl, lambda l: l == "paused" or l.startswith("held") or l.startswith("hold unknown"))
        if lines[-1] in ("TIMEOUT", "DEAD"):
            run.violation("%s: the reader did not answer" % what, {"kind": "harness", "scenario": [mode, args], "impl": lines})
            break
        if lines[-1] == "paused":
            dist["paused"] += 1
            got = lk.show(lk.probe(path)); dist["probes"] += 1
            wr = lk.try_commit(path); dist["writer_attempts"] += 1
            if got != exp_locked or wr != "locked":
                run.violation("%s: inside the row callback another process sees [%s] (model: [%s]) and a SQLite writer's COMMIT is '%s' (must be 'locked')" % (what, got, exp_locked, wr),
                              {"kind": "lock-not-held", "db": path, "scenario": [mode, args], "probe": got, "model": exp_locked, "writer": wr})
            core.session_send(impl, "resume")
            lines = core.session_read_until(impl, lambda l: l.startswith("held"))
        elif pauses:
            run.violation("%s: no row was delivered (the scenario expects rows)" % what, {"kind": "harness", "scenario": [mode, args], "impl": lines})
        got = lk.show(lk.probe(path)); dist["probes"] += 1
        wr = lk.try_commit(path); dist["writer_attempts"] += 1
        if got != exp_after or wr != "committed":
            run.violation("%s: after the call returned (%s) another process sees [%s] (model: [%s]); a SQLite writer's COMMIT is '%s' (must succeed)" % (what, lines[-1], got, exp_after, wr),
                          {"kind": "lock-not-released", "db": path, "scenario": [mode, args], "probe": got, "model": exp_after, "writer": wr, "impl": lines[-2:]})
        run.nontrivial("%s/%s" % (mode, args))
    # a second handle in the SAME process (known finding: POSIX locks belong to the process)
    for action, kid in (("f2 open %s" % path, "same-process-open"), ("f2 open %s|f2 rlock|f2 runlock" % path, "same-process-unlock"), ("f2 open %s|f2 close" % path, "same-process-close")):
        run.count(); dist["same_process"] += 1
        core.session_send(impl, "hold normal select t a,b")
        lines = core.session_read_until(impl, lambda l: l == "paused" or l.startswith("held"))
        if lines[-1] != "paused":
            continue
        for a in action.split("|"):
            core.session_send(impl, a)
            core.session_read_until(impl, lambda l: l.startswith("f2 "))
        got = lk.show(lk.probe(path))
        wr = lk.try_commit(path)
        core.session_send(impl, "resume")
        core.session_read_until(impl, lambda l: l.startswith("held"))
        impl.cmd("f2 close")
        if got != exp_locked or wr != "locked":
            k = next((k for k in known if k["id"] == kid), None)
            msg = "a second handle of the same process (%s) while the first is inside its callback: another process sees [%s], a writer's COMMIT is '%s'" % (action.split("|")[-1][3:].split(" ")[0], got, wr)
            if k:
                run.known_hits.append(k["what_fails"])
            else:
                run.violation(msg, {"kind": "lock-not-held", "db": path, "scenario": action, "probe": got, "writer": wr})
    # an Open of the same file that FAILS (a hot journal appeared) while the first handle is inside its callback: whatever the
    # failed open cleans up, the reader's lock must survive it
    import struct as _st
    run.count(); dist["same_process"] += 1
    core.session_send(impl, "hold normal select t a,b")
    lines = core.session_read_until(impl, lambda l: l == "paused" or l.startswith("held"))
    if lines[-1] == "paused":
        jpath = path + "-journal"
        with open(jpath, "wb") as jf:
            hdr = bytes([0xd9, 0xd5, 0x05, 0xf9, 0x20, 0xa1, 0x63, 0xd7]) + _st.pack(">iIIII", 1, 12345, 4, 512, 1024)
            jf.write(hdr + b"\0" * (512 - len(hdr)) + b"\0" * 1032)
        core.session_send(impl, "f2 open %s" % path)
        o = core.session_read_until(impl, lambda l: l.startswith("f2 "))
        got = lk.show(lk.probe(path))
        os.remove(jpath)
        wr = lk.try_commit(path)
        core.session_send(impl, "resume")
        core.session_read_until(impl, lambda l: l.startswith("held"))
        impl.cmd("f2 close")
        dist["failed_open"] = o[-1]
        kf = next((k for k in known if k["id"] == "same-process-failed-open"), None)
        if o[-1] == "f2 open err" and (got != exp_locked or wr != "locked") and kf:
            run.known_hits.append(kf["what_fails"])
        elif o[-1] == "f2 open err" and (got != exp_locked or wr != "locked"):
            run.violation("a failed Open of the same file in the same process (hot journal) while a read is inside its callback: another process sees [%s], a writer's COMMIT is '%s'" % (got, wr),
                          {"kind": "lock-not-held", "db": path, "scenario": "hold select; journal appears; Open fails; probe", "probe": got, "writer": wr})
    # a nested call on the same handle from inside the callback must not take the lock away from the outer call
    # (through every entry point: each takes the lock itself, fails on the held lock or not, and must leave the outer lock alone)
    for nested in ("nest", "nest select", "nest selectrowid", "nest iselect", "nest iselecteq", "nest pkselect"):
        run.count(); dist["nested"] = dist.get("nested", 0) + 1
        core.session_send(impl, "hold normal select t a,b")
        lines = core.session_read_until(impl, lambda l: l == "paused" or l.startswith("held"))
        if lines[-1] == "paused":
            core.session_send(impl, nested)
            nest = core.session_read_until(impl, lambda l: l.startswith("f2 "))
            got = lk.show(lk.probe(path)); wr = lk.try_commit(path)
            core.session_send(impl, "resume")
            core.session_read_until(impl, lambda l: l.startswith("held"))
            if got != exp_locked or wr != "locked":
                run.violation("after a nested call on the same handle (%s: %s) from inside the callback another process sees [%s]; a writer's COMMIT is '%s'" % (nested, nest[-1], got, wr),
                              {"kind": "lock-not-held", "db": path, "scenario": "%s inside Select's callback" % nested, "probe": got, "writer": wr})
            got = lk.show(lk.probe(path)); wr = lk.try_commit(path)
            if got != exp_after or wr != "committed":
                run.violation("after the outer call with a nested %s returned, another process sees [%s]; a writer's COMMIT is '%s'" % (nested, got, wr),
                              {"kind": "lock-not-released", "db": path, "scenario": "%s inside Select's callback" % nested, "probe": got, "writer": wr})
    # an RLock that fails must hold nothing afterwards: another process has one of the lock regions; every entry point fails; the
    # process holds no lock of its own (a leaked read lock on PENDING would keep every writer out for good)
    regions = dict(lk.REGIONS, all=(lk.PENDING, 512))        # all: one merged lock over PENDING..SHARED, as a writer in EXCLUSIVE holds it
    for region in ("shared", "pending", "all"):
        start, ln = regions[region]
        holder = subprocess.Popen([sys.executable, "-c",
                                   "import fcntl,os,sys\nfd=os.open(sys.argv[1],os.O_RDWR)\nfcntl.lockf(fd,fcntl.LOCK_EX|fcntl.LOCK_NB,%d,%d,0)\nprint('held',flush=True)\nsys.stdin.readline()\n" % (ln, start), path],
                                  stdin=subprocess.PIPE, stdout=subprocess.PIPE, stderr=subprocess.DEVNULL)
        if holder.stdout.readline().strip() != b"held":
            holder.wait()
            got = lk.show(lk.probe(path))
            run.violation("the %s region cannot be locked by another process although no read is running: the lock table shows [%s] (a lock leaked by an earlier failed read?)" % (region, got),
                          {"kind": "lock-leak-after-failed-rlock", "db": path, "region": region, "probe": got})
            continue
        for cmd in ("select t 0 a", "selectrowid t 1 a", "iselect t t_a a", "pkselect t i1 a", "columns t"):
            run.count(); dist["failed_rlock"] = dist.get("failed_rlock", 0) + 1
            o = impl.cmd(cmd)
            if not any(l.startswith(("end err", "err ", "columns err")) or " err" in l for l in o):
                run.violation("%s while another process holds a write lock on the %s region: no error (%s)" % (cmd, region, o[-2:]),
                              {"kind": "rlock-not-refused", "db": path, "command": cmd, "region": region, "impl": o[-3:]})
            got = lk.probe(path)
            mine = {r: v for r, v in got.items() if r != region and region != "all"}
            if any(v != "-" for v in mine.values()):
                run.violation("%s failed because another process holds the %s region; afterwards the reader's process still holds a lock: %s" % (cmd, region, lk.show(got)),
                              {"kind": "lock-leak-after-failed-rlock", "db": path, "command": cmd, "region": region, "probe": lk.show(got)})
        holder.stdin.close(); holder.wait()
        got = lk.show(lk.probe(path)); wr = lk.try_commit(path)
        if got != exp_after or wr != "committed":
            run.violation("after reads that failed on a held %s region and the holder's release, another process sees [%s]; a writer's COMMIT is '%s'" % (region, got, wr),
                          {"kind": "lock-leak-after-failed-rlock", "db": path, "region": region, "probe": got, "writer": wr})
        # ... and the SAME handle's next read really holds SHARED again (whatever the refused attempts left in the handle)
        run.count()
        core.session_send(impl, "hold normal select t a,b")
        lines = core.session_read_until(impl, lambda l: l == "paused" or l.startswith("held"))
        if lines[-1] == "paused":
            got = lk.show(lk.probe(path)); wr = lk.try_commit(path)
            core.session_send(impl, "resume")
            core.session_read_until(impl, lambda l: l.startswith("held"))
            if got != exp_locked or wr != "locked":
                run.violation("the read after reads that were refused on a held %s region: inside its callback another process sees [%s] (model: [%s]); a writer's COMMIT is '%s'" % (region, got, exp_locked, wr),
                              {"kind": "lock-not-held", "db": path, "scenario": "refused reads while another process held %s; release; hold select" % region, "probe": got, "writer": wr})
        else:
            run.violation("the read after reads that were refused on a held %s region does not deliver rows: %s" % (region, lines[-1:]),
                          {"kind": "lock-state-after-refusal", "db": path, "region": region, "impl": lines[-3:]})
    # a read that fails AFTER the lock was taken (the file's header has become one the library must refuse: another process
    # switched the database to WAL) must release the lock on its way out, through every entry point
    import sqlite3 as _sq
    c = _sq.connect(path, isolation_level=None); mode = c.execute("PRAGMA journal_mode=WAL").fetchone()[0]; c.execute("INSERT INTO t VALUES(424242, 'wal')"); c.close()
    dist["refused_header"] = 0
    if mode == "wal":
        for cmd in ("select t 0 a", "selectrowid t 1 a", "iselect t t_a a", "iselecteq t t_a i3 a", "pkselect t i1 a", "columns t"):
            run.count(); dist["refused_header"] += 1
            o = impl.cmd(cmd)
            failed = any(l.startswith(("end err", "err ", "columns err")) or " err" in l for l in o)
            got = lk.show(lk.probe(path))
            if got != exp_after:
                run.violation("%s on a handle whose file was switched to WAL by another process (%s): after the call returned another process sees [%s] - the read lock was not released" % (cmd, "refused" if failed else "not refused", got),
                              {"kind": "lock-not-released", "db": path, "scenario": "long-lived handle; PRAGMA journal_mode=WAL elsewhere; " + cmd, "probe": got, "impl": o[-2:]})
                break
        c = _sq.connect(path, isolation_level=None)
        try:
            c.execute("PRAGMA journal_mode=DELETE")
        except _sq.OperationalError as e:
            run.notes.append("could not switch back from WAL: %s" % e)
        c.close()
    impl.close(); model.close()
    run.cov["traces_validated_against_impl"] = dist["probes"]
    run.cov["rule"] = ("a real file, the real pager, real POSIX locks: every select-like entry point (Select, SelectDone, SelectRowid, IndexedSelect, IndexedSelectEq, PKSelect on rowid / "
                       "INTEGER PRIMARY KEY / text-PK / WITHOUT ROWID tables, Columns) x exit path (runs to the end, callback asks to stop, callback panics, unknown table / column / index, "
                       "no matching row): while the row callback is running, ANOTHER process probes the three lock regions with F_GETLK and a real SQLite writer tries to COMMIT "
                       "(must be 'database is locked'); after the call has returned both are repeated (nothing held, COMMIT succeeds). The expected lock table rows come from the extracted "
                       "Model/Lock.v run on the matching schedule. Then the three same-process-second-handle histories. non-trivial = distinct (entry point, exit path) scenarios Reads refused on a held lock region (SHARED, PENDING, one merged lock over both) leave nothing behind and the handle's next read holds SHARED again; a read that fails after the lock was taken (file switched to WAL elsewhere) releases it.")
    run.cov["distribution"] = dist
    run.sample({"scenario": "hold panic iselecteq t t_a i3 a,b", "during_callback": exp_locked + ", writer locked", "after": exp_after + ", writer committed"})
    run.assumptions += ["Linux POSIX record locks (fcntl F_SETLK / F_GETLK); the kernel's semantics are the model's hypotheses", "SQLite 3.40.1 unix VFS as the writer"]


def replay(run, path):
    import json
    r = json.load(open(path))
    print(json.dumps(r, indent=1)[:1500])
