"""C19 - the database/sql driver returns the native API's rows and cleans up"""
import json, os, random, shutil, sqlite3, struct, subprocess
from vlib import core, sqlfmt
from checks.common import check_obligations

DRVRUN = os.path.join(core.VERIF, "harness", "bin", "drvrun")


def leaves_in_order(data, root, u):
    res = []
    def walk(n, d):
        if d > 30:
            return
        t, nc, rm, cells = sqlfmt.page_info(data, n, u)
        pg = sqlfmt.read_page(data, n, u)
        if t in (2, 5):
            for c in cells:
                walk(struct.unpack(">I", pg[c:c + 4])[0], d + 1)
            walk(rm, d + 1)
        else:
            res.append(n)
    walk(root, 1)
    return res


def corpus(wd, rng):
    u = 512
    path = os.path.join(wd, "plain.db")
    c = sqlfmt.new_db(path, u)
    c.execute("CREATE TABLE small(a INTEGER, b TEXT, c)")
    c.execute("CREATE TABLE empty(a, b)")
    c.execute("CREATE TABLE one(a, b)")
    c.execute("CREATE TABLE big(id INTEGER PRIMARY KEY, a INTEGER, b TEXT, c, d)")
    c.execute("CREATE TABLE wr(k TEXT, n INTEGER, v, PRIMARY KEY(k, n)) WITHOUT ROWID")
    c.execute("CREATE TABLE wsmall(k TEXT PRIMARY KEY, v) WITHOUT ROWID")
    c.execute("BEGIN")
    for i in range(5):
        c.execute("INSERT INTO small VALUES(?,?,?)", (i * 7 - 3, "row%d" % i, [None, 1.5, b"\x00\x01", "t", 2 ** 40][i]))
    c.execute("INSERT INTO one VALUES(1, 'only')")
    for i in range(260):
        c.execute("INSERT INTO big VALUES(?,?,?,?,?)", (i * 3 + 1, i % 17, "b%03d" % i + "x" * (i % 23), [None, i * 1.25, b"blob%d" % i, "txt"][i % 4], "pad" * (i % 9)))
    for i in range(220):
        c.execute("INSERT INTO wr VALUES(?,?,?)", ("key%03d" % (i // 2), i % 2, "v" * (i % 31)))
    for i in range(4):
        c.execute("INSERT INTO wsmall VALUES(?,?)", ("k%d" % i, i))
    c.execute("COMMIT")
    # rows written before the column existed: the DEFAULT fills them in
    c.execute("ALTER TABLE small ADD COLUMN z DEFAULT 'dflt'")
    c.execute("INSERT INTO small VALUES(99, 'late', 1, 'given')")
    roots = {n: r for _, n, _, r, _ in sqlfmt.master(c)}
    c.close()
    data = open(path, "rb").read()
    # a damaged leaf late in each big tree: the scan fails after the rows before it
    cpath = os.path.join(wd, "corrupt.db")
    bad = bytearray(data)
    cut = {}
    for t, frac in (("big", .7), ("wr", .6)):
        lv = leaves_in_order(data, roots[t], u)
        n = lv[int(len(lv) * frac)]
        bad[(n - 1) * u] = 7
        cut[t] = (n, len(lv))
    open(cpath, "wb").write(bytes(bad))
    # the very first leaf damaged: no rows at all before the error
    c0 = os.path.join(wd, "corrupt0.db")
    bad = bytearray(data)
    for t in ("big", "wr"):
        bad[(leaves_in_order(data, roots[t], u)[0] - 1) * u] = 7
    open(c0, "wb").write(bytes(bad))
    return path, cpath, c0, cut


class Drv:
    def __init__(self):
        self.s = core.Session(DRVRUN)

    def cmd(self, line, timeout=60):
        out = self.s.cmd(line, timeout=timeout)
        return out

    def close(self):
        self.s.close()


def model_outcomes(cases):
    """cases: list of (n, fin, prog) -> list of sets of outcome strings"""
    text = "".join("# %d\ndrv %d %s %s\n" % (i, n, fin, prog) for i, (n, fin, prog) in enumerate(cases))
    res = core.run_pair(text, "c19-model", sides=("model",), timeout=600)
    by = core.split_cases(res["model"][1])
    return [set(l[8:] for l in by.get(str(i), []) if l.startswith("outcome ")) for i in range(len(cases))], res["model"][0]


def programs(n, rng, quick):
    ps = set()
    ks = sorted(set([0, 1, 2, 3, max(0, n - 1), n, n + 1]))
    ks = [k for k in ks if k <= 6]
    for k in ks:
        ps.add("N" * k + "C")
        ps.add("N" * k + "XC")
        ps.add("N" * k + "X" + "NN" + "C")
        ps.add("N" * k + "C" + "N")
        ps.add("N" * k + "XN")
        if k:
            ps.add("N" * k)
    ps.add("CC")
    ps.add("XNXC")
    ps.add("NXNXNC")
    for _ in range(4 if quick else 30):
        ps.add("".join(rng.choice("NNNXC") for _ in range(rng.randint(1, 7))))
    return sorted(ps)


def check(run):
    rng = random.Random(run.seed)
    check_obligations(run)
    quick = run.tier == "quick"
    wd = os.path.join(core.WORK, "c19")
    shutil.rmtree(wd, ignore_errors=True)
    os.makedirs(wd, exist_ok=True)
    plain, corrupt, corrupt0, cut = corpus(wd, rng)
    d = Drv()
    dist = {"driver_cases": 0, "driver_runs": 0, "sql_cases": 0, "error_statements": 0, "schema_change_histories": 0,
            "model_outcomes": 0, "model_outcomes_observed": 0, "nondeterministic_cases": 0}
    dead = [False]

    def ask(line, timeout=60):
        out = d.cmd(line, timeout=timeout)
        if out and out[-1] in ("DEAD", "TIMEOUT") or any(l.startswith("HANG") for l in out):
            dead[0] = True
        return out

    # ---- driver level, against every interleaving of the model ----
    targets = [(plain, "small", "*"), (plain, "small", "b,a"), (plain, "empty", "*"), (plain, "one", "*"), (plain, "wsmall", "*"),
               (plain, "wsmall", "v,k"), (plain, "big", "*"), (plain, "wr", "*"), (corrupt, "big", "*"), (corrupt, "wr", "*"),
               (corrupt, "wr", "v"), (corrupt0, "big", "a"), (corrupt0, "wr", "*"), (plain, "big", "rowid,b"), (plain, "small", "*,a,*")]
    plan = []
    for path, table, cs in targets:
        out = ask("open %s" % path)
        out = ask("native %s %s" % (table, cs))
        if not out or not out[0].startswith("native "):
            run.violation("native select failed to run on %s %s" % (table, cs), {"no_failing_input_found": True, "broken": "harness", "out": out})
            continue
        f = out[0].split()
        n, fin = int(f[1]), ("-" if f[2] == "fin=-" else "E")
        for prog in programs(n, rng, quick):
            plan.append((path, table, cs, n, fin, prog))
    sets, mrc = model_outcomes([(n, fin, prog) for _, _, _, n, fin, prog in plan])
    if mrc != 0:
        run.violation("modelrun died", {"no_failing_input_found": True, "broken": "model execution"})
    reps = 3 if quick else 12
    cur = None
    for (path, table, cs, n, fin, prog), allowed in zip(plan, sets):
        if dead[0]:
            break
        if cur != (path, table, cs):
            ask("open %s" % path)
            ask("native %s %s" % (table, cs))
            cur = (path, table, cs)
        dist["driver_cases"] += 1
        dist["model_outcomes"] += len(allowed)
        if len(allowed) > 1:
            dist["nondeterministic_cases"] += 1
        seen = set()
        for r in range(reps if len(allowed) > 1 or not quick else 2):
            delay = str((r + len(prog)) % 4)
            out = ask("drv %s %s %s %s" % (table, cs, prog, delay))
            run.count(); dist["driver_runs"] += 1
            line = out[0] if out else "?"
            if not line.startswith("outcome "):
                run.violation("driver run of %s on %s(%s) gave no outcome: %s" % (prog, table, cs, out[:3]),
                              {"kind": "driver", "db": path, "table": table, "cols": cs, "prog": prog, "delay": delay, "impl": out[:5]})
                continue
            body, _, after = line[8:].partition(" after=")
            seen.add(body)
            if body not in allowed:
                run.violation("database %s, SELECT %s FROM %s (native: %d rows, ends %s), consumer program %s (N=Next X=cancel C=Close): the driver did [%s]; "
                              "no interleaving of the model does that - it allows %s" % (os.path.basename(path), cs, table, n, "with an error" if fin == "E" else "normally",
                                                                                      prog, body, sorted(allowed)[:4]),
                              {"kind": "driver-vs-model", "db": path, "table": table, "cols": cs, "prog": prog, "delay": delay, "n": n, "fin": fin,
                               "impl": body, "model": sorted(allowed)})
            if after != "ok":
                run.violation("after SELECT %s FROM %s with consumer program %s and a final Close: %s" % (cs, table, prog, after),
                              {"kind": "leak", "db": path, "table": table, "cols": cs, "prog": prog, "delay": delay, "impl": line})
        dist["model_outcomes_observed"] += len(seen & allowed)
        run.nontrivial("%s/%s/%s/%s" % (os.path.basename(path), table, cs, prog))
        run.sample({"db": os.path.basename(path), "select": "%s FROM %s" % (cs, table), "program": prog, "impl": sorted(seen), "model": sorted(allowed)})

    # ---- database/sql level: rows equal the native rows; early close / cancel at every k ----
    sql_targets = [(plain, "small", "*"), (plain, "small", "z,a"), (plain, "small", "*,b"), (plain, "big", "*"), (plain, "big", "c,id"), (plain, "wr", "*"),
                   (plain, "wr", "v,k"), (plain, "empty", "*"), (corrupt, "big", "*"), (corrupt, "wr", "*"), (corrupt0, "wr", "k"), (plain, "big", "rowid,a")]
    for path, table, cs in sql_targets:
        if dead[0]:
            break
        ask("open %s" % path)
        out = ask("native %s %s" % (table, cs))
        f = out[0].split()
        n, fin = int(f[1]), ("-" if f[2] == "fin=-" else "E")
        ks = sorted(set([0, 1, 2, n // 2, max(0, n - 1), n])) if quick else sorted(set(list(range(0, min(n, 12) + 1)) + [n // 2, max(0, n - 1), n]))
        for mode, k in [("drain", -1)] + [(m, k) for k in ks for m in ("close", "cancel")]:
            delay = str(rng.randrange(4))
            out = ask("sql %s %s %d %s %s" % (table, cs, k, mode, delay))
            run.count(); dist["sql_cases"] += 1
            line = out[0] if out else "?"
            g = dict(x.split("=", 1) for x in line.split()[1:] if "=" in x) if line.startswith("sql ") else {}
            bad = None
            if not g:
                bad = "no answer: %s" % line
            elif g.get("after") != "ok":
                bad = "after the result set was closed: %s" % g.get("after")
            elif g.get("match") != "true" or g.get("scan") != "nil":
                bad = "rows differ from the native select"
            elif mode == "drain":
                if int(g["rows"]) != n:
                    bad = "%s rows, the native select gives %d" % (g["rows"], n)
                elif fin == "E" and g["err"] != "native":
                    bad = "the native select ends with an error after %d rows; rows.Err() is %s - a silently short result" % (n, g["err"])
                elif fin == "-" and g["err"] != "nil":
                    bad = "rows.Err() = %s on a clean scan" % g["err"]
            else:
                if int(g["rows"]) != min(k, n):
                    bad = "%s rows read, expected %d" % (g["rows"], min(k, n))
                elif k < n and (g["close"] not in ("nil",) or g["err"] not in ("nil", "canceled")):
                    bad = "closed after %d of %d rows: Close() = %s, Err() = %s" % (k, n, g["close"], g["err"])
                elif g["close"].startswith("other") or g["err"].startswith("other"):
                    bad = "unexpected error: Close() = %s, Err() = %s" % (g["close"], g["err"])
            if bad:
                run.violation("database/sql: SELECT %s FROM %s on %s, %s after %d rows: %s" % (cs, table, os.path.basename(path), mode, k, bad),
                              {"kind": "sql", "db": path, "table": table, "cols": cs, "k": k, "mode": mode, "delay": delay, "impl": line, "native": out and f})
            run.nontrivial("sql/%s/%s/%s/%s/%d" % (os.path.basename(path), table, cs, mode, k))

    # ---- errors surface ----
    stmts = ["SELECT * FROM nosuch", "SELECT nosuch FROM small", "SELECT a, nosuch FROM big", "CREATE TABLE x(a)", "INSERT INTO small VALUES(1,2,3)", "DELETE FROM small",
             "SELECT", "", "garbage", "SELECT * FROM", "SELECT * FROM small; SELECT * FROM one", "SELECT a FROM small WHERE a = 1", "SELECT * FROM small, one",
             "CREATE INDEX i ON small(a)", "SELECT nosuch FROM wr", "SELECT k, nosuch FROM wsmall", "UPDATE small SET a = 1", "SELECT * FROM sqlite_master"]
    if not dead[0]:
        ask("open %s" % plain)
        for q in stmts:
            out = ask("sqlerr %s" % (q.encode().hex() or "-"))
            run.count(); dist["error_statements"] += 1
            line = out[0] if out else "?"
            full = False
            if q in ("SELECT * FROM small; SELECT * FROM one", "SELECT * FROM sqlite_master"):
                # accepted statements are fine as long as they are whole results; only refused ones must not look like results
                full = True
            if line.startswith("sqlerr none") and not full:
                run.violation("database/sql: %r returns a result set (%s) with no error anywhere" % (q, line), {"kind": "sqlerr", "db": plain, "query": q, "impl": line})
            elif not line.startswith("sqlerr "):
                run.violation("database/sql: %r: %s" % (q, line), {"kind": "sqlerr", "db": plain, "query": q, "impl": line})
            run.nontrivial("err/" + q)

    # ---- one prepared statement (one handle) across schema changes made by SQLite ----
    if not dead[0]:
        hp = os.path.join(wd, "hist.db")
        changes = [None, "INSERT INTO t VALUES(3, 'three')", "ALTER TABLE t ADD COLUMN z DEFAULT 7", "INSERT INTO t VALUES(4, 'four', 8)",
                   "DROP TABLE t; CREATE TABLE t(b, a, extra); INSERT INTO t VALUES('x', 1, 2)", "ALTER TABLE t RENAME COLUMN extra TO more", "DELETE FROM t",
                   "INSERT INTO t VALUES('y', 2, 3)", "VACUUM"]
        for cols_ in ("*", "*,a"):
            c = sqlfmt.new_db(hp, 1024)
            c.execute("CREATE TABLE t(a, b)")
            c.execute("INSERT INTO t VALUES(1, 'one')")
            c.execute("INSERT INTO t VALUES(2, 'two')")
            c.close()
            ask("open %s" % hp)
            out = ask("prep t %s" % cols_)
            for ch in changes:
                if ch:
                    c = sqlite3.connect(hp, isolation_level=None)
                    c.executescript(ch)
                    c.close()
                got = ask("pq")
                want = ask("fresh t %s" % cols_)
                run.count(); dist["schema_change_histories"] += 1
                g, w = (got[0][3:] if got else "?"), (want[0][6:] if want else "?")
                if g != w:
                    run.violation("prepared SELECT %s FROM t reused after %r by another connection: the driver returns %s, a fresh native select %s" % (cols_, ch, g[:200], w[:200]),
                                  {"kind": "prepared", "cols": cols_, "changes": changes[:changes.index(ch) + 1], "impl": g, "fresh": w})
                run.nontrivial("prep/%s/%s" % (cols_, ch))
            ask("pclose")
    d.close()
    if dead[0]:
        run.violation("the driver harness hung or died: %s" % d.s.log[-1], {"kind": "hang", "last_command": d.s.log[-1], "log": d.s.log[-6:]})
    run.cov["traces_validated_against_impl"] = dist["driver_runs"] + dist["sql_cases"]
    run.cov["distribution"] = dist
    run.cov["rule"] = ("driver level: Statement.QueryContext / Rows.Next / context cancel / Rows.Close called directly with consumer programs (close or cancel after every k, Next after "
                       "cancel, Next after Close, double Close, abandoned result sets, random programs) on rowid and WITHOUT ROWID tables of 0, 1, 4-6 and 200+ rows, column lists with "
                       "'*', repeated '*', rowid; clean files and files with a damaged leaf late in / at the start of the tree; each run %d times with different delays between the "
                       "consumer's operations. The observation (rows by position in the native result, EOF / error, Close's result, producer parked or exited, file lock seen from "
                       "another process) must be one of the outcomes Model/Driver.v reaches over all interleavings (extracted [explore]). Afterwards: goroutine count, descriptors "
                       "on the file, lock probe. database/sql level: rows equal DB.Select's, close / cancel after k rows, rows.Err on damaged files, 18 refused statements, one "
                       "prepared statement across schema changes made by SQLite. non-trivial = distinct (file, select, program / k / statement)" % reps)
    run.assumptions += ["the Go runtime's scheduler decides which interleavings occur: the model's outcome sets are exhaustive, the implementation's runs are samples of them",
                        "goroutine exit is observed through runtime.NumGoroutine returning to its value before the query"]


def replay(run, path):
    r = json.load(open(path))
    d = Drv()
    if r.get("kind") in ("driver-vs-model", "driver", "leak"):
        print(d.cmd("open %s" % r["db"])); print(d.cmd("native %s %s" % (r["table"], r["cols"])))
        for i in range(5):
            print("impl:", d.cmd("drv %s %s %s %s" % (r["table"], r["cols"], r["prog"], r.get("delay", "0"))))
        print("model allows:", r.get("model"))
    elif r.get("kind") == "sql":
        print(d.cmd("open %s" % r["db"])); print(d.cmd("native %s %s" % (r["table"], r["cols"])))
        print("impl:", d.cmd("sql %s %s %d %s %s" % (r["table"], r["cols"], r["k"], r["mode"], r.get("delay", "0"))))
    elif r.get("kind") == "sqlerr":
        print(d.cmd("open %s" % r["db"])); print("impl:", d.cmd("sqlerr %s" % (r["query"].encode().hex() or "-")))
    else:
        print(json.dumps(r)[:1500])
    d.close()
