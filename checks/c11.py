"""C11 - values compare in SQLite's order"""
import math, os, random, sqlite3, struct
from vlib import core, sqlfmt, sqlcmp
from checks.common import check_obligations
from checks import ops

I = [0, 1, -1, 2, 127, 128, -129, 32768, 2 ** 31, -2 ** 31 - 1, 2 ** 53 - 1, 2 ** 53, 2 ** 53 + 1, 2 ** 53 + 2, -2 ** 53, -2 ** 53 - 1,
     2 ** 62, 2 ** 63 - 1, 2 ** 63 - 2, -2 ** 63, -2 ** 63 + 1, 9007199254740993, 123456789012345678, 1000, -1000]
F = [0.0, -0.0, 0.5, -0.5, 1.0, -1.0, 1.5, 2.0 ** 53, 2.0 ** 53 + 2, 2.0 ** 53 - 1, -2.0 ** 53, 2.0 ** 62, 2.0 ** 63, -2.0 ** 63, 2.0 ** 63 + 2048, 2.0 ** 63 - 1024,
     -2.0 ** 63 - 2048, 1e300, -1e300, 5e-324, -5e-324, 2.2250738585072014e-308, float("inf"), float("-inf"), 1e19, 1000.0, 1000.5, 999.9999999999999, 128.0,
     9007199254740993.0, 1.2345678901234568e17]
T = ["", "a", "A", "b", "B", "a ", "a  ", "a\t", " a", "ab", "aB", "Ab", "AB", "ab ", "abc", "ABC", "abd", "z", "Z", "[", "@", "`", "{", "é", "É", "e", "éa", "aé", "K", "k", "K",
     "a\x00b", "a\x00c", "a\x00", "\x00", "10", "9", "zz  ", "zz", "ZZ ",
     # texts at and around the machine word sizes (8, 16 bytes): a common prefix of exactly / just under / just over a word, with the
     # deciding byte - a case difference, a NUL, a different letter - inside the first word, at its edge and right after it
     "user:42\x00profile", "user:42\x00setting", "USER:42\x00zzz", "user:42\x00", "user:421", "user:42", "abcdefgh", "abcdefgH", "abcdefghi", "abcdefgi", "abcdefg",
     "abcdefgh\x00x", "abcdefgh\x00y", "abcdefghijklmnop", "abcdefghijklmnoP", "abcdefghijklmnopq", "abcdefghijklmno\x00a", "abcdefghijklmno\x00b", "ABCDEFGHijklmnopQ"]
B = [b"", b"\x00", b"\x00\x00", b"a", b"A", b"ab", b"a ", b"\xff", b"\xfe\xff", b"abc", b"\x80"]
GRID = [None] + I + F + T + B


def val_text(v):
    return sqlfmt.canon(v)


def sqlite_ranks(wd, coll):
    """dense rank of every grid value under ORDER BY v COLLATE coll, by real SQLite"""
    path = os.path.join(wd, "grid.db")
    if os.path.exists(path):
        os.remove(path)
    c = sqlite3.connect(path)
    c.execute("CREATE TABLE g(id INTEGER PRIMARY KEY, v)")
    for n, v in enumerate(GRID):
        c.execute("INSERT INTO g VALUES(?, ?)", (n, v))
    c.commit()
    # stored back unchanged? (no affinity on the column)
    back = [r[0] for r in c.execute("SELECT v FROM g ORDER BY id")]
    ranks = dict(c.execute("SELECT id, DENSE_RANK() OVER (ORDER BY v COLLATE %s) FROM g" % coll).fetchall())
    c.close()
    return ranks, back


def check(run):
    rng = random.Random(run.seed)
    check_obligations(run)
    wd = os.path.join(core.WORK, "c11")
    os.makedirs(wd, exist_ok=True)
    quick = run.tier == "quick"
    lines, meta = [], {}
    colls = [("b", "binary"), ("n", "nocase"), ("r", "rtrim")]
    known = core.load_known("C11")
    dist = {"grid": len(GRID), "pairs": 0, "sqlite_disagrees_with_python_spec": 0, "key_cases": 0}
    for cc, cname in colls:
        ranks, back = sqlite_ranks(wd, cname)
        for n, (v, w) in enumerate(zip(GRID, back)):
            if sqlfmt.canon(v) != sqlfmt.canon(w):
                run.notes.append("grid value %s is stored back by SQLite as %s; excluded" % (sqlfmt.canon(v), sqlfmt.canon(w)))
        for a in range(len(GRID)):
            for b in range(len(GRID)):
                same_class = sqlcmp.cls(sqlcmp.parse(val_text(GRID[a]))) == sqlcmp.cls(sqlcmp.parse(val_text(GRID[b])))
                if cc != "b" and not (isinstance(GRID[a], str) and isinstance(GRID[b], str)) and (a * 31 + b) % 7:
                    continue        # collations only matter for text pairs; a sample of the rest
                cid = "%s/%d/%d" % (cc, a, b)
                lines.append((cid, "cmp %s %s %s" % (cc, val_text(GRID[a]), val_text(GRID[b]))))
                exp = (ranks[a] > ranks[b]) - (ranks[a] < ranks[b])
                py = sqlcmp.cmp_val(sqlcmp.parse(val_text(GRID[a])), sqlcmp.parse(val_text(GRID[b])), cname)
                if py != exp:
                    dist["sqlite_disagrees_with_python_spec"] += 1
                meta[cid] = (exp, a, b, cname)
                dist["pairs"] += 1
    # Equals / Search on multi-column keys: model vs implementation vs the Python transcription
    klines = []
    for n in range(1500 if quick else 20000):
        ncol = rng.randint(0, 4)
        pool = rng.choice([GRID, T, I + F, T + B])
        key = [(sqlcmp.parse(val_text(rng.choice(pool))), rng.choice(["", "", "nocase", "rtrim"]), rng.random() < .4) for _ in range(ncol)]
        rec = []
        for j in range(rng.randint(0, 5)):
            if j < len(key) and rng.random() < .6:
                v = key[j][0]
                if isinstance(v, tuple) and v[0] == "t" and rng.random() < .5:
                    s = v[1].decode("utf-8", "surrogateescape")
                    v = ("t", rng.choice([s.upper(), s.lower(), s + " ", s.swapcase()]).encode("utf-8", "surrogateescape"))
                rec.append(v)
            else:
                rec.append(sqlcmp.parse(val_text(rng.choice(pool))))
        kt = sqlcmp.show_key(key)
        rt = ",".join(sqlcmp.show_key([(v, "", False)]).split("/")[0] for v in rec) if rec else "-"
        klines.append(("eq/%d" % n, "equals %s %s" % (kt, rt), "true" if sqlcmp.equal(key, rec) else "false"))
        klines.append(("se/%d" % n, "search %s %s" % (kt, rt), "true" if sqlcmp.not_less(key, rec) else "false"))
    # ... and the same cases again through ONE db.Key object whose values are reassigned from case to case (runs of keys of one
    # shape): Equals / Search are functions of the key's current values, whatever the key was used for before
    rlines = []
    shapes = {}
    for cid, cmd, exp in klines:
        kt = cmd.split(" ")[1]
        shapes.setdefault("|".join(x.split("/", 1)[1] if "/" in x else "" for x in kt.split(",")) if kt != "-" else "-", []).append((cid, cmd, exp))
    for shape, group in shapes.items():
        for cid, cmd, exp in group:
            w = cmd.split(" ")
            rlines.append(("r" + cid, "%sr %s %s" % (w[0], w[1], w[2]), exp))
    _, rimpl, _ = ops.run_cmds("c11-reuse", [(c, l) for c, l, _ in rlines], timeout=900, sides=("impl",))
    dist["key_reuse_cases"] = len(rlines)
    for cid, cmd, exp in rlines:
        run.count()
        i = rimpl.get(cid)
        if i != [exp] and not ("00" in cmd and any(k["id"] == "nocase-embedded-nul" for k in known)):
            run.violation("%s on a db.Key object that was used for other values before = %s, SQLite's rules give %s" % (cmd[:120], i, exp),
                          {"kind": "key-reuse", "command": cmd, "impl": i, "expected": exp, "note": "the same command with a fresh key: see equals/search"})
            break
    res, impl, model = ops.run_cmds("c11-grid", lines + [(c, l) for c, l, _ in klines], timeout=1500)
    nknown = {}
    for cid, cmd in lines:
        run.count()
        exp, a, b, cname = meta[cid]
        i, m = impl.get(cid), model.get(cid)
        if i != ["%d" % exp]:
            rep = {"kind": "impl-vs-sqlite", "command": cmd, "impl": i, "sqlite_sign": exp, "a": val_text(GRID[a]), "b": val_text(GRID[b]), "collation": cname}
            k = next((k for k in known if k["matcher"].get("collation") == cname and isinstance(GRID[a], str) and isinstance(GRID[b], str)
                      and k["matcher"].get("both_texts_contain", "\x01") in GRID[a] and k["matcher"].get("both_texts_contain", "\x01") in GRID[b]), None)
            if k:
                nknown[k["id"]] = nknown.get(k["id"], 0) + 1
                continue
            run.violation("compare(%s, %s) under %s = %s, SQLite orders them %d" % (val_text(GRID[a]), val_text(GRID[b]), cname, i, exp), rep)
        elif m != i:
            run.violation("compare: model and implementation differ on %s" % cmd, {"no_failing_input_found": True, "broken": "correspondence compare", "command": cmd, "impl": i, "model": m})
        if exp != 0 or a != b:
            run.nontrivial(cmd)
    for k in known:
        if nknown.get(k["id"]):
            run.known_hits.append("%s (%d grid pairs)" % (k["what_fails"], nknown[k["id"]]))
    for cid, cmd, exp in klines:
        run.count()
        dist["key_cases"] += 1
        i, m = impl.get(cid), model.get(cid)
        if i != [exp]:
            # the Python transcription shares the NUL-in-text caveat with the known finding: keys with NUL in text are model-vs-impl only
            if "00" in cmd and any(k["id"] == "nocase-embedded-nul" for k in known):
                pass
            else:
                run.violation("%s = %s, SQLite's rules give %s" % (cmd[:120], i, exp), {"kind": "impl-vs-spec", "command": cmd, "impl": i, "expected": exp})
        elif m != i:
            run.violation("model and implementation differ on %s" % cmd[:120], {"no_failing_input_found": True, "broken": "correspondence Equals/Search", "command": cmd, "impl": i, "model": m})
        run.nontrivial(cmd)
    if res["impl"][0] != 0 or res["model"][0] != 0:
        run.violation("harness died", {"no_failing_input_found": True, "broken": "harness execution", "stderr": res["impl"][2][-300:] + res["model"][2][-300:]})
    run.cov["traces_validated_against_impl"] = len(lines) + len(klines)
    run.cov["rule"] = ("all ordered pairs of a %d-value grid (NULL; int64 boundaries incl. 2^53+-1, +-2^63; doubles incl. +-0, +-Inf, subnormals, 2^53, 2^63 neighbours; text with case / "
                       "trailing space / tab / prefix variants, non-ASCII, embedded NUL; blobs) under BINARY, and all text pairs (+ a sample of the others) under NOCASE and RTRIM: "
                       "compare() vs the sign of SQLite's own DENSE_RANK() OVER (ORDER BY v COLLATE c) - which also makes the relation a total preorder on the grid - and vs the "
                       "extracted Coq model; random multi-column keys (ASC/DESC, per-column collations, every prefix length) through Equals / Search vs the model and an independent "
                       "Python transcription of the rules. non-trivial = distinct commands" % len(GRID))
    run.cov["distribution"] = dist
    for cid, cmd in lines[500:503]:
        run.sample({"command": cmd, "sqlite_sign": meta[cid][0]})
    run.assumptions += ["SQLite 3.40.1 (python3 sqlite3) is the oracle; NaN is not storable and is excluded"]


def replay(run, path):
    import json
    r = json.load(open(path))
    if "command" not in r:
        print("nothing to replay:", r.get("broken")); return
    res, impl, model = ops.run_cmds("c11-replay", [("x", r["command"])])
    print("impl :", impl.get("x")); print("model:", model.get("x")); print("sqlite sign:", r.get("sqlite_sign"), r.get("expected"))
