"""probing SQLite's lock bytes from another process, parking real SQLite connections in lock states"""
import fcntl, os, sqlite3, struct

PENDING, RESERVED, SHARED_FIRST, SHARED_SIZE = 0x40000000, 0x40000001, 0x40000002, 510
REGIONS = {"pending": (PENDING, 1), "reserved": (RESERVED, 1), "shared": (SHARED_FIRST, SHARED_SIZE)}


def probe(path):
    """{region: '-' | 'R' | 'W'}: what OTHER processes hold on each region (F_GETLK; the caller's own locks are invisible to it)"""
    fd = os.open(path, os.O_RDWR)
    try:
        out = {}
        for name, (start, ln) in REGIONS.items():
            # would a write lock conflict?
            req = struct.pack("hhqqi4x", fcntl.F_WRLCK, 0, start, ln, 0)
            res = fcntl.fcntl(fd, fcntl.F_GETLK, req)
            typ, _, _, _, pid = struct.unpack("hhqqi4x", res)
            out[name] = "-" if typ == fcntl.F_UNLCK else ("R" if typ == fcntl.F_RDLCK else "W")
        return out
    finally:
        os.close(fd)


def show(p):
    return "pending=%s reserved=%s shared=%s" % (p["pending"], p["reserved"], p["shared"])


def try_commit(path, sql="UPDATE t SET b = b || 'x' WHERE rowid = 1"):
    """a real SQLite writer in this process: 'committed' or 'locked' (never waits)"""
    c = sqlite3.connect(path, timeout=0, isolation_level=None)
    try:
        c.execute("BEGIN IMMEDIATE")
        c.execute(sql)
        c.execute("COMMIT")
        return "committed"
    except sqlite3.OperationalError as e:
        try:
            c.execute("ROLLBACK")
        except sqlite3.OperationalError:
            pass
        return "locked" if "locked" in str(e) else "error: %s" % e
    finally:
        c.close()


if __name__ == "__main__":
    import sys
    if sys.argv[1] == "probe":
        print(show(probe(sys.argv[2])))
