"""C14 - records, varints and spilled payloads decode exactly per the file format"""
import os, random, struct
from vlib import core, sqlfmt
from checks.common import judge_cases, check_obligations

INTS = [0, 1, -1, 2, 127, 128, -128, -129, 255, 256, 32767, 32768, -32768, -32769, 8388607, 8388608, -8388608,
        -8388609, 2147483647, 2147483648, -2147483648, -2147483649, 140737488355327, 140737488355328,
        -140737488355328, -140737488355329, 9223372036854775807, -9223372036854775808, 2 ** 53, 2 ** 53 + 1]
FLOATS = [0.0, -0.0, 1.0, -1.5, 1e300, -1e-300, 5e-324, float("inf"), float("-inf"), 2.0 ** 53, 2.0 ** 63, 3.141592653589793]


def varint_cases(run, rng):
    cases, oracle = [], {}
    def add(b):
        cid = "v%d" % len(cases)
        cases.append((cid, "varint " + (b.hex() or "-"), None))
        r = sqlfmt.get_varint(b)
        oracle[cid] = ["none" if r is None else "some %d %d" % r]
    for a in range(256):
        add(bytes([a]))
    step = 1 if run.tier == "thorough" else 3
    for a in range(0, 256, 1):
        for b in range(0, 256, step):
            add(bytes([a, b]))
    for n in range(1, 10):
        lo = 0 if n == 1 else 1 << (7 * (n - 1))
        hi = (1 << (7 * n)) - 1 if n < 9 else (1 << 64) - 1
        for v in (lo, lo + 1, hi - 1, hi, (lo + hi) // 2):
            add(sqlfmt.put_varint(v) + b"\x55")
            add(sqlfmt.put_varint(v)[:-1])            # truncated
        add(bytes([0x80] * (n - 1)) + b"\x01\xaa")   # non-minimal encodings
        add(bytes([0xff] * n))
    for _ in range(3000 if run.tier == "quick" else 60000):
        n = rng.randint(1, 12)
        add(bytes(rng.randrange(256) if rng.random() < .6 else rng.choice([0x80, 0xff, 0x7f, 0x00, 0x81]) for _ in range(n)))
    return cases, oracle


def record_cases(run, rng):
    cases, oracle = [], {}
    def add(vals, serials=None, tail=b""):
        cid = "r%d" % len(cases)
        b = sqlfmt.enc_record(vals, serials) + tail
        cases.append((cid, "record " + (b.hex() or "-"), None))
        oracle[cid] = ["ok " + sqlfmt.canon_rec(vals)]
    for v in INTS:
        for st, w in sqlfmt.INT_WIDTHS.items():
            if -(1 << (8 * w - 1)) <= v < (1 << (8 * w - 1)):
                add([v], [st])
    add([0, 1], [8, 9])
    for f in FLOATS:
        add([f])
    add([float("nan")])
    for n in (0, 1, 2, 57, 58, 63, 64, 127, 128, 300, 8191, 8192, 70000):
        add(["x" * n])
        add([bytes([i % 251 for i in range(n)])])
    add([])
    add([None] * 200)                     # header > 127 bytes
    add(list(range(-100, 100)) + ["abc"] * 40)
    add(["é表", b"\x00\x01\x00", "a\x00b"])
    pool = INTS + FLOATS + [None, "", "abc", b"", b"\xff\x00", "x" * 200, b"y" * 300]
    for _ in range(400 if run.tier == "quick" else 6000):
        vals = [rng.choice(pool) for _ in range(rng.randint(0, 12))]
        serials = []
        for v in vals:
            if isinstance(v, int) and not isinstance(v, bool):
                ok = [st for st, w in sqlfmt.INT_WIDTHS.items() if -(1 << (8 * w - 1)) <= v < (1 << (8 * w - 1))]
                if v in (0, 1) and rng.random() < .5:
                    serials.append(8 + v)
                else:
                    serials.append(rng.choice(ok))
            else:
                serials.append(None)
        add(vals, serials, tail=b"" )
    # malformed stream (model vs implementation only; both must say err, neither may panic)
    mal = []
    base = sqlfmt.enc_record([1, "abc", b"xyz", 2.5, None, 300])
    for i in range(len(base)):
        for v in (0x00, 0x7f, 0x80, 0xff, 0x0a, 0x0b):
            mal.append(base[:i] + bytes([v]) + base[i + 1:])
        mal.append(base[:i])
    mal.append(bytes([0x0b, 0xff, 0xff, 0xff, 0xff, 0xff, 0xff, 0xff, 0xff, 0xfe, 0x41]))  # 9-byte negative serial type
    mal.append(bytes([0x0a]) + b"\xff" * 9)
    for _ in range(300 if run.tier == "quick" else 20000):
        mal.append(bytes(rng.randrange(256) if rng.random() < .5 else rng.choice([0, 1, 2, 3, 0x80, 0xff, 12, 13]) for _ in range(rng.randint(0, 24))))
    for b in mal:
        cases.append(("m%d" % len(cases), "record " + (b.hex() or "-"), "malformed"))
    return cases, oracle


def cellsize_cases(run, rng):
    cases, oracle = [], {}
    sizes = sqlfmt.LEGAL_PAGE_SIZES
    for u in sizes:
        for index in (False, True):
            x = ((u - 12) * 64 // 255) - 23 if index else u - 35
            exhaustive = u <= (1024 if run.tier == "quick" else 4096)
            ls = range(0, 4 * u + 8) if exhaustive else sqlfmt.thresholds(u, index)
            for l in ls:
                cid = "c%d" % len(cases)
                cases.append((cid, "cellsize %d %d %d" % (l, u, x), None))
                oracle[cid] = ["%d" % sqlfmt.local_size(l, u, index)]
    return cases, oracle


def op_cases(run, rng):
    """SQLite writes one row per payload length across every threshold; the
    low-level scans must return exactly SQLite's values."""
    cases, oracle, dist = [], {}, {}
    sizes = [512, 1024] if run.tier == "quick" else sqlfmt.LEGAL_PAGE_SIZES
    wd = os.path.join(core.WORK, "c14")
    os.makedirs(wd, exist_ok=True)
    for u in sizes:
        path = os.path.join(wd, "thr-%d.db" % u)
        c = sqlfmt.new_db(path, u)
        c.execute("CREATE TABLE t(a, b)")
        c.execute("CREATE TABLE s(a)")
        c.execute("CREATE INDEX s_a ON s(a)")
        lens = set(sqlfmt.thresholds(u, False)) | set(sqlfmt.thresholds(u, True))
        if u <= 1024:
            lens |= set(range(0, (3 * u if run.tier == "thorough" else u + 300), 1 if run.tier == "thorough" else 7))
        c.execute("BEGIN")
        n = 0
        for l in sorted(lens):
            # payload = header (<= 5 bytes) + body; sweep body lengths around l
            for d in (0, -2, -3, -4, -5):
                bl = l + d
                if bl < 0 or bl > 300000:
                    continue
                n += 1
                c.execute("INSERT INTO t VALUES(?, ?)", (bytes([(n + i) % 253 for i in range(bl)]), n))
                if bl < 40000:
                    c.execute("INSERT INTO s VALUES(?)", ("%05d" % n + "k" * bl,))
        for v in INTS + FLOATS + [None, "", b""]:
            c.execute("INSERT INTO t VALUES(?, ?)", (v, v))
        c.execute("COMMIT")
        troot, sroot, iroot = sqlfmt.root_of(c, "t"), sqlfmt.root_of(c, "s"), sqlfmt.root_of(c, "s_a")
        exp_t = ["row %d %s" % (r[0], sqlfmt.canon_rec(r[1:])) for r in c.execute("SELECT rowid, a, b FROM t ORDER BY rowid")]
        exp_i = ["row %s" % sqlfmt.canon_rec(r) for r in c.execute("SELECT a, rowid FROM s ORDER BY a, rowid")]
        c.close()
        dist[u] = {"table_rows": len(exp_t), "index_rows": len(exp_i)}
        cid = "op-t-%d" % u
        cases.append((cid, "db %s\nscan %d 0" % (path, troot), {"page_size": u}))
        oracle[cid] = ["open ok %d" % u] + exp_t + ["end ok"]
        cid = "op-i-%d" % u
        cases.append((cid, "db %s\niscan %d 0" % (path, iroot), {"page_size": u}))
        oracle[cid] = ["open ok %d" % u] + exp_i + ["end ok"]
    # page 1 is a leaf of sqlite_master with 100 bytes less room than any other page, but the same local-payload thresholds:
    # one CREATE TABLE text per file, its length swept across the thresholds X, M and the spill boundary
    dist["master_records"] = 0
    for u in sizes:
        x = u - 35
        targets = sorted(set([x + d for d in range(-140, 12, 3)] + [x + (u - 4) + d for d in range(-6, 7, 3)] + [40, u // 2]))
        for L in targets:
            if L < 30:
                continue
            path = os.path.join(wd, "m-%d-%d.db" % (u, L))
            c = sqlfmt.new_db(path, u)
            stem = "CREATE TABLE t(a /*"
            sql = stem + "x" * max(0, L - len(stem) - 3) + "*/)"
            c.execute(sql)
            rows = c.execute("SELECT type, name, tbl_name, rootpage, sql FROM sqlite_master").fetchall()
            c.close()
            cid = "op-m-%d-%d" % (u, L)
            cases.append((cid, "db %s\nmaster" % path, {"page_size": u}))
            oracle[cid] = ["open ok %d" % u] + ["obj %s %s %s %d %s" % (t.encode().hex(), n.lower().encode().hex(), tb.lower().encode().hex(), r, q.encode().hex()) for t, n, tb, r, q in rows] + ["end ok"]
            dist["master_records"] += 1
    return cases, oracle, dist


def check(run):
    rng = random.Random(run.seed)
    check_obligations(run)
    run.cov["rule"] = ("function-level: varints (all 1-byte, 2-byte prefixes, boundaries of every length, random), records from an "
                       "independent Python encoder (every integer width at its boundaries, floats, text/blob lengths, long headers, "
                       "random, plus a malformed stream), local-size formula for every payload length 0..4U (small U) and threshold "
                       "neighbourhoods (all legal U, table+index); operation-level: SQLite-written rows at every spill threshold read "
                       "back through Table.Scan/Index.Scan.  non-trivial = distinct inputs whose decoding succeeds with >= 1 byte consumed "
                       "or which cross a spill threshold; compared: implementation vs extracted Coq model vs independent oracle")
    vc, vo = varint_cases(run, rng)
    judge_cases(run, "c14-varint", vc, vo, nontrivial=lambda cid, cmd, meta, out: out and out[0].startswith("some"))
    rc, ro = record_cases(run, rng)
    judge_cases(run, "c14-record", rc, ro, nontrivial=lambda cid, cmd, meta, out: out and out[0].startswith("ok") and meta is None)
    cc, co = cellsize_cases(run, rng)
    judge_cases(run, "c14-cellsize", cc, co, nontrivial=lambda cid, cmd, meta, out: True)
    oc, oo, dist = op_cases(run, rng)
    judge_cases(run, "c14-op", oc, oo, nontrivial=lambda cid, cmd, meta, out: len(out) > 3)
    run.cov["traces_validated_against_impl"] = len(oc)
    run.cov["distribution"] = {"varint_cases": len(vc), "record_cases": len(rc), "cellsize_cases": len(cc),
                               "op_databases": dist, "sqlite_version": __import__("sqlite3").sqlite_version}
    run.sample({"varint": vc[300][1], "expect": vo[vc[300][0]]})
    run.sample({"record": rc[5][1], "expect": ro[rc[5][0]]})
    run.sample({"cellsize": cc[600][1], "expect": co[cc[600][0]]})
    run.sample({"op": oc[0][1], "rows": len(oo[oc[0][0]]) - 2})
    run.assumptions += ["amd64: Go int is 64 bits", "SQLite 3.40.1 (python3 sqlite3) as the writer of the operation-level files"]


def replay(run, path):
    import json
    r = json.load(open(path))
    cmd = r.get("command")
    if not cmd:
        print("replay has no command (broken obligation: %s)" % r.get("broken"))
        return
    res = core.run_pair("# replay\n%s\n" % cmd, "c14-replay")
    print("impl :", core.split_cases(res["impl"][1]).get("replay"))
    print("model:", core.split_cases(res["model"][1]).get("replay"))
    print("oracle:", r.get("oracle"))
