"""C20 - independent handles can be used from concurrent goroutines"""
import json, os, random, shutil, subprocess
from vlib import core, sqlfmt
from checks.common import check_obligations

HDIR = os.path.join(core.VERIF, "harness")
CONC = os.path.join(HDIR, "bin", "concrun_race")
WORDS = ["aap", "Aap", "AAP", "noot", "Noot", "mies", "wim", "zus", "jet", "teun", "vuur", "gijs", "lam", "kees", "bok", "weide"]


def build_race():
    rc, out = core.sh("go build -race -tags verif -o bin/concrun_race ./cmd/concrun", cwd=HDIR, env=core.GOENV, timeout=900)
    if rc != 0:
        raise core.BuildError("go-race-harness", out)


def corpus(wd, rng, tag, rows):
    path = os.path.join(wd, "%s.db" % tag)
    c = sqlfmt.new_db(path, 512)
    c.execute("CREATE TABLE big(id INTEGER PRIMARY KEY, a INTEGER, b TEXT, c, d)")
    c.execute("CREATE INDEX big_a ON big(a)")
    c.execute("CREATE INDEX big_b ON big(b COLLATE NOCASE)")
    c.execute("CREATE INDEX big_bR ON big(b COLLATE RTRIM, a DESC)")
    c.execute("CREATE TABLE wr(k TEXT COLLATE NoCase, n INTEGER, v, PRIMARY KEY(k, n)) WITHOUT ROWID")
    c.execute("CREATE TABLE words(w TEXT PRIMARY KEY, n)")
    c.execute("CREATE TABLE small(a, b)")
    # the same CREATE TABLE text in both files, with different indexes; several automatic indexes
    c.execute("CREATE TABLE uq(a, b, c, d, UNIQUE(a), UNIQUE(b), UNIQUE(c))")
    c.execute("CREATE INDEX uq_d ON uq(%s)" % ("d" if tag == "a" else "d, a"))
    # overflowing rows with a blob in a WITHOUT ROWID table, read through a secondary index
    c.execute("CREATE TABLE wb(k INTEGER, n INTEGER, body BLOB, PRIMARY KEY(k, n)) WITHOUT ROWID")
    c.execute("CREATE INDEX wb_n ON wb(n)")
    # wide tables: CREATE TABLE texts of several kB (tokenizer / parser buffers of another size class than the short ones)
    for wname in ("wide", "wide2"):
        c.execute("CREATE TABLE %s(%s, PRIMARY KEY(%s_c3, %s_c1))" % (wname, ", ".join("%s_c%d %s" % (wname, j, ["INTEGER", "TEXT COLLATE NOCASE", "REAL DEFAULT 1.5", "BLOB", "TEXT DEFAULT 'a  b'"][j % 5]) for j in range(110)), wname, wname))
        c.execute("INSERT INTO %s(%s_c1, %s_c3) VALUES('x', x'00')" % (wname, wname, wname))
    # definitions SQLite accepts and sqlittle's parser does not (a STRICT table, a generated column)
    c.execute("CREATE TABLE st(a INT, b TEXT) STRICT")
    c.execute("CREATE TABLE gen(a, b AS (a + 1))")
    c.execute("BEGIN")
    for i in range(60):
        c.execute("INSERT INTO uq VALUES(?,?,?,?)", (i, "b%d" % i, -i, i % 7))
        c.execute("INSERT INTO wb VALUES(?,?,?)", (i, i % 6, bytes([(i * 7 + j) % 251 for j in range(500 + 40 * (i % 5))])))
    for i in range(rows):
        c.execute("INSERT INTO big VALUES(?,?,?,?,?)", (i * 2 + 1, i % 13, rng.choice(WORDS) + ("%d" % (i % 5) if i % 3 else ""), [None, i * .5, b"x%d" % i, "t"][i % 4], "p" * (i % 17)))
    for i in range(rows // 2):
        c.execute("INSERT OR IGNORE INTO wr VALUES(?,?,?)", (rng.choice(WORDS) + str(i % 7), i % 3, "v" * (i % 29)))
    for i, w in enumerate(WORDS):
        c.execute("INSERT INTO words VALUES(?,?)", (w, i))
    for i in range(5):
        c.execute("INSERT INTO small VALUES(?,?)", (i, "s%d" % i))
    c.execute("COMMIT")
    c.close()
    return path


def native_ops(rng, n, rows):
    t = lambda s: sqlfmt.canon(s)
    ops = []
    # first use of every collation spelling happens at the start, in all goroutines at once
    first = [["iselecteq", "uq", "uq_d", "i3", "a,d"], ["iselecteq", "wb", "wb_n", "i2", "k,body"],
             ["iselecteq", "big", "big_b", t(rng.choice(WORDS).upper()), "id,b"],
             ["pkselect", "wr", t(rng.choice(WORDS) + "1") + ",i1", "*"],
             ["iselecteq", "big", "big_bR", t(rng.choice(WORDS) + "  "), "b,a"]]
    rng.shuffle(first)
    ops += first
    for _ in range(n):
        k = rng.randrange(15)
        if k == 12 and rng.random() < .5:
            # the parser and the schema code on long and on broken statements, next to everything else
            texts = ["CREATE TABLE foo", "SELECT a FROM", "CREATE INDEX x ON", "CREATE TABLE w(%s)" % ", ".join("c%d TEXT DEFAULT '%d  %d'" % (j, j, rng.randrange(9)) for j in range(150)),
                     "CREATE TABLE v(%s, PRIMARY KEY(k3 COLLATE nocase)) WITHOUT ROWID" % ", ".join("k%d INTEGER" % j for j in range(200)), "CREATE TABLE s(a, b)"]
            ops.append(["parse", rng.choice(texts).encode().hex()])
            ops.append(["def", rng.choice(["st", "gen", "small", "wide"])])
            ops.append(["columns", rng.choice(["st", "gen"])])
            ops.append([rng.choice(["columns", "select"]), rng.choice(["wide", "wide2"])] + (["*"] if ops[-1][0] == "parse" and False else []))
            if ops[-1][0] == "select":
                ops[-1].append("*")
            continue
        if k == 12:
            ops.append(["iselecteq", "uq", "uq_d", "i%d" % rng.randrange(8), "a,d"])
            continue
        if k == 13:
            ops.append(["iselecteq", "wb", "wb_n", "i%d" % rng.randrange(7), "k,n,body"])
            continue
        if k == 14:
            ops.append(["iselect", "wb", "wb_n", "body,k"])
            continue
        if k == 0:
            ops.append(["select", rng.choice(["big", "wr", "small", "words"]), "*"])
        elif k == 1:
            ops.append(["selectdone", "big", str(rng.randrange(0, 40)), "b,id"])
        elif k == 2:
            ops.append(["rowid", "big", str(rng.randrange(-2, rows * 2 + 3)), "*"])
        elif k == 3:
            ops.append(["iselect", "big", rng.choice(["big_a", "big_b", "big_bR"]), "a,b"])
        elif k == 4:
            ops.append(["iselecteq", "big", "big_a", "i%d" % rng.randrange(-1, 14), "id,a"])
        elif k == 5:
            ops.append(["iselecteq", "big", "big_b", t(rng.choice(WORDS).swapcase() + rng.choice(["", "1", "2"])), "b"])
        elif k == 6:
            ops.append(["pkselect", "words", t(rng.choice(WORDS)), "n,w"])
        elif k == 7:
            ops.append(["pkselect", "wr", t(rng.choice(WORDS).lower() + str(rng.randrange(7))), "k,n"])
        elif k == 8:
            ops.append(["columns", rng.choice(["big", "wr", "nosuch"])])
        elif k == 9:
            ops.append(["select", "nosuch", "*"])
        elif k == 10:
            ops.append([rng.choice(["reopen", "reopen2"])])     # reopen2: the old handle is closed twice (defer + explicit Close)
        else:
            ops.append(["select", "big", "nosuchcol"])
    return ops


def sql_ops(rng, n, rows):
    ops = []
    for _ in range(n):
        k = rng.randrange(9)
        tab, cs = rng.choice([("big", "*"), ("big", "b,id"), ("wr", "*"), ("small", "*"), ("words", "n,w")])
        if k == 8:
            # two result sets of one transaction open at the same time (one connection, two statements)
            ops.append(["txnest", "small", "*", rng.choice(["words", "small", "wr"]), "*", str(rng.choice([1, 2, 3]))])
        elif k <= 1:
            ops.append(["sqlq", tab, cs, str(rng.choice([-1, 0, 1, 3, 50])), rng.choice(["close", "cancel", "drain"])])
        elif k <= 3:
            ops.append(["sqlqc", tab, cs])
        elif k <= 6:
            ops.append(["psq", "big", "*", str(rng.choice([-1, 0, 1, 2, 10]))])
        else:
            ops.append(["sqlq", "nosuch", "*", "-1", "drain"])
    return ops


def scenario_text(files, pools, gors):
    out = []
    for n, p in files.items():
        out.append("file %s %s" % (n, p))
    for n, (f, mx) in pools.items():
        out.append("pool %s %s %d" % (n, f, mx))
    for gid, kind, target, ops in gors:
        out.append("goroutine %s %s %s" % (gid, kind, target))
        for o in ops:
            out.append("op %s %s" % (gid, " ".join(o)))
    return "\n".join(out) + "\n"


def run_scn(text, mode, seed, procs, timeout=600):
    env = dict(os.environ, GOMAXPROCS=str(procs), GORACE="halt_on_error=0 exitcode=66 history_size=3")
    try:
        p = subprocess.run([CONC], input=(text + "run %s %d\n" % (mode, seed)).encode(), stdout=subprocess.PIPE, stderr=subprocess.PIPE, env=env, timeout=timeout)
    except subprocess.TimeoutExpired as e:
        return -9, {}, "TIMEOUT (deadlock?)\n" + (e.stderr or b"").decode("utf-8", "replace")[-3000:]
    res = {}
    for l in p.stdout.decode("utf-8", "replace").split("\n"):
        f = l.split(" ", 3)
        if len(f) == 4 and f[0] == "res":
            res[(f[1], int(f[2]))] = f[3]
    return p.returncode, res, p.stderr.decode("utf-8", "replace")


def race_summary(err):
    """first race report: the two accesses' top frames"""
    i = err.find("WARNING: DATA RACE")
    if i < 0:
        i = err.find("fatal error:")
    return err[i:i + 1800] if i >= 0 else err[-800:]


def check(run):
    rng = random.Random(run.seed)
    ok = check_obligations(run)
    quick = run.tier == "quick"
    fp = os.path.join(core.COQ, "theories", "Gen", "footprint.json")
    uses = []
    if os.path.exists(fp):
        d = json.load(open(fp))
        for g in d["globals"]:
            for u in g["uses"] or []:
                uses.append("%s.%s %s in %s (%s)" % (g["pkg"], g["name"], u["kind"], u["func"], u["pos"]))
        run.cov["footprint"] = {"package_level_variables": len([g for g in d["globals"] if g["pkg"].startswith("github.com/alicebob/sqlittle")]),
                                "non_read_uses_outside_init": uses, "go_statements": [e["pos"] for e in d["extras"] or []]}
    build_race()
    wd = os.path.join(core.WORK, "c20")
    shutil.rmtree(wd, ignore_errors=True)
    os.makedirs(wd, exist_ok=True)
    rows = 300 if quick else 1500
    files = {"A": corpus(wd, rng, "a", rows), "B": corpus(wd, rng, "b", rows)}
    dist = {"scenarios": 0, "concurrent_runs": 0, "goroutines": 0, "operations": 0, "op_kinds": {}}
    nscn = 4 if quick else 24
    found_concrete = False
    for sn in range(nscn):
        kind = ["native-same-file", "native-two-files", "sql-pool", "mixed"][sn % 4]
        ng = 8 if quick else rng.choice([4, 8, 16, 32])
        nops = 14 if quick else 40
        pools, gors = {}, []
        if kind in ("sql-pool", "mixed"):
            pools["P"] = ("A", 3)
            pools["Q"] = ("B", 2)
        for gi in range(ng):
            gid = "g%d" % gi
            if kind == "native-same-file":
                gors.append((gid, "native", "A", native_ops(rng, nops, rows)))
            elif kind == "native-two-files":
                gors.append((gid, "native", "AB"[gi % 2], native_ops(rng, nops, rows)))
            elif kind == "sql-pool":
                gors.append((gid, "sql", "PQ"[gi % 3 == 0], sql_ops(rng, nops, rows)))
            else:
                if gi % 2:
                    gors.append((gid, "sql", "P", sql_ops(rng, nops, rows)))
                else:
                    gors.append((gid, "native", "AB"[gi % 4 == 0], native_ops(rng, nops, rows)))
        text = scenario_text(files, pools, gors)
        dist["scenarios"] += 1
        dist["goroutines"] += ng
        for _, _, _, ops in gors:
            for o in ops:
                dist["op_kinds"][o[0]] = dist["op_kinds"].get(o[0], 0) + 1
                dist["operations"] += 1
        src, want, serr = run_scn(text, "sequential", 1, 1)
        bad = {"%s/%d" % k: v for k, v in want.items() if v.startswith("NESTED-MISMATCH")}
        if bad:
            run.violation("overlapping result sets of one database/sql transaction do not return the native rows: %s" % list(bad.values())[0][:200],
                          {"kind": "nested-statements", "scenario": text, "results": bad})
            found_concrete = True
            continue
        if src != 0 or not want:
            run.violation("sequential run of scenario %d (%s) failed: rc=%s %s" % (sn, kind, src, race_summary(serr)[:300]),
                          {"kind": "sequential", "scenario": text, "stderr": serr[-3000:], "rc": src})
            continue
        if any(v.startswith("PANIC") for v in want.values()):
            run.violation("an operation panics when run alone", {"kind": "panic", "scenario": text, "results": {"%s/%d" % k: v for k, v in want.items() if v.startswith("PANIC")}})
        reps = 3 if quick else 10
        for r in range(reps):
            procs = [2, 4, 16, 1, 8][r % 5]
            seed = run.seed * 1000 + sn * 50 + r
            rc, got, err = run_scn(text, "concurrent", seed, procs)
            run.count(len(got) or 1)
            dist["concurrent_runs"] += 1
            diffs = [(k, want[k], got.get(k)) for k in want if got.get(k) != want[k]]
            if "DATA RACE" in err or rc == 66:
                found_concrete = True
                run.violation("data race with %d goroutines on independent handles (%s, GOMAXPROCS=%d): %s" % (ng, kind, procs, " | ".join(l.strip() for l in race_summary(err).split("\n")[1:12] if l.strip())[:700]),
                              {"kind": "race", "scenario": text, "mode": "concurrent", "seed": seed, "procs": procs, "report": race_summary(err)})
                break
            if rc != 0 or len(got) != len(want):
                found_concrete = True
                run.violation("concurrent run (%s, %d goroutines, GOMAXPROCS=%d) died or hung: rc=%s %s" % (kind, ng, procs, rc, race_summary(err)[:400]),
                              {"kind": "crash", "scenario": text, "mode": "concurrent", "seed": seed, "procs": procs, "stderr": err[-3000:]})
                break
            if diffs:
                found_concrete = True
                k, w, g = diffs[0]
                gid, idx = k
                op = [o for (i, _, _, o) in gors if i == gid][0][idx]
                run.violation("goroutine %s, operation %d (%s) returns %s when other goroutines run, %s when run alone (%s, %d goroutines, %d differing results)" % (gid, idx, " ".join(op), g, w, kind, ng, len(diffs)),
                              {"kind": "result-differs", "scenario": text, "mode": "concurrent", "seed": seed, "procs": procs, "differences": [("%s/%d" % k, w, g) for k, w, g in diffs[:10]]})
                break
        run.nontrivial("scenario/%d/%s" % (sn, kind))
        run.sample({"scenario": kind, "goroutines": ng, "ops_per_goroutine": nops, "first_ops": [" ".join(o) for o in gors[0][3][:4]]})
    if not ok and not found_concrete and uses:
        # the frame condition no longer checks and no run showed a race: say which use broke it
        run.violations = [v for v in run.violations if not (v[1].get("broken", "").startswith("theorems of Properties/C20"))]
        run.violation("C20_shared_state_is_read_only no longer holds: " + "; ".join(uses)[:600],
                      {"no_failing_input_found": True, "broken": "theorem C20_shared_state_is_read_only (Gen/Footprint.v regenerated from /repo)", "uses": uses})
    elif not ok and found_concrete:
        # a concrete race / difference was found: it is the replay; drop the input-less duplicate
        run.violations = [v for v in run.violations if not v[1].get("no_failing_input_found")]
    run.cov["traces_validated_against_impl"] = dist["concurrent_runs"]
    run.cov["distribution"] = dist
    run.cov["rule"] = ("scenarios of N goroutines x M operations, every goroutine on its own handle (sqlittle.Open) on the same file or on two files, and goroutines sharing database/sql pools "
                       "(3 and 2 connections) incl. one prepared statement per pool, Query+Close at once, close / cancel after k rows; native operations: Select, SelectDone, SelectRowid, "
                       "IndexedSelect, IndexedSelectEq, PKSelect (keys through NOCASE / RTRIM indexes spelled in upper, lower and mixed case, first used by all goroutines at once), Columns, "
                       "unknown tables and columns, close-and-reopen. Each scenario runs once sequentially (one goroutine after the other) and several times concurrently under the race "
                       "detector with GOMAXPROCS in {1,2,4,8,16} and random yields: every operation's digest (row count, hash of the rows, error kind) must equal the sequential one, "
                       "and the race detector must stay silent. Static side: Gen/Footprint.v regenerated from the sources (every non-read use of a package-level variable outside init; "
                       "every go statement). non-trivial = scenarios")
    run.assumptions += ["Go's race detector reports only races that occur in the executed schedule's happens-before graph; the frame theorem over the regenerated footprint covers the rest",
                        "exported package-level variables (db.CollateFuncs, db.DefaultCollate) are not written by the caller while handles are in use",
                        "the footprint analysis is syntactic over go/types: writes through reflection or unsafe are not seen (the module uses neither outside the mmap pager)"]


def replay(run, path):
    r = json.load(open(path))
    if "scenario" not in r:
        print(json.dumps(r)[:2000]); return
    build_race()
    rc, got, err = run_scn(r["scenario"], r.get("mode", "concurrent"), r.get("seed", 1), r.get("procs", 4))
    print("rc", rc); print(race_summary(err)[:3000])
    _, want, _ = run_scn(r["scenario"], "sequential", 1, 1)
    for k in sorted(want):
        if got.get(k) != want[k]:
            print("differs", k, "alone:", want[k], "concurrent:", got.get(k))
