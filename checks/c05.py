"""C05 - corrupt or hostile files never crash or hang the reader"""
import os, random, shutil, sqlite3, subprocess, time
from vlib import core, sqlfmt, sqlcmp, dbgen, mutate
from checks.common import check_obligations
from checks import ops, hl

SLOW_MS = 8000        # an operation on a file of a few dozen pages normally takes well under 50 ms


def small_bases(run, wd):
    """small SQLite-written files (512-byte pages keep them to a few dozen pages)"""
    rng = random.Random(run.seed * 31 + 5)
    dbs = [dbgen.deep(wd, rng, 512, 220, tag="b-deep", churn=True), dbgen.norowid(wd, rng, 512, 120, tag="b-wr"),
           dbgen.overflow(wd, rng, 512, tag="b-ovf"), dbgen.misc(wd, rng, 512, 60, tag="b-misc"), dbgen.ipk(wd, rng, 1024, 90, tag="b-ipk")]
    return dbs


def hostile_schemas(wd):
    """valid files whose sqlite_master text was rewritten (writable_schema) into definitions SQLite itself would never store"""
    out = []
    defs = [
        ("dupcol-wr", "CREATE TABLE t(a, a, PRIMARY KEY(a)) WITHOUT ROWID", True),
        ("pk-unknown", "CREATE TABLE t(a, b, PRIMARY KEY(z))", False),
        ("pk-unknown-wr", "CREATE TABLE t(a, b, PRIMARY KEY(z)) WITHOUT ROWID", True),
        ("nocols-wr", "CREATE TABLE t(a, b) WITHOUT ROWID", True),
        ("unique-unknown", "CREATE TABLE t(a, b, UNIQUE(q, a))", False),
        ("morepk-wr", "CREATE TABLE t(a, b, c, d, PRIMARY KEY(d, c, b, a)) WITHOUT ROWID", True),
        ("collate-unknown", "CREATE TABLE t(a COLLATE klingon PRIMARY KEY, b) WITHOUT ROWID", True),
        # ... with text in the key column, so that the collation would really be called (a database written by an application that
        # registered its own collation is legal SQLite output), also only in the index
        ("text-collate-unknown", "CREATE TABLE t(a TEXT COLLATE klingon PRIMARY KEY, b) WITHOUT ROWID", True),
        ("text-collate-unknown-rowid", "CREATE TABLE t(a TEXT COLLATE klingon, b COLLATE vulcan, PRIMARY KEY(a))", False),
        ("empty", "", False), ("garbage", "CREATE TABLE t(((((", False), ("index-as-table", "CREATE INDEX t ON t(a)", False),
        ("dup-rowid", "CREATE TABLE t(a INTEGER PRIMARY KEY, a INTEGER PRIMARY KEY)", False),
        # texts that describe more (or fewer) columns than the stored records have, with the rowid alias at every position
        ("more-cols-ipk-last", "CREATE TABLE t(a, b, c, id INTEGER PRIMARY KEY)", False),
        ("more-cols-ipk-mid", "CREATE TABLE t(a, b, id INTEGER PRIMARY KEY, c DEFAULT 7)", False),
        ("ipk-first", "CREATE TABLE t(id INTEGER PRIMARY KEY, a, b, c)", False),
        ("more-cols", "CREATE TABLE t(a, b, c DEFAULT 5, d NOT NULL)", False),
        ("fewer-cols", "CREATE TABLE t(b)", False),
        ("more-cols-wr", "CREATE TABLE t(a, b, c, d DEFAULT 'x', PRIMARY KEY(a)) WITHOUT ROWID", True),
        ("more-pk-wr", "CREATE TABLE t(a, b, c, id INTEGER PRIMARY KEY) WITHOUT ROWID", True),
    ]
    for name, sql, wr in defs:
        path = os.path.join(wd, "hs-%s.db" % name)
        c = sqlfmt.new_db(path, 512)
        c.execute("CREATE TABLE t(a, b, PRIMARY KEY(a))" + (" WITHOUT ROWID" if wr else ""))
        c.execute("CREATE INDEX t_b ON t(b)")
        c.executemany("INSERT INTO t VALUES(?, ?)", [(("k%03d" % i) if name.startswith("text-") else i, "v%d" % (i % 7)) for i in range(60)])
        c.execute("PRAGMA writable_schema=ON")
        c.execute("UPDATE sqlite_master SET sql=? WHERE name='t'", (sql,))
        if name == "index-as-table":
            c.execute("UPDATE sqlite_master SET rootpage=(SELECT rootpage FROM sqlite_master WHERE name='t_b') WHERE name='t'")
        c.close()
        out.append((path, "schema text: " + (sql or "(empty)")))
    return out


def op_lines(db, dumps=None, bi=0, quick=False):
    """every public operation, by name, on the base's objects: (opid, command)"""
    out = [("master", "master"), ("names", "names")]
    # the high level operations once more in the form the extracted model can run (schema given as a dump of the
    # intact file's db.Schema); they are compared only when the damaged file still yields that schema
    for name, t in db.tables.items():
        dump = (dumps or {}).get((bi, name))
        if dump is None:
            continue
        cols = hl.names([hl.unq(c) for c in t["cols"]])
        out.append(("%s/hschema" % name, "schema %s" % hl.hx(name)))
        out += [("%s/hselect" % name, "hselect %s %s 0 %s" % (dump, hl.hx(name), cols)), ("%s/hselect3" % name, "hselect %s %s 3 %s" % (dump, hl.hx(name), cols))]
        if t["kind"] != "norowid":
            out += [("%s/hselectrowid" % name, "hselectrowid %s %s 5 %s" % (dump, hl.hx(name), cols)), ("%s/hpk" % name, "hpkselect %s %s i5 %s" % (dump, hl.hx(name), cols))]
        else:
            out += [("%s/hpk" % name, "hpkselect %s %s i5,t61 %s" % (dump, hl.hx(name), cols)), ("%s/hpk1" % name, "hpkselect %s %s i5 %s" % (dump, hl.hx(name), cols))]
        for iname, ix in list(db.indexes.items())[:(2 if quick else None)]:
            if ix["table"] != name:
                continue
            out += [("%s/hiselect" % iname, "hiselect %s %s %s %s" % (dump, hl.hx(name), hl.hx(iname), cols)),
                    ("%s/hiselecteq" % iname, "hiselecteq %s %s %s i5 %s" % (dump, hl.hx(name), hl.hx(iname), cols)),
                    ("%s/hiselecteqt" % iname, "hiselecteq %s %s %s t6d %s" % (dump, hl.hx(name), hl.hx(iname), cols))]
    for name, t in db.tables.items():
        cols = ",".join(hl.unq(c) for c in t["cols"] if " " not in c)
        out += [("%s/columns" % name, "columns %s" % name), ("%s/select" % name, "select %s 0 %s" % (name, cols)), ("%s/select2" % name, "select %s 2 %s" % (name, cols))]
        root = t["root"]
        out.append(("%s/scan" % name, ("iscan %d 0" if t["kind"] == "norowid" else "scan %d 0") % root))
        if t["kind"] != "norowid":
            for rid in (1, 5, -1, 2 ** 63 - 1):
                out.append(("%s/rowid%d" % (name, rid), "rowid %d %d" % (root, rid)))
            out.append(("%s/selectrowid" % name, "selectrowid %s 5 rowid,%s" % (name, cols)))
            out.append(("%s/pk" % name, "pkselect %s i5 %s" % (name, cols)))
        else:
            out.append(("%s/pk" % name, "pkselect %s i5,t61 %s" % (name, cols)))
            out.append(("%s/pk0" % name, "pkselect %s - %s" % (name, cols)))
    for name, ix in db.indexes.items():
        t = db.tables[ix["table"]]
        cols = ",".join(hl.unq(c) for c in t["cols"] if " " not in c)
        root = ix["root"]
        out += [("%s/iscan" % name, "iscan %d 0" % root), ("%s/imin" % name, "imin %d 0 t6d/b/a" % root), ("%s/ieq" % name, "ieq %d 0 i5/b/a" % root),
                ("%s/iminlast" % name, "imin %d 0 bffff/b/a" % root), ("%s/iminfirst" % name, "imin %d 0 n/b/a" % root), ("%s/ieqlast" % name, "ieq %d 0 bffff/b/a" % root),
                ("%s/irange" % name, "irange %d 0 i1/b/a t7a/b/a" % root),
                ("%s/iselect" % name, "iselect %s %s %s" % (ix["table"], name, cols)), ("%s/iselecteq" % name, "iselecteq %s %s i5 %s" % (ix["table"], name, cols)),
                ("%s/iselecteq0" % name, "iselecteq %s %s - %s" % (ix["table"], name, cols))]
    return out

LOW = ("master", "scan ", "iscan ", "imin ", "ieq ", "irange ", "rowid ")
HIGH = ("hselect ", "hselectrowid ", "hiselect ", "hiselecteq ", "hpkselect ")


def hash_even(cid):
    import zlib
    return zlib.crc32(cid.encode()) % 3 == 0


def run_batch(tag, cases, want_model):
    """cases: [(cid, path, [(opid, cmd)])] -> (impl dict, model dict, impl rc, stderr, last id seen)"""
    lines = []
    for cid, path, opl in cases:
        lines.append(("%s|open" % cid, "db %s" % path))
        for opid, cmd in opl:
            lines.append(("%s|%s" % (cid, opid), cmd))
            lines.append(("%s|%s|t" % (cid, opid), "clock"))
    res, impl, _ = ops.run_cmds(tag, lines, timeout=600, sides=("impl",))
    # the model runs the low level operations of a subset of the files (want_model(cid))
    mlines = [(c, l) for c, l in lines if want_model(c.split("|")[0]) and (l.startswith("db ") or l.startswith(LOW) or l.startswith(HIGH))]
    res2, _, model = ops.run_cmds(tag + "-m", mlines, timeout=900, sides=("model",))
    res["model"] = (res2["model"][0], "", res2["model"][2])
    if res["impl"][0] == 0:
        res["impl"] = (0, "", res["impl"][2])        # the text has been split into `impl`; only a died run's raw output is needed
    return res, impl, model, lines


def check(run):
    rng = random.Random(run.seed)
    check_obligations(run)
    quick = run.tier == "quick"
    wd = os.path.join(core.WORK, "c05")
    shutil.rmtree(wd, ignore_errors=True)
    os.makedirs(wd, exist_ok=True)
    bases = small_bases(run, wd)
    dumps = hl.schemas(bases, "c05-schema")
    known = core.load_known("C05")
    dist = {"mutants": 0, "kinds": {}, "outcomes": {"open err": 0, "all ops ok": 0, "some op err": 0}, "ops": 0, "hostile_schemas": 0, "corpus": 0, "journals": 0}
    cases = []          # (cid, path, oplist, description)
    # 0. earlier failures first
    cdir = os.path.join(core.VERIF, "corpus", "C05")
    generic = [("master", "master"), ("names", "names"), ("t/columns", "columns t"), ("t/select", "select t 0 a"), ("t/select_b", "select t 0 a,b"), ("t/pk", "pkselect t i5 a"),
               ("t/pk0", "pkselect t - a"), ("t/pk_text", "pkselect t t6b303035 a,b"), ("t/selectrowid", "selectrowid t 5 a"), ("t/iselect", "iselect t t_b a"), ("t/iselecteq", "iselecteq t t_b tv1 a"), ("scan2", "scan 2 0"), ("iscan2", "iscan 2 0"),
               ("scan3", "scan 3 0"), ("iscan3", "iscan 3 0"), ("rowid2", "rowid 2 1"),
               ("t/select_id", "select t 0 id"), ("t/select_more", "select t 0 c,d,id,a"), ("t/select_cid", "select t 2 c,id"), ("t/selectrowid_id", "selectrowid t 5 id,c"),
               ("t/pk_id", "pkselect t i5 id,c"), ("t/iselect_id", "iselect t t_b id,c"), ("t/iselecteq_id", "iselecteq t t_b tv1 c,id"), ("t/select_rowid", "select t 0 rowid,id,c")]
    if os.path.isdir(cdir):
        for f in sorted(os.listdir(cdir)):
            if f.endswith(".db"):
                cases.append(("corpus/" + f, os.path.join(cdir, f), generic, "corpus file " + f))
                dist["corpus"] += 1
    for f in sorted(os.listdir(os.path.join(core.REPO, "db", "testdata"))) if os.path.isdir(os.path.join(core.REPO, "db", "testdata")) else []:
        if f.endswith((".sqlite", ".db")) and ("fuzz" in f or "crash" in f or "zero" in f or "trunc" in f):
            cases.append(("testdata/" + f, os.path.join(core.REPO, "db", "testdata", f), generic, "repository test file " + f))
    # 1. hostile schema texts
    for path, what in hostile_schemas(wd):
        cases.append(("hs/" + os.path.basename(path), path, generic, what))
        dist["hostile_schemas"] += 1
    # 2. mutants
    nmut = 260 if quick else 8000
    for bi, db in enumerate(bases):
        opl = op_lines(db, dumps, bi, quick)
        for m in range(nmut // len(bases)):
            data, what = mutate.mutate(rng, db.data, db.page_size)
            path = os.path.join(wd, "m-%d-%d.db" % (bi, m))
            open(path, "wb").write(data)
            cases.append(("m/%d/%d" % (bi, m), path, opl, "%s: %s" % (db.desc, what)))
            dist["mutants"] += 1
            k = what.split(" ")[-2] + " " + what.split(" ")[-1] if what.startswith("page") else what.split(" ")[0]
            dist["kinds"][k] = dist["kinds"].get(k, 0) + 1
    # 2b. directed pointer corruptions of every interior page
    dist["directed"] = 0
    for bi, db in enumerate(bases):
        opl = op_lines(db, dumps, bi, quick)
        for m, (data, what) in enumerate(mutate.directed_pointers(db.data, db.page_size)):
            if quick and "all pointers" not in what and "right-most" not in what:
                continue
            path = os.path.join(wd, "m-d%d-%d.db" % (bi, m))
            open(path, "wb").write(data)
            cases.append(("d/%d/%d" % (bi, m), path, opl, "%s: %s" % (db.desc, what)))
            dist["directed"] += 1
    # 2c. directed corruptions of the declared payload length of spilling cells
    dist["directed_lengths"] = 0
    for bi, db in enumerate(bases):
        opl = op_lines(db, dumps, bi, quick)
        dl = mutate.directed_lengths(db.data, db.page_size)
        if quick:
            dl = dl[:12]
        for m, (data, what) in enumerate(dl):
            path = os.path.join(wd, "m-l%d-%d.db" % (bi, m))
            open(path, "wb").write(data)
            cases.append(("l/%d/%d" % (bi, m), path, opl, "%s: %s" % (db.desc, what)))
            dist["directed_lengths"] += 1
    # 2d. two cells sharing one overflow chain (each length as SQLite wrote it)
    dist["shared_chains"] = 0
    for bi, db in enumerate(bases):
        opl = op_lines(db, dumps, bi, quick)
        sc = mutate.shared_chains(db.data, db.page_size)
        if quick:
            sc = sc[:10]
        for m, (data, what) in enumerate(sc):
            path = os.path.join(wd, "m-s%d-%d.db" % (bi, m))
            open(path, "wb").write(data)
            cases.append(("s/%d/%d" % (bi, m), path, opl, "%s: %s" % (db.desc, what)))
            dist["shared_chains"] += 1
    # run in batches so that a crash or a hang costs one batch; low level operations also through the model
    desc = {c[0]: c for c in cases}
    B = 40
    want = (lambda cid: True) if not quick else (lambda cid: not cid.startswith(("m/", "d/", "l/", "s/")) or hash_even(cid))
    from concurrent.futures import ThreadPoolExecutor
    starts = list(range(0, len(cases), B))
    # the batches run six at a time; each one's outputs are judged and dropped as it comes (the thorough tier's outputs together are
    # tens of gigabytes)
    ex = ThreadPoolExecutor(max_workers=6)
    results = ex.map(lambda s: run_batch("c05-%d" % (s // B), [(c, p, o) for c, p, o, _ in cases[s:s + B]], want), starts)
    for s, (res, impl, model, lines) in zip(starts, results):
        batch = cases[s:s + B]
        irc, iout, ierr = res["impl"]
        if irc != 0:
            last = [l for l in iout.split("\n") if l.startswith("# ")]
            cid = last[-1][2:].split("|")[0] if last else batch[0][0]
            opid = last[-1][2:] if last else "?"
            c = desc.get(cid, batch[0])
            keep = os.path.join(core.VERIF, "replays", "C05-" + os.path.basename(c[1]))
            os.makedirs(os.path.dirname(keep), exist_ok=True)
            shutil.copyfile(c[1], keep)
            run.violation("the reader %s (%s) at %s" % ("did not return within the time limit" if irc == -9 else "died (rc=%s)" % irc, c[3], opid),
                          {"kind": "crash-or-hang", "db": keep, "case": cid, "at": opid, "what": c[3], "stderr": ierr[-1500:]})
            continue
        for cid, path, opl, what in batch:
            op = impl.get("%s|open" % cid) or ["?"]
            anyerr = False
            for opid, cmd in opl:
                run.count(); dist["ops"] += 1
                key = "%s|%s" % (cid, opid)
                out = impl.get(key)
                t = impl.get(key + "|t") or ["clock 0"]
                ms = int(t[0].split(" ")[1]) if t[0].startswith("clock ") else 0
                bad = None
                if out is None:
                    continue
                if any("PANIC" in l for l in out):
                    bad = "panicked"
                elif ms > SLOW_MS:
                    bad = "took %d ms" % ms
                if bad:
                    kf = next((k for k in known if k["matcher"].get("what_prefix") and what.startswith(k["matcher"]["what_prefix"])), None)
                    if kf:
                        run.known_hits.append(kf["what_fails"])
                        continue
                    keep = os.path.join(core.VERIF, "replays", "C05-" + os.path.basename(path))
                    os.makedirs(os.path.dirname(keep), exist_ok=True)
                    shutil.copyfile(path, keep)
                    run.violation("%s %s on a corrupted file (%s)" % (cmd[:60], bad, what),
                                  {"kind": "panic-or-slow", "db": keep, "command": cmd, "what": what, "impl": out[-3:], "ms": ms})
                anyerr = anyerr or any(l.startswith(("end err", "err ")) for l in out)
                # low level operations: the model must neither panic nor diverge, and must agree on rows and ok/err
                if cmd.startswith(LOW) and op[0].startswith("open ok") and key in model:
                    m = model.get(key)
                    def norm(ls):
                        if ls is None:
                            return None
                        out_ = []
                        for l in ls:
                            if l.startswith("end err"):
                                l = "end err"
                            elif l.startswith("err "):
                                l = "err"
                            out_.append(l)
                        return out_
                    if m is not None and any("PANIC" in l or "DIVERGE" in l for l in m) and not bad:
                        run.violation("the model panics / runs out of fuel where the implementation does not: %s (%s)" % (cmd[:60], what),
                                      {"no_failing_input_found": True, "broken": "model totality vs implementation", "db": path, "command": cmd, "model": m[-3:], "impl": out[-3:]})
                    elif m is not None and norm(m) != norm(out) and not bad:
                        keep = os.path.join(core.VERIF, "replays", "C05-" + os.path.basename(path))
                        shutil.copyfile(path, keep)
                        run.violation("model and implementation differ on a corrupted file: %s (%s)" % (cmd[:60], what),
                                      {"no_failing_input_found": True, "broken": "correspondence on corrupt input", "db": keep, "command": cmd, "model": m[-3:], "impl": out[-3:]})
            # high level operations through the model, where the damaged file still gives the intact file's schema
            for opid, cmd in opl:
                if not cmd.startswith(HIGH):
                    continue
                key = "%s|%s" % (cid, opid)
                out, m = impl.get(key), model.get(key)
                tname = bytes.fromhex(cmd.split(" ")[2]).decode()
                sch = impl.get("%s|%s/hschema" % (cid, tname)) or ["?"]
                if out is None or m is None or not op[0].startswith("open ok") or sch[0] != "schema %s plain=true" % cmd.split(" ")[1]:
                    continue
                if any("PANIC" in l for l in out):
                    continue        # reported above
                dist["high_level_model_cases"] = dist.get("high_level_model_cases", 0) + 1
                norm = lambda ls: [("end err" if l.startswith("end err") else l) for l in ls if not l.startswith("locks ")]
                if any("PANIC" in l or "DIVERGE" in l for l in m):
                    run.violation("the model of the high level API panics / runs out of fuel where the implementation does not: %s (%s)" % (cmd.split(" ")[0], what),
                                  {"no_failing_input_found": True, "broken": "model totality vs implementation (high level)", "db": path, "command": cmd, "model": m[-3:], "impl": out[-3:]})
                elif norm(m) != norm(out):
                    keep = os.path.join(core.VERIF, "replays", "C05-" + os.path.basename(path))
                    os.makedirs(os.path.dirname(keep), exist_ok=True)
                    shutil.copyfile(path, keep)
                    run.violation("model and implementation of %s differ on a corrupted file (%s)" % (cmd.split(" ")[0], what),
                                  {"no_failing_input_found": True, "broken": "correspondence on corrupt input (high level)", "db": keep, "command": cmd, "model": m[-4:], "impl": out[-4:]})
            run.nontrivial(cid)
            dist["outcomes"]["open err" if not op[0].startswith("open ok") else "some op err" if anyerr else "all ops ok"] += 1
    # 3. journals: any bytes next to a valid database
    jl = []
    good = bytes.fromhex("d9d505f920a163d7") + b"\x00" * 12 + (512).to_bytes(4, "big") + b"\x00" * 4 + b"\x00" * 484
    for n in range(200 if quick else 5000):
        j = bytearray(good[:rng.choice([0, 1, 7, 8, 27, 28, 29, 100, 511, 512, 513])] if rng.random() < .4 else good)
        for _ in range(rng.randint(0, 3)):
            if j:
                j[rng.randrange(min(len(j), 28))] = rng.randrange(256)
        if rng.random() < .2:
            j = bytearray(rng.randrange(256) for _ in range(rng.randint(0, 40)))
        elif n % 3 == 0 and len(j) >= 24:
            # the sector size field at its boundaries (tiny, off by one around 512 and 65536, powers of two, huge)
            j[20:24] = rng.choice([0, 1, 2, 4, 8, 16, 27, 28, 29, 64, 511, 512, 513, 1024, 65535, 65536, 65537, 2 ** 31 - 1, 2 ** 31, 2 ** 32 - 1]).to_bytes(4, "big")
        jl.append(("j/%d" % n, "journal " + (bytes(j).hex() or "-")))
        dist["journals"] += 1
    res, impl, model = ops.run_cmds("c05-journal", jl, timeout=300)
    for cid, cmd in jl:
        run.count()
        a, b = impl.get(cid), model.get(cid)
        if a is None or any("PANIC" in l for l in a):
            run.violation("validJournal panicked: %s" % cmd[:80], {"kind": "panic", "command": cmd, "impl": a})
        elif a != b:
            run.violation("validJournal: model and implementation differ: %s" % cmd[:80], {"no_failing_input_found": True, "broken": "correspondence validJournal", "command": cmd, "impl": a, "model": b})
    # 4. known findings are replayed explicitly
    for k in known:
        if k["id"] == "dag-exponential-traversal":
            path = os.path.join(wd, "dag.db")
            open(path, "wb").write(mutate.dag(512, k["replay"]["depth"], k["replay"]["fan"]))
            t0 = time.time()
            try:
                p = subprocess.run(["bash", "-c", "exec %s" % core.IMPLRUN], input=("db %s\nscan 2 3\nclock\nscan 2 0\nclock\n" % path).encode(), stdout=subprocess.PIPE, stderr=subprocess.PIPE, timeout=k["replay"]["timeout_s"])
                took = time.time() - t0
                lines = p.stdout.decode().split("\n")
                nrows = sum(1 for l in lines if l.startswith("row "))
                if nrows > k["replay"]["fan"] ** k["replay"]["depth"] // 2:
                    run.known_hits.append("%s (replayed: %d-page file, %d rows delivered in %.1f s)" % (k["what_fails"], k["replay"]["depth"] + 3, nrows, took))
            except subprocess.TimeoutExpired:
                run.known_hits.append("%s (replayed: still running after %d s)" % (k["what_fails"], k["replay"]["timeout_s"]))
    run.known_hits = sorted(set(run.known_hits))
    run.cov["traces_validated_against_impl"] = dist["ops"]
    run.cov["rule"] = ("structure-aware corruptions of 5 small SQLite-written files (child / right-most / overflow pointers to 0, self, parent, page 1, last+1, 2^31; all pointers of a page "
                       "to one target; cell pointers; cell counts; payload lengths, rowids, record header sizes and serial types incl. 9-byte negative varints; page type bytes; header bytes; "
                       "truncation at and inside page boundaries; blind byte flips; damage inside sqlite_master's page), sqlite_master texts rewritten into definitions SQLite would not "
                       "store, the repository's fuzz regression files, earlier failures from corpus/: every public operation (schema inspection, scans, searches, lookups, high and low level) "
                       "is run with per-operation panic recovery and a time limit; low level operations also through the extracted Coq model (rows and ok/err must agree; the model must "
                       "not panic or run out of fuel). Journals of arbitrary bytes through validJournal. non-trivial = distinct input files")
    run.cov["distribution"] = dist
    for c in cases[len(cases) // 2:len(cases) // 2 + 3]:
        run.sample({"file": os.path.basename(c[1]), "what": c[3], "operations": len(c[2])})
    run.assumptions += ["a per-operation wall-clock limit of %d ms stands in for 'hangs' (normal operations on these files take < 50 ms)" % SLOW_MS, "amd64, 64-bit int"]
    for f in os.listdir(wd):
        if f.startswith("m-"):
            os.remove(os.path.join(wd, f))


def replay(run, path):
    import json
    r = json.load(open(path))
    if "db" not in r:
        print("nothing to replay:", r.get("broken")); return
    cmds = [("open", "db " + r["db"])] + ([("x", r["command"])] if "command" in r else [(o, c) for o, c in [("master", "master"), ("scan2", "scan 2 0"), ("select", "select t 0 a")]])
    res, impl, model = ops.run_cmds("c05-replay", cmds)
    print("impl rc", res["impl"][0], res["impl"][2][-300:]); print("impl :", {k: v[-2:] for k, v in impl.items()}); print("model:", {k: v[-2:] for k, v in model.items()})
