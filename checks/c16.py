"""C16 - the SQL parser is total, deterministic and local in what it reports"""
import os, random, sqlite3
from vlib import core, sqlgen
from checks.common import check_obligations
from checks import ops


def split_top(s):
    """split 'a,b{c,d},e[f,g]' at top level commas"""
    out, d, cur = [], 0, ""
    for ch in s:
        if ch in "{[(":
            d += 1
        elif ch in "}])":
            d -= 1
        if ch == "," and d == 0:
            out.append(cur); cur = ""
        else:
            cur += ch
    if cur:
        out.append(cur)
    return out


def field_of(dump, name):
    """the value text of field `name` of a top level struct dump Name{a=..;b=..}"""
    if "{" not in dump:
        return None
    body = dump[dump.index("{") + 1:dump.rindex("}")]
    d, cur, parts = 0, "", []
    for ch in body:
        if ch in "{[(":
            d += 1
        elif ch in "}])":
            d -= 1
        if ch == ";" and d == 0:
            parts.append(cur); cur = ""
        else:
            cur += ch
    if cur:
        parts.append(cur)
    for p in parts:
        if p.startswith(name + "="):
            return p[len(name) + 1:]
    return None


def elements(dump, fld):
    v = field_of(dump, fld)
    if not v or not v.startswith("["):
        return []
    return split_top(v[1:-1])


def sqlite_ok(conn, sql):
    try:
        conn.execute("SAVEPOINT s"); conn.execute(sql); conn.execute("ROLLBACK TO s"); conn.execute("RELEASE s")
        return True
    except sqlite3.Error:
        try:
            conn.execute("ROLLBACK TO s"); conn.execute("RELEASE s")
        except sqlite3.Error:
            pass
        return False


def check(run):
    rng = random.Random(run.seed)
    check_obligations(run)
    quick = run.tier == "quick"
    dist = {"generated": 0, "malformed": 0, "accepted": 0, "rejected": 0, "tokenizer_errors": 0, "locality_pairs": 0, "determinism_strings": 0}
    stmts = []
    for n in range(350 if quick else 6000):
        sql, cols = sqlgen.create_table(rng, "t")
        stmts.append(sql)
        if n % 2 == 0:
            stmts.append(sqlgen.create_index(rng, "t", cols, "i"))
        if n % 3 == 0:
            stmts.append(sqlgen.select(rng, "t", cols))
    dist["generated"] = len(stmts)
    mal = [sqlgen.malformed(rng) for _ in range(500 if quick else 20000)]
    dist["malformed"] = len(mal)
    allst = stmts + mal
    # every input as bytes: the statements and the malformed stream (UTF-8, lone surrogates kept as the invalid
    # sequences they encode to), then the lexical stream built for the tokenizer's decision points
    lex = [sqlgen.lexical(rng) for _ in range(2500 if quick else 60000)]
    dist["lexical"] = len(lex)
    inputs = [s.encode("utf-8", "surrogatepass") for s in allst] + lex
    # 1. tokens and parse through the implementation; Model/Tokenizer.v and the translated parser on the same bytes
    lines, mlines = [], []
    for n, b in enumerate(inputs):
        h = b.hex() or "-"
        lines.append(("t%d" % n, "tokens %s" % h))
        lines.append(("p%d" % n, "parse %s" % h))
        mlines.append(("t%d" % n, "mtokens %s" % h))
        mlines.append(("p%d" % n, "mparse %s" % h))
    res, impl, _ = ops.run_cmds("c16-impl", lines, sides=("impl",), timeout=900)
    if res["impl"][0] != 0:
        run.violation("the parser harness died: %s" % res["impl"][2][-300:], {"kind": "crash", "stderr": res["impl"][2][-1500:]})
    res2, _, model = ops.run_cmds("c16-model", mlines, sides=("model",), timeout=1800)
    if res2["model"][0] != 0:
        run.violation("modelrun died: %s" % res2["model"][2][-300:], {"no_failing_input_found": True, "broken": "model execution", "stderr": res2["model"][2][-1500:]})
    idx = {}
    tok_kinds = {}
    broken_tok = []
    for n, b in enumerate(inputs):
        shown = b.decode("utf-8", "replace")
        t = (impl.get("t%d" % n) or ["?"])[0]
        p = (impl.get("p%d" % n) or ["?"])[0]
        mt = (model.get("t%d" % n) or ["?"])[0]
        m = (model.get("p%d" % n) or ["?"])[0]
        run.count()
        if "PANIC" in t or "PANIC" in p or t == "?" or p == "?":
            run.violation("the parser panics on %r" % shown[:120], {"kind": "panic", "sql": shown, "hex": b.hex(), "tokens": t[:200], "parse": p[:200]})
            continue
        if t.startswith("tokens err"):
            dist["tokenizer_errors"] += 1
            if not p.startswith("reject"):
                run.violation("tokenizer error but Parse accepts: %r" % shown[:120], {"kind": "impl-inconsistent", "sql": shown, "hex": b.hex(), "parse": p[:200]})
        else:
            idx[n] = p
            dist["accepted" if p.startswith("accept") else "rejected"] += 1
            for tk in t[len("tokens ok"):].split(";"):
                ty = tk.strip().split(":")[0]
                if ty:
                    tok_kinds[ty] = tok_kinds.get(ty, 0) + 1
        if mt.startswith(("tokens PANIC", "tokens DIVERGE")):
            run.violation("the tokenizer model %s on %r" % ("slices out of range" if "PANIC" in mt else "runs out of its iteration budget", shown[:120]),
                          {"kind": "model-finding", "sql": shown, "hex": b.hex(), "model": mt, "impl": t[:300]})
        elif mt != t:
            broken_tok.append((n, t, mt))
        if m.startswith(("stale", "PANIC", "DIVERGE")):
            kind = {"stale": "reads a value left in a reused stack slot by an unrelated reduction", "PANIC": "indexes a table out of range", "DIVERGE": "does not finish within the step budget"}[m.split(" ")[0]]
            run.violation("the translated parser %s on %r: %s" % (kind, shown[:120], m), {"kind": "model-finding", "sql": shown, "hex": b.hex(), "model": m, "impl": p[:300]})
        elif m != p and "#float" not in m and mt == t:
            run.violation("translated parser and implementation differ on %r" % shown[:120],
                          {"no_failing_input_found": True, "broken": "correspondence SqlParse (translated tables + driver) vs sql.Parse", "sql": shown, "hex": b.hex(), "impl": p[:600], "model": m[:600]})
        run.nontrivial(b)
    dist["token_kinds_seen"] = len(tok_kinds)
    # 2. token-level locality on the implementation: the tokens of a string do not depend on what stands before or
    #    after it (a word and a space).  Run on a sample, and on every input where model and implementation differ:
    #    there it is the search for a concrete failing input of the property.
    cand = [n for n, _, _ in broken_tok][:200] + rng.sample(range(len(inputs)), min(len(inputs), 400 if quick else 6000))
    ml = []
    for n in cand:
        b = inputs[n]
        ml.append(("a%d" % n, "tokens %s" % (b"zq " + b).hex()))
        ml.append(("b%d" % n, "tokens %s" % (b + b" zq").hex()))
        ml.append(("c%d" % n, "tokens %s" % (b + b" " + b).hex()))
    _, limpl0, _ = ops.run_cmds("c16-toklocal", ml, sides=("impl",), timeout=900)
    zq = "57393:7a71:0:0000000000000000"
    nonlocal_found = set()
    for n in cand:
        t = (impl.get("t%d" % n) or ["?"])[0]
        if not t.startswith("tokens ok"):
            continue
        base = t[len("tokens ok"):].strip()
        exp = {"a": ";".join(x for x in (zq, base) if x), "b": ";".join(x for x in (base, zq) if x), "c": ";".join(x for x in (base, base) if x)}
        for tag in "abc":
            o = (limpl0.get("%s%d" % (tag, n)) or ["?"])[0]
            dist["locality_pairs"] += 1
            if o != "tokens ok " + exp[tag] and o != ("tokens ok" if not exp[tag] else None) and n not in nonlocal_found:
                # a string that ends inside a quoted token legitimately swallows what follows: only `ok` inputs are used,
                # and those end at a token boundary
                nonlocal_found.add(n)
                shown = inputs[n].decode("utf-8", "replace")
                run.violation("the tokens reported for %r change when %s" % (shown[:100], {"a": "a word and a space stand before it", "b": "a space and a word follow it", "c": "it is repeated after a space"}[tag]),
                              {"kind": "not-local", "hex": inputs[n].hex(), "sql": shown, "alone": t[:400], "in_context": o[:400], "context": tag})
    for n, t, mt in broken_tok[:20]:
        if n in nonlocal_found:
            continue
        shown = inputs[n].decode("utf-8", "replace")
        run.violation("tokenizer model and implementation differ on %r" % shown[:120],
                      {"no_failing_input_found": True, "broken": "correspondence Model/Tokenizer.v (C16_tokenize_total, C16_tokens_contiguous, C16_tokens_suffix_local) vs sql.tokenize",
                       "sql": shown, "hex": inputs[n].hex(), "impl": t[:600], "model": mt[:600]})
    # 3. determinism: the same string gives the same answer whatever was parsed before it
    sample = rng.sample(range(len(allst)), min(len(allst), 300 if quick else 3000))
    order1 = [allst[i] for i in sample]
    order2 = order1[:]
    rng.shuffle(order2)
    seq = order1 + order2 + order1[::-1]
    # ... and a few minimal statements after each of them: whatever a statement leaves behind in a parser that
    # survives the call shows most easily in a statement that exercises the empty alternatives of the grammar
    probes = ["CREATE TABLE p (a)", "CREATE TABLE p (a, b)", "CREATE TABLE p (a PRIMARY KEY, b UNIQUE)", "CREATE INDEX pi ON p (a)", "CREATE UNIQUE INDEX pi ON p (a, b)", "SELECT a FROM p"]
    seq2 = []
    for n, s in enumerate(order1):
        seq2.append(s)
        seq2.append(probes[n % len(probes)])
        if n % 7 == 0:
            seq2 += probes
    seq = seq + seq2
    dl = [("d%d" % n, "parse %s" % (s.encode("utf-8", "surrogatepass").hex() or "-")) for n, s in enumerate(seq)]
    _, dimpl, _ = ops.run_cmds("c16-det", dl, sides=("impl",), timeout=900)
    seen = {}
    for n, s in enumerate(seq):
        o = (dimpl.get("d%d" % n) or ["?"])[0]
        if s in seen and seen[s] != o:
            run.violation("Parse(%r) returns different results at different times" % s[:100],
                          {"kind": "nondeterministic", "sql": s, "first": seen[s][:300], "later": o[:300], "parsed_just_before": seq[n - 1][:200] if n else None})
            break
        seen.setdefault(s, o)
    dist["determinism_strings"] = len(seen)
    # 3a. the tokenizer on EVERY string of up to three ASCII punctuation characters (and up to four of the comparison /
    # arrow characters), six times each, spread over one process: the same tokens every time (operator recognition is a
    # table lookup; the longest-match choice must not depend on anything but the text)
    import itertools
    punct = "<>=!|&/%-+*~.:^#@?;,()"
    sweep = ["".join(t) for k in (1, 2, 3) for t in itertools.product(punct, repeat=k)] + ["".join(t) for t in itertools.product("<>=!|-", repeat=4)]
    sl = []
    for rep in range(6):
        order = sweep[:] if rep % 2 == 0 else sweep[::-1]
        sl += [("w%d/%d" % (rep, sweep.index(x) if False else n), "tokens %s" % x.encode().hex()) for n, x in (enumerate(order) if rep % 2 == 0 else ((len(sweep) - 1 - m, y) for m, y in enumerate(order)))]
    _, simpl, _ = ops.run_cmds("c16-opsweep", sl, sides=("impl",), timeout=900)
    dist["operator_sweep_strings"] = len(sweep)
    for n, x in enumerate(sweep):
        outs = set((simpl.get("w%d/%d" % (rep, n)) or ["?"])[0] for rep in range(6))
        run.count()
        if len(outs) > 1:
            run.violation("the tokens of %r differ between calls in one process" % x, {"kind": "nondeterministic", "sql": x, "hex": x.encode().hex(), "answers": sorted(outs)[:3]})
            break
    # 3b. ... nor on a NEAR-IDENTICAL statement parsed before it: Y differs from X only inside a quoted literal / quoted name
    # (a blank doubled or inserted, the case of a letter flipped) or only in the layout between tokens.  Y parsed right after
    # X (one process) must give what Y gives in a process that never saw X.
    import re as _re
    def variants(x):
        out = []
        quoted = [m for m in _re.finditer(r"'[^']*'|\"[^\"]*\"|`[^`]*`|\[[^\]]*\]", x) if len(m.group(0)) > 2]
        for m in quoted[:3]:
            q = m.group(0)
            inner = q[1:-1]
            alts = [inner.replace(" ", "  ") if " " in inner else inner[:len(inner) // 2] + " " + inner[len(inner) // 2:],
                    inner.swapcase() if inner.swapcase() != inner else inner + "x",
                    inner.replace("  ", " ") if "  " in inner else inner + " "]
            for a in alts:
                if a != inner:
                    out.append(x[:m.start()] + q[0] + a + q[-1] + x[m.end():])
        out.append(x.replace(" ", "\n\t "))
        return out
    with_quotes = [x for x in stmts if _re.search(r"'[^']+'|\"[^\"]+\"|`[^`]+`|\[[^\]]+\]", x)]
    fixed = ["CREATE TABLE q (a DEFAULT ',  ', \"unit  price\" TEXT DEFAULT 'a b')", "CREATE INDEX qi ON q (\"unit  price\", [a  b])", "CREATE TABLE q2 (`x y` DEFAULT 'Ab', b DEFAULT \"c  d\")"]
    pairs3 = []
    for x in fixed + rng.sample(with_quotes, min(len(with_quotes), 120 if quick else 1500)):
        for y in variants(x):
            pairs3.append((x, y))
    la, lb = [], []
    for n, (x, y) in enumerate(pairs3):
        la.append(("x%d" % n, "parse %s" % x.encode("utf-8", "surrogatepass").hex()))
        la.append(("y%d" % n, "parse %s" % y.encode("utf-8", "surrogatepass").hex()))
        lb.append(("y%d" % n, "parse %s" % y.encode("utf-8", "surrogatepass").hex()))
    _, ia, _ = ops.run_cmds("c16-near-a", la, sides=("impl",), timeout=900)
    _, ib, _ = ops.run_cmds("c16-near-b", lb[::-1], sides=("impl",), timeout=900)
    dist["near_identical_pairs"] = len(pairs3)
    for n, (x, y) in enumerate(pairs3):
        run.count()
        after, alone = (ia.get("y%d" % n) or ["?"])[0], (ib.get("y%d" % n) or ["?"])[0]
        if after != alone:
            run.violation("Parse(%r) gives a different result when %r was parsed before it" % (y[:90], x[:90]),
                          {"kind": "history-dependent", "sql": y, "parsed_before": x, "after": after[:300], "in_a_process_that_never_saw_it": alone[:300]})
            break
    # 3c. ... nor on what the rest of the library did with the statement in between: Parse(text), then the schema code
    # interprets that very text (db.Schema on a database whose sqlite_master holds it), then Parse(text) again
    import os as _os
    from vlib import core as _core, sqlfmt as _sqlfmt
    wd3 = _os.path.join(_core.WORK, "c16"); _os.makedirs(wd3, exist_ok=True)
    p3 = _os.path.join(wd3, "defs.db")
    if _os.path.exists(p3):
        _os.remove(p3)
    conn3 = _sqlfmt.new_db(p3, 1024)
    defs3 = ["CREATE TABLE acct (id INTEGER, x TEXT COLLATE rtrim, PRIMARY KEY (id COLLATE nocase)) WITHOUT ROWID", "CREATE TABLE a2 (a TEXT COLLATE nocase, b, UNIQUE (a, b), PRIMARY KEY (b, a COLLATE binary))",
             "CREATE TABLE a3 (k INTEGER PRIMARY KEY DESC, v DEFAULT 'x  y' UNIQUE)"]
    for x in stmts[:(200 if quick else 3000)]:
        if x.startswith("CREATE TABLE"):
            defs3.append(x.replace("CREATE TABLE t ", "CREATE TABLE t%d " % len(defs3), 1).replace("CREATE TABLE t(", "CREATE TABLE t%d(" % len(defs3), 1))
    names3 = []
    for x in defs3:
        try:
            conn3.execute(x)
        except sqlite3.Error:
            continue
    for nm, sq in conn3.execute("SELECT name, sql FROM sqlite_master WHERE type='table' AND sql IS NOT NULL").fetchall():
        names3.append((nm, sq))
        if len(names3) % 3 == 0:
            try:
                conn3.execute("CREATE INDEX %s_ix ON %s(%s)" % (nm, nm, [r[1] for r in conn3.execute("PRAGMA table_info(%s)" % nm)][0]))
            except sqlite3.Error:
                pass
    conn3.close()
    l3 = [("open", "db %s" % p3)]
    for n, (nm, sq) in enumerate(names3):
        h = sq.encode("utf-8", "surrogatepass").hex()
        l3 += [("a%d" % n, "parse %s" % h), ("s%d" % n, "schema %s" % nm.encode().hex()), ("b%d" % n, "parse %s" % h)]
    l3 += [("c%d" % n, "parse %s" % sq.encode("utf-8", "surrogatepass").hex()) for n, (nm, sq) in enumerate(names3)]
    _, i3, _ = ops.run_cmds("c16-parse-schema-parse", l3, sides=("impl",), timeout=900)
    dist["parse_schema_parse"] = len(names3)
    for n, (nm, sq) in enumerate(names3):
        run.count()
        a, b, c = [(i3.get("%s%d" % (t_, n)) or ["?"])[0] for t_ in "abc"]
        if a != b or a != c:
            run.violation("Parse(%r) reports something else after db.Schema(%s) has interpreted that statement" % (sq[:100], nm),
                          {"kind": "history-dependent", "sql": sq, "before": a[:400], "after": (b if a != b else c)[:400]})
            break
    # 4. locality: what is reported about one column / indexed column does not depend on its neighbours
    conn = sqlite3.connect(":memory:")
    conn.execute("CREATE TABLE other(x PRIMARY KEY)")
    pairs = []
    for n in range(150 if quick else 3000):
        sql, cols = sqlgen.create_table(rng, "loc")
        body = sql[sql.index("(") + 1:sql.rindex(")")] if not sql.endswith("WITHOUT ROWID") else sql[sql.index("(") + 1:sql[:-len(" WITHOUT ROWID")].rindex(")")]
        parts = split_top(body)
        coldefs = parts[:len(cols)]
        if len(coldefs) < 2 or not sqlite_ok(conn, sql):
            continue
        for k, cd in enumerate(coldefs):
            alone = "CREATE TABLE loc (%s)" % cd.strip()
            if "PRIMARY KEY" not in cd and sql.endswith("WITHOUT ROWID"):
                pass
            swapped = "CREATE TABLE loc (%s)" % ", ".join([c.strip() for c in coldefs[k:] + coldefs[:k]])
            pairs.append((sql, alone, swapped, k))
    ll = []
    for n, (full, alone, swapped, k) in enumerate(pairs):
        for tag, s in (("f", full), ("a", alone), ("s", swapped)):
            ll.append(("%s%d" % (tag, n), "parse %s" % s.encode().hex()))
    _, limpl, _ = ops.run_cmds("c16-loc", ll, sides=("impl",), timeout=900)
    for n, (full, alone, swapped, k) in enumerate(pairs):
        f, a, s = [(limpl.get("%s%d" % (t, n)) or ["?"])[0] for t in "fas"]
        if not (f.startswith("accept") and a.startswith("accept") and s.startswith("accept")):
            continue
        run.count(); dist["locality_pairs"] += 1
        cf, ca, cs = elements(f[7:], "Columns"), elements(a[7:], "Columns"), elements(s[7:], "Columns")
        if len(cf) <= k or not ca or not cs:
            continue
        if cf[k] != ca[0] or cf[k] != cs[0]:
            run.violation("what the parser reports about a column depends on its neighbours: %r" % full[:140],
                          {"kind": "not-local", "sql": full, "column_index": k, "in_context": cf[k], "alone": ca[0], "first_of_rotation": cs[0], "alone_sql": alone})
    run.cov["traces_validated_against_impl"] = len(idx)
    run.cov["rule"] = ("grammar-generated CREATE TABLE / CREATE INDEX / SELECT texts and a malformed stream (arbitrary and multi-byte characters, truncations, injected quotes / brackets / huge "
                       "numbers / NUL, shuffled tokens, fixed near-misses): plus a lexical byte stream (numeric literals at every strconv boundary, all quote kinds with doubled/unterminated quotes, "
                       "letters / digits / spaces of many scripts, invalid UTF-8, operator runs): (1) tokenize and Parse never panic; (2) Model/Tokenizer.v (the hand model of sql/tokenizer.go over this "
                       "toolchain's unicode tables) must print the same token list, token by token, and the parser TRANSLATED from sql/parser.go on this run (tables, actions, "
                       "driver model, with stale-slot detection) run on the model's tokens must give the same accept/reject and the same statement, and never read a "
                       "stale slot, index out of range or exhaust its step budget; (2b) token-level locality on the implementation: a word before, a word after, the string twice; (3) every string is parsed three times in different orders between other strings: same result; "
                       "(4) for SQLite-valid CREATE TABLE statements each column is parsed in context, alone, and first in a rotation: its report must be identical. "
                       "non-trivial = distinct strings that reach the parser")
    run.cov["distribution"] = dist
    for s in (stmts[0], stmts[1], mal[3]):
        run.sample({"sql": s[:200]})
    run.sample({"lexical_hex": lex[0].hex()})
    run.assumptions += ["unicode.IsLetter/IsDigit/IsSpace are the interval tables dumped from the toolchain on this build (Gen/Lexer.v); strconv.ParseInt/ParseUint/ParseFloat are modelled on the alphabet readNumericLiteral passes (Model/Tokenizer.v) and compared with the library on every generated literal"]


def replay(run, path):
    import json
    r = json.load(open(path))
    if "sql" not in r:
        print("nothing to replay:", r.get("broken")); return
    h = r["sql"].encode("utf-8", "surrogatepass").hex()
    res, impl, _ = ops.run_cmds("c16-replay", [("t", "tokens " + h), ("p", "parse " + h)], sides=("impl",))
    print("impl:", impl.get("t"), impl.get("p"))
    t = (impl.get("t") or ["?"])[0]
    if t.startswith("tokens ok"):
        _, _, m = ops.run_cmds("c16-replay-m", [("m", "yparse " + t[len("tokens ok"):].strip())], sides=("model",))
        print("model:", m.get("m"))
