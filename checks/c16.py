"""C16 - the SQL parser is total, deterministic and local in what it reports"""
import os, random, sqlite3
from vlib import core, sqlgen
from checks.common import check_obligations
from checks import ops


def split_top(s):
    """split 'a,b{c,d},e[f,g]' at top level commas"""
    out, d, cur = [], 0, ""
    for ch in s:
        if ch in "{[(":
            d += 1
        elif ch in "}])":
            d -= 1
        if ch == "," and d == 0:
            out.append(cur); cur = ""
        else:
            cur += ch
    if cur:
        out.append(cur)
    return out


def field_of(dump, name):
    """the value text of field `name` of a top level struct dump Name{a=..;b=..}"""
    if "{" not in dump:
        return None
    body = dump[dump.index("{") + 1:dump.rindex("}")]
    d, cur, parts = 0, "", []
    for ch in body:
        if ch in "{[(":
            d += 1
        elif ch in "}])":
            d -= 1
        if ch == ";" and d == 0:
            parts.append(cur); cur = ""
        else:
            cur += ch
    if cur:
        parts.append(cur)
    for p in parts:
        if p.startswith(name + "="):
            return p[len(name) + 1:]
    return None


def elements(dump, fld):
    v = field_of(dump, fld)
    if not v or not v.startswith("["):
        return []
    return split_top(v[1:-1])


def sqlite_ok(conn, sql):
    try:
        conn.execute("SAVEPOINT s"); conn.execute(sql); conn.execute("ROLLBACK TO s"); conn.execute("RELEASE s")
        return True
    except sqlite3.Error:
        try:
            conn.execute("ROLLBACK TO s"); conn.execute("RELEASE s")
        except sqlite3.Error:
            pass
        return False


def check(run):
    rng = random.Random(run.seed)
    check_obligations(run)
    quick = run.tier == "quick"
    dist = {"generated": 0, "malformed": 0, "accepted": 0, "rejected": 0, "tokenizer_errors": 0, "locality_pairs": 0, "determinism_strings": 0}
    stmts = []
    for n in range(350 if quick else 6000):
        sql, cols = sqlgen.create_table(rng, "t")
        stmts.append(sql)
        if n % 2 == 0:
            stmts.append(sqlgen.create_index(rng, "t", cols, "i"))
        if n % 3 == 0:
            stmts.append(sqlgen.select(rng, "t", cols))
    dist["generated"] = len(stmts)
    mal = [sqlgen.malformed(rng) for _ in range(500 if quick else 20000)]
    dist["malformed"] = len(mal)
    allst = stmts + mal
    # 1. tokens and parse through the implementation
    lines = []
    for n, s in enumerate(allst):
        h = s.encode("utf-8", "surrogatepass").hex() or "-"
        lines.append(("t%d" % n, "tokens %s" % h))
        lines.append(("p%d" % n, "parse %s" % h))
    res, impl, _ = ops.run_cmds("c16-impl", lines, sides=("impl",), timeout=900)
    if res["impl"][0] != 0:
        run.violation("the parser harness died: %s" % res["impl"][2][-300:], {"kind": "crash", "stderr": res["impl"][2][-1500:]})
    # 2. the translated parser on the implementation's token lists
    mlines, idx = [], {}
    for n, s in enumerate(allst):
        t = (impl.get("t%d" % n) or ["?"])[0]
        p = (impl.get("p%d" % n) or ["?"])[0]
        run.count()
        if "PANIC" in t or "PANIC" in p or t == "?" or p == "?":
            run.violation("the parser panics on %r" % s[:120], {"kind": "panic", "sql": s, "tokens": t[:200], "parse": p[:200]})
            continue
        if t.startswith("tokens err"):
            dist["tokenizer_errors"] += 1
            if not p.startswith("reject"):
                run.violation("tokenizer error but Parse accepts: %r" % s[:120], {"kind": "impl-inconsistent", "sql": s, "parse": p[:200]})
            continue
        toks = t[len("tokens ok"):].strip()
        mlines.append(("m%d" % n, "yparse %s" % toks))
        idx[n] = p
        dist["accepted" if p.startswith("accept") else "rejected"] += 1
    res2, _, model = ops.run_cmds("c16-model", mlines, sides=("model",), timeout=900)
    if res2["model"][0] != 0:
        run.violation("modelrun died: %s" % res2["model"][2][-300:], {"no_failing_input_found": True, "broken": "model execution", "stderr": res2["model"][2][-1500:]})
    for n, p in idx.items():
        m = (model.get("m%d" % n) or ["?"])[0]
        if m.startswith(("stale", "PANIC", "DIVERGE")):
            kind = {"stale": "reads a value left in a reused stack slot by an unrelated reduction", "PANIC": "indexes a table out of range", "DIVERGE": "does not finish within the step budget"}[m.split(" ")[0]]
            run.violation("the translated parser %s on %r: %s" % (kind, allst[n][:120], m), {"kind": "model-finding", "sql": allst[n], "model": m, "impl": p[:300]})
        elif m != p and "#float" not in m:
            run.violation("translated parser and implementation differ on %r" % allst[n][:120],
                          {"no_failing_input_found": True, "broken": "correspondence SqlParse (translated tables + driver) vs sql.Parse", "sql": allst[n], "impl": p[:600], "model": m[:600]})
        run.nontrivial(allst[n])
    # 3. determinism: the same string gives the same answer whatever was parsed before it
    sample = rng.sample(range(len(allst)), min(len(allst), 300 if quick else 3000))
    order1 = [allst[i] for i in sample]
    order2 = order1[:]
    rng.shuffle(order2)
    seq = order1 + order2 + order1[::-1]
    dl = [("d%d" % n, "parse %s" % (s.encode("utf-8", "surrogatepass").hex() or "-")) for n, s in enumerate(seq)]
    _, dimpl, _ = ops.run_cmds("c16-det", dl, sides=("impl",), timeout=900)
    seen = {}
    for n, s in enumerate(seq):
        o = (dimpl.get("d%d" % n) or ["?"])[0]
        if s in seen and seen[s] != o:
            run.violation("Parse(%r) returns different results at different times" % s[:100],
                          {"kind": "nondeterministic", "sql": s, "first": seen[s][:300], "later": o[:300], "parsed_just_before": seq[n - 1][:200] if n else None})
            break
        seen.setdefault(s, o)
    dist["determinism_strings"] = len(seen)
    # 4. locality: what is reported about one column / indexed column does not depend on its neighbours
    conn = sqlite3.connect(":memory:")
    conn.execute("CREATE TABLE other(x PRIMARY KEY)")
    pairs = []
    for n in range(150 if quick else 3000):
        sql, cols = sqlgen.create_table(rng, "loc")
        body = sql[sql.index("(") + 1:sql.rindex(")")] if not sql.endswith("WITHOUT ROWID") else sql[sql.index("(") + 1:sql[:-len(" WITHOUT ROWID")].rindex(")")]
        parts = split_top(body)
        coldefs = parts[:len(cols)]
        if len(coldefs) < 2 or not sqlite_ok(conn, sql):
            continue
        for k, cd in enumerate(coldefs):
            alone = "CREATE TABLE loc (%s)" % cd.strip()
            if "PRIMARY KEY" not in cd and sql.endswith("WITHOUT ROWID"):
                pass
            swapped = "CREATE TABLE loc (%s)" % ", ".join([c.strip() for c in coldefs[k:] + coldefs[:k]])
            pairs.append((sql, alone, swapped, k))
    ll = []
    for n, (full, alone, swapped, k) in enumerate(pairs):
        for tag, s in (("f", full), ("a", alone), ("s", swapped)):
            ll.append(("%s%d" % (tag, n), "parse %s" % s.encode().hex()))
    _, limpl, _ = ops.run_cmds("c16-loc", ll, sides=("impl",), timeout=900)
    for n, (full, alone, swapped, k) in enumerate(pairs):
        f, a, s = [(limpl.get("%s%d" % (t, n)) or ["?"])[0] for t in "fas"]
        if not (f.startswith("accept") and a.startswith("accept") and s.startswith("accept")):
            continue
        run.count(); dist["locality_pairs"] += 1
        cf, ca, cs = elements(f[7:], "Columns"), elements(a[7:], "Columns"), elements(s[7:], "Columns")
        if len(cf) <= k or not ca or not cs:
            continue
        if cf[k] != ca[0] or cf[k] != cs[0]:
            run.violation("what the parser reports about a column depends on its neighbours: %r" % full[:140],
                          {"kind": "not-local", "sql": full, "column_index": k, "in_context": cf[k], "alone": ca[0], "first_of_rotation": cs[0], "alone_sql": alone})
    run.cov["traces_validated_against_impl"] = len(idx)
    run.cov["rule"] = ("grammar-generated CREATE TABLE / CREATE INDEX / SELECT texts and a malformed stream (arbitrary and multi-byte characters, truncations, injected quotes / brackets / huge "
                       "numbers / NUL, shuffled tokens, fixed near-misses): (1) tokenize and Parse never panic; (2) the parser TRANSLATED from sql/parser.go on this run (tables, actions, "
                       "driver model, with stale-slot detection) is run on the implementation's token lists and must give the same accept/reject and the same statement, and never read a "
                       "stale slot, index out of range or exhaust its step budget; (3) every string is parsed three times in different orders between other strings: same result; "
                       "(4) for SQLite-valid CREATE TABLE statements each column is parsed in context, alone, and first in a rotation: its report must be identical. "
                       "non-trivial = distinct strings that reach the parser")
    run.cov["distribution"] = dist
    for s in (stmts[0], stmts[1], mal[3]):
        run.sample({"sql": s[:200]})
    run.assumptions += ["unicode.IsLetter/IsDigit/IsSpace and strconv are the tokenizer's (the token lists given to the translated parser are the implementation's)"]


def replay(run, path):
    import json
    r = json.load(open(path))
    if "sql" not in r:
        print("nothing to replay:", r.get("broken")); return
    h = r["sql"].encode("utf-8", "surrogatepass").hex()
    res, impl, _ = ops.run_cmds("c16-replay", [("t", "tokens " + h), ("p", "parse " + h)], sides=("impl",))
    print("impl:", impl.get("t"), impl.get("p"))
    t = (impl.get("t") or ["?"])[0]
    if t.startswith("tokens ok"):
        _, _, m = ops.run_cmds("c16-replay-m", [("m", "yparse " + t[len("tokens ok"):].strip())], sides=("model",))
        print("model:", m.get("m"))
