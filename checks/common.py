"""helpers shared by the per-property check modules"""
import os, random
from vlib import core


def judge_cases(run, tag, cases, oracle=None, nontrivial=None, domain=None, timeout=900):
    """cases: list of (case_id, command_lines:str, meta).  Runs impl and model.
    oracle: dict case_id -> expected output lines (optional, independent).
    Returns (impl_by_case, model_by_case)."""
    text = "".join("# %s\n%s\n" % (cid, cmd) for cid, cmd, _ in cases)
    res = core.run_pair(text, tag, timeout=timeout)
    irc, iout, ierr = res["impl"]
    mrc, mout, merr = res["model"]
    impl, model = core.split_cases(iout), core.split_cases(mout)
    if irc != 0 or len(impl) != len(cases):
        run.violation("implrun died (rc=%s) after %d of %d cases: %s" % (irc, len(impl), len(cases), ierr[-300:]),
                      {"kind": "harness-crash", "stderr": ierr, "tag": tag,
                       "last_case": cases[min(len(impl), len(cases) - 1)][1][:2000] if cases else None})
    if mrc != 0 or len(model) != len(cases):
        run.violation("modelrun died (rc=%s) after %d of %d cases: %s" % (mrc, len(model), len(cases), merr[-300:]),
                      {"no_failing_input_found": True, "broken": "model execution", "stderr": merr, "tag": tag})
    for cid, cmd, meta in cases:
        run.count()
        i, m = impl.get(cid), model.get(cid)
        if i is None or m is None:
            continue
        exp = oracle.get(cid) if oracle else None
        if nontrivial and nontrivial(cid, cmd, meta, i):
            run.nontrivial(cid if len(cmd) > 200 else cmd)
        if exp is not None and i != exp:
            run.violation("%s: implementation differs from the oracle on case %s" % (tag, cid),
                          {"kind": "impl-vs-oracle", "case": cid, "command": cmd[:4000], "meta": meta,
                           "impl": i[:50], "oracle": exp[:50], "model": m[:50]})
        elif i != m:
            if exp is not None:
                # implementation agrees with the oracle: the model is what is off
                run.violation("%s: model differs from implementation (implementation agrees with the oracle) on case %s" % (tag, cid),
                              {"no_failing_input_found": True, "broken": "correspondence model/implementation",
                               "case": cid, "command": cmd[:4000], "impl": i[:50], "model": m[:50]})
            else:
                run.violation("%s: model and implementation differ on case %s" % (tag, cid),
                              {"kind": "impl-vs-model", "case": cid, "command": cmd[:4000], "meta": meta,
                               "impl": i[:50], "model": m[:50]})
    return impl, model


def check_obligations(run, prop=None):
    """proof obligations of the property file; a broken one becomes a violation
    (without a failing input unless the caller finds one)."""
    names, closed, axioms, log, ok = run.obligations(prop)
    if not ok:
        run.violation("Properties/%s.v no longer compiles" % (prop or run.prop),
                      {"no_failing_input_found": True, "broken": "theorems of Properties/%s.v" % (prop or run.prop),
                       "log": log[-3000:]})
        return False
    if axioms:
        run.violation("theorems depend on axioms: %s" % axioms,
                      {"no_failing_input_found": True, "broken": "Print Assumptions", "axioms": axioms})
        return False
    return True
