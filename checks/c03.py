"""C03 - index and primary-key equality search returns exactly the matching rows"""
import random
from vlib import core, sqlfmt, dbgen
from checks.common import check_obligations
from checks import ops, hl


def variants(rng, v):
    """neighbours of a stored value under SQLite's comparison rules"""
    out = [v]
    if v is None:
        return out + [0, ""]
    if isinstance(v, int):
        out += [v + 1, v - 1] if abs(v) < 2 ** 62 else []
        if abs(v) <= 2 ** 53:
            out.append(float(v))
        out += [str(v), None]
    elif isinstance(v, float):
        if v == int(v) and abs(v) < 2 ** 62:
            out += [int(v), int(v) + 1]
        out += [v * 1.0000001 if v else 1e-300, None]
    elif isinstance(v, str):
        out += [v.swapcase(), v + " ", v + "  ", v.rstrip(" "), v + "\t", v[:-1] if v else "a", v + "a", v.encode(), None]
    else:
        out += [bytes(v) + b"\x00", bytes(v)[:-1] if v else b"\x00", None]
    res = []
    for x in out:
        if not any(type(x) is type(y) and x == y for y in res):
            res.append(x)
    return res


def key_text(key):
    return ",".join(sqlfmt.canon(v) for v in key) if key else "-"


def check(run):
    rng = random.Random(run.seed)
    check_obligations(run)
    quick = run.tier == "quick"
    dbs = dbgen.corpus(run, "c03", which=("deep", "wr", "ipk", "mix", "misc", "ovf"), deep_rows=1500 if quick else None)
    dumps = hl.schemas(dbs, "c03-schema")
    lines, meta = [], {}
    nkeys = {"stored": 0, "variant": 0, "prefix": 0, "empty": 0, "pk": 0}
    for i, db in enumerate(dbs):
        lines.append(("open%d" % i, "db %s" % db.path))
        conn = db.conn()
        targets = []   # (kind, table, index or None, key columns [(expr, coll, desc)], where)
        for iname, ix in db.indexes.items():
            targets.append(("index", ix["table"], iname, ix["cols"], ix.get("where")))
        for tname, t in db.tables.items():
            if t["kind"] == "norowid":
                targets.append(("pk", tname, None, t["pk"], None))
            elif t.get("pkindex"):
                targets.append(("pk", tname, t["pkindex"], db.indexes[t["pkindex"]]["cols"], None))
        for kind, tname, iname, kcols, where in targets:
            t = db.tables[tname]
            dump = dumps.get((i, tname))
            if dump is None:
                continue
            cols = [hl.unq(c) for c in t["cols"]]
            order = hl.index_order(db, iname) if iname else hl.table_order(db, tname)
            w0 = ("(" + where + ") AND ") if where else ""
            entries = conn.execute("SELECT %s FROM %s%s ORDER BY %s" % (", ".join("(%s)" % e for e, _, _ in kcols), tname,
                                                                        (" WHERE " + where) if where else "", order)).fetchall()
            if not entries:
                continue
            pick = {0, len(entries) - 1, len(entries) // 2}
            pick |= set(rng.randrange(len(entries)) for _ in range(8 if quick else 60))
            # entries holding NULL or a zero-length text / blob are always among the keys
            special = [p for p, e in enumerate(entries) if any(v is None or v == "" or v == b"" for v in e)]
            pick |= set(special[:2] + special[-2:])
            keys = [((), "empty")]
            for p in sorted(pick):
                e = entries[p]
                for n in range(1, len(e) + 1):
                    keys.append((tuple(e[:n]), "stored" if n == len(e) else "prefix"))
                for v in variants(rng, e[-1])[1:]:
                    keys.append((tuple(e[:-1]) + (v,), "variant"))
                if len(e) > 1:
                    for v in variants(rng, e[0])[1:3]:
                        keys.append(((v,) + tuple(e[1:]), "variant"))
            seen = set()
            for key, kk in keys:
                kt = key_text(key)
                if kt in seen:
                    continue
                seen.add(kt)
                conds = " AND ".join("(+(%s) COLLATE %s) IS ?" % (kcols[n][0], kcols[n][1] or "binary") for n in range(len(key)))
                sql = "SELECT %s FROM %s WHERE %s%s ORDER BY %s" % (hl.sql_cols(t["cols"]), tname, w0, conds or "1", order)
                exp = conn.execute(sql, key).fetchall()
                cid = "%d/%s/%s/%d" % (i, tname, iname, len(lines))
                if kind == "index":
                    cmd = "hiselecteq %s %s %s %s %s" % (dump, hl.hx(tname), hl.hx(iname), kt, hl.names(cols))
                    what = "IndexedSelectEq(%s, %s, %s)" % (tname, iname, kt)
                else:
                    cmd = "hpkselect %s %s %s %s" % (dump, hl.hx(tname), kt, hl.names(cols))
                    what = "PKSelect(%s, %s)" % (tname, kt)
                    nkeys["pk"] += 1
                nkeys[kk] += 1
                lines.append((cid, cmd))
                meta[cid] = (db, exp, ["end ok", hl.LOCKS], what, sql)
        conn.close()
    res, impl, model = ops.run_cmds("c03-eq", lines, timeout=1500, shards=8)
    nmatch = 0
    for cid, cmd in lines:
        if cid not in meta:
            continue
        db, exp, tail, what, sql = meta[cid]
        hl.judge(run, cid, cmd, db, impl, model, exp, tail, what)
        run.nontrivial(cmd)
        nmatch += 1 if exp else 0
    if res["impl"][0] != 0 or res["model"][0] != 0:
        run.violation("harness died: impl rc=%s model rc=%s %s %s" % (res["impl"][0], res["model"][0], res["impl"][2][-200:], res["model"][2][-200:]),
                      {"no_failing_input_found": True, "broken": "harness execution"})
    run.cov["traces_validated_against_impl"] = len(meta)
    run.cov["rule"] = ("every index and every index-backed / WITHOUT ROWID primary key of the SQLite-written corpus x keys: the empty key, stored "
                       "entries (first, last, middle, random; duplicate runs across pages), every prefix length, and neighbours of the last / first "
                       "key column (+-1, same number as int and real, case-swapped, trailing space / tab, shorter / longer, other storage class, NULL). "
                       "IndexedSelectEq / PKSelect vs SQLite's SELECT ... WHERE (+expr COLLATE c) IS ? ... ORDER BY index order, and vs the extracted "
                       "Coq model. non-trivial = distinct (index, key) commands")
    run.cov["distribution"] = {"keys": nkeys, "cases": len(meta), "cases_with_matches": nmatch, "corpus": dbgen.describe(dbs)}
    for cid, cmd in [l for l in lines if l[0] in meta][5:8]:
        run.sample({"command": cmd[-200:], "oracle_sql": meta[cid][4][:300], "sqlite_rows": len(meta[cid][1])})
    run.assumptions += ["SQLite 3.40.1 (python3 sqlite3) is the writer and the oracle"]


def replay(run, path):
    import json
    r = json.load(open(path))
    if "command" not in r or "db" not in r:
        print("nothing to replay:", r.get("broken")); return
    res, impl, model = ops.run_cmds("c03-replay", [("open", "db " + r["db"]), ("x", r["command"])])
    print("impl :", (impl.get("x") or [])[:20]); print("model:", (model.get("x") or [])[:20]); print("sqlite:", r.get("sqlite_rows"))
