"""C13 - low-level range scans agree with the full scan and the comparison order"""
import random
from vlib import core, sqlfmt, sqlcmp, dbgen
from checks.common import check_obligations
from checks import ops, hl
from checks.c03 import variants


def pyval(v):
    """sqlcmp value -> python value accepted by variants()"""
    if isinstance(v, tuple):
        return v[1].decode("utf-8", "surrogateescape") if v[0] == "t" else v[1]
    return v


def cmpval(v):
    if isinstance(v, str):
        return ("t", v.encode("utf-8", "surrogateescape"))
    if isinstance(v, (bytes, bytearray)):
        return ("b", bytes(v))
    return v


def check(run):
    rng = random.Random(run.seed)
    check_obligations(run)
    quick = run.tier == "quick"
    dbs = dbgen.corpus(run, "c13", which=("deep", "wr", "mix", "ovf", "misc"), deep_rows=1500 if quick else None)
    res, simpl, smodel = ops.full_scans(dbs, "c13-scan")
    lines, meta = [], {}
    stats = {"imin": 0, "ieq": 0, "irange": 0, "interior_cuts": 0, "mismatched_flags": 0}
    for i, db in enumerate(dbs):
        lines.append(("open%d" % i, "db %s" % db.path))
        trees = [(n, t["root"]) for n, t in db.indexes.items()] + [(n, t["root"]) for n, t in db.tables.items() if t["kind"] == "norowid"]
        for name, root in trees:
            full = simpl.get("%d/%s" % (i, name)) or []
            if not full or full[-1] != "end ok":
                run.violation("full scan of %s failed on a SQLite-written file: %s" % (name, full[-1:]), {"kind": "scan-error", "db": db.path, "tree": name})
                continue
            if smodel.get("%d/%s" % (i, name)) != full:
                run.violation("full scan of %s: model and implementation differ" % name,
                              {"no_failing_input_found": True, "broken": "correspondence Index.Scan", "db": db.path, "tree": name})
                continue
            rows = [l[4:] for l in full[:-1]]
            recs = [sqlcmp.parse_rec(r) for r in rows]
            flags = ops.key_flags(db, name)
            if not recs:
                continue
            # positions of entries stored in interior pages (cut points the property names)
            interior = []
            pos = 0
            for pg, kind, n in sqlfmt.leaf_sizes(db.data, root, db.page_size):
                if kind == "leaf":
                    pos += n
                else:
                    interior.append(pos); pos += 1
            pick = {0, len(recs) - 1} | set(interior[:6 if quick else 60]) | set(p + 1 for p in interior[:3]) | set(max(0, p - 1) for p in interior[:3])
            pick |= set(rng.randrange(len(recs)) for _ in range(6 if quick else 80))
            # entries that tie with their neighbour on the first column under the index's collation without being the same bytes
            # (case / trailing spaces: the later columns decide), and entries of one column value whose neighbours differ
            k1 = lambda r: [(r[0], flags[0][0], flags[0][1])] if r and flags else []
            ties = [p for p in range(len(recs) - 1) if recs[p] and recs[p + 1] and recs[p][0] != recs[p + 1][0] and sqlcmp.equal(k1(recs[p]), recs[p + 1][:1])]
            for p in ties[:(8 if quick else 80)]:
                pick |= {p, p + 1}
            pick = sorted(p for p in pick if 0 <= p < len(recs))
            keys = []
            for p in pick:
                r = recs[p]
                n = min(len(r), len(flags))
                for ln in range(0, n + 1):
                    keys.append([(r[c], flags[c][0], flags[c][1]) for c in range(ln)])
                if n:
                    for v in variants(rng, pyval(r[n - 1]))[1:4]:
                        keys.append([(r[c], flags[c][0], flags[c][1]) for c in range(n - 1)] + [(cmpval(v), flags[n - 1][0], flags[n - 1][1])])
                # longer than the stored record's key columns: repeat the last column
                keys.append([(r[c], flags[min(c, len(flags) - 1)][0], flags[min(c, len(flags) - 1)][1]) for c in range(len(r))] + [(None, "", False)])
            seen = set()
            ks = []
            for k in keys:
                t = sqlcmp.show_key(k)
                if t not in seen:
                    seen.add(t); ks.append(k)
            # the full scan must be sorted by the index's own order (else SQLite or the scan is off)
            fullkey = lambda r: [(r[c], flags[c][0], flags[c][1]) for c in range(min(len(r), len(flags)))]
            bad = next((p for p in range(len(recs) - 1) if not sqlcmp.not_less(fullkey(recs[p]), recs[p + 1])), None)
            if bad is not None:
                run.violation("full scan of %s is not in index order at entry %d" % (name, bad),
                              {"kind": "scan-not-sorted", "db": db.path, "tree": name, "entries": rows[bad:bad + 2]})
                continue
            def first_not_less(k):
                lo, hi = 0, len(recs)
                while lo < hi:
                    mid = (lo + hi) // 2
                    if sqlcmp.not_less(k, recs[mid]):
                        hi = mid
                    else:
                        lo = mid + 1
                return lo
            for n, k in enumerate(ks):
                kt = sqlcmp.show_key(k)
                first = first_not_less(k)
                cid = "%d/%s/min/%d" % (i, name, n)
                lim = 0 if n % 40 == 0 else 25      # most suffixes are compared on their first 25 rows, every 40th in full
                suffix = rows[first:]
                if lim and len(suffix) >= lim:
                    lines.append((cid, "imin %d %d %s" % (root, lim, kt)))
                    meta[cid] = (db, ["row " + x for x in suffix[:lim]] + ["end stop"], "ScanMin(%s, %s) first %d" % (name, kt, lim))
                else:
                    lines.append((cid, "imin %d 0 %s" % (root, kt)))
                    meta[cid] = (db, ["row " + x for x in suffix] + ["end ok"], "ScanMin(%s, %s)" % (name, kt))
                stats["imin"] += 1
                if first in interior:
                    stats["interior_cuts"] += 1
                cid = "%d/%s/eq/%d" % (i, name, n)
                lines.append((cid, "ieq %d 0 %s" % (root, kt)))
                last = first
                while last < len(recs) and sqlcmp.equal(k, recs[last]):
                    last += 1
                meta[cid] = (db, ["row " + x for x in rows[first:last]] + ["end ok"], "ScanEq(%s, %s)" % (name, kt))
                stats["ieq"] += 1
                k2 = ks[(n + 1 + (n * 7) % 5) % len(ks)] if n % 10 else ks[(n * 7 + 3) % len(ks)]
                cid = "%d/%s/range/%d" % (i, name, n)
                lines.append((cid, "irange %d 0 %s %s" % (root, kt, sqlcmp.show_key(k2))))
                end = max(first, first_not_less(k2))
                meta[cid] = (db, ["row " + x for x in rows[first:end]] + ["end ok"], "ScanRange(%s, %s, %s)" % (name, kt, sqlcmp.show_key(k2)))
                stats["irange"] += 1
            # keys whose flags disagree with the index: no oracle (the scan is not ordered for them); model vs implementation only
            for k in ks[:8]:
                bad = [(v, "nocase" if not c else "", not d) for v, c, d in k]
                if bad:
                    cid = "%d/%s/bad/%d" % (i, name, len(lines))
                    lines.append((cid, "imin %d 0 %s" % (root, sqlcmp.show_key(bad))))
                    meta[cid] = (db, None, "ScanMin with flags that are not the index's")
                    stats["mismatched_flags"] += 1
    res, impl, model = ops.run_cmds("c13-cuts", lines, timeout=1500, shards=8)
    for cid, cmd in lines:
        if cid not in meta:
            continue
        db, exp, what = meta[cid]
        run.count()
        i, m = impl.get(cid), model.get(cid)
        if exp is not None and i != exp:
            d = next((n for n, (a, b) in enumerate(zip(i or [], exp)) if a != b), min(len(i or []), len(exp)))
            run.violation("%s: differs from the reference filter of the full scan at row %d (%d vs %d lines)" % (what, d, len(i or []), len(exp)),
                          {"kind": "impl-vs-reference", "db": db.path, "command": cmd, "impl": (i or [])[max(0, d - 1):d + 3], "expected": exp[max(0, d - 1):d + 3],
                           "impl_rows": len(i or []) - 1, "expected_rows": len(exp) - 1})
        elif m != i:
            run.violation("%s: model and implementation differ" % what,
                          {"no_failing_input_found": exp is not None, "kind": "impl-vs-model", "broken": "correspondence " + cmd.split(" ")[0], "db": db.path, "command": cmd,
                           "impl": (i or [])[:6], "model": (m or [])[:6]})
        if exp is not None and len(exp) > 1:
            run.nontrivial(cmd)
    if res["impl"][0] != 0 or res["model"][0] != 0:
        run.violation("harness died: impl rc=%s model rc=%s" % (res["impl"][0], res["model"][0]), {"no_failing_input_found": True, "broken": "harness execution", "stderr": res["impl"][2][-300:] + res["model"][2][-300:]})
    run.cov["traces_validated_against_impl"] = len(meta)
    run.cov["rule"] = ("every index and WITHOUT ROWID tree of the SQLite-written corpus (depth up to 3, entries in interior pages, duplicate runs across pages) x cut points: "
                       "first/last entry, every entry stored in an interior page and its neighbours, random entries; each with every prefix length, neighbour values of the last "
                       "column, and a key longer than the record. ScanMin / ScanEq / ScanRange vs the reference filter of the implementation's own full scan computed with an "
                       "independent Python transcription of SQLite's comparison rules; and vs the extracted Coq model (also for keys whose flags are not the index's). "
                       "non-trivial = distinct commands whose expected result has >= 1 row")
    run.cov["distribution"] = dict(stats, corpus=dbgen.describe(dbs))
    for cid, cmd in [l for l in lines if l[0] in meta][10:13]:
        run.sample({"command": cmd[:200], "expected_rows": None if meta[cid][1] is None else len(meta[cid][1]) - 1})


def replay(run, path):
    import json
    r = json.load(open(path))
    if "command" not in r or "db" not in r:
        print("nothing to replay:", r.get("broken")); return
    res, impl, model = ops.run_cmds("c13-replay", [("open", "db " + r["db"]), ("x", r["command"])])
    print("impl :", (impl.get("x") or [])[:10]); print("model:", (model.get("x") or [])[:10]); print("expected:", r.get("expected"))
