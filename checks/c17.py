"""C17 - stopping a scan early yields an exact prefix and ends the transaction"""
import random
from vlib import core, sqlfmt, sqlcmp, dbgen
from checks.common import check_obligations
from checks import ops, hl


def stop_positions(rng, db, root, n, quick):
    """k values (1-based row counts) that matter structurally: every k for small results; otherwise the
    rows around entries stored in interior pages, every row of leaves that are right-most children, leaf ends"""
    if n <= (150 if quick else 800):
        return list(range(1, n + 1)), {"all": n}
    leaves, interior = sqlfmt.leaf_layout(db.data, root, db.page_size)
    ks, kinds = set([1, 2, n - 1, n]), {"interior": 0, "rightmost_leaf_rows": 0, "leaf_end": 0}
    for p in interior:
        if rng.random() < (0.25 if quick else 1):
            ks.update((p, p + 1, p + 2)); kinds["interior"] += 1
    # leaves under a right-most pointer whose parent is not the last page of its level: every row
    rm = [l for l in leaves if l[2] and l[1] < n]
    for start, end, _, _ in rm[:(6 if quick else 200)]:
        for k in range(start + 1, end + 2):
            ks.add(k); kinds["rightmost_leaf_rows"] += 1
    for start, end, r, _ in leaves:
        if not r and rng.random() < (0.05 if quick else 0.5):
            ks.add(end); ks.add(end + 1); kinds["leaf_end"] += 1
    ks = sorted(k for k in ks if 1 <= k <= n)
    # a stop after k rows costs k rows of output on both sides: keep the total per tree bounded
    budget = 60000 if quick else 600000
    if sum(ks) > budget:
        keep = set(ks[:3] + ks[-3:])
        rest = [k for k in ks if k not in keep]
        rng.shuffle(rest)
        tot = sum(keep)
        for k in rest:
            if tot + k > budget:
                continue
            keep.add(k); tot += k
        kinds["dropped_for_budget"] = len(ks) - len(keep)
        ks = sorted(keep)
    return ks, kinds


def check(run):
    rng = random.Random(run.seed)
    check_obligations(run)
    quick = run.tier == "quick"
    dbs = dbgen.corpus(run, "c17", which=("deep", "wr", "mix", "tiny", "misc"), deep_rows=1500 if quick else None)
    dumps = hl.schemas(dbs, "c17-schema")
    res, simpl, smodel = ops.full_scans(dbs, "c17-scan")
    lines, meta = [], {}
    dist = {}
    for i, db in enumerate(dbs):
        lines.append(("open%d" % i, "db %s" % db.path))
        trees = [(n, t["root"], "scan" if t["kind"] != "norowid" else "iscan", n) for n, t in db.tables.items()]
        trees += [(n, t["root"], "iscan", None) for n, t in db.indexes.items()]
        for name, root, op, table in trees:
            full = simpl.get("%d/%s" % (i, name)) or []
            if not full or full[-1] != "end ok":
                run.violation("full scan of %s failed on a SQLite-written file" % name, {"kind": "scan-error", "db": db.path, "tree": name, "impl": full[-2:]})
                continue
            rows = full[:-1]
            n = len(rows)
            if n == 0:
                continue
            ks, kinds = stop_positions(rng, db, root, n, quick)
            dist["%s/%s" % (db.desc, name)] = dict(kinds, rows=n, stops=len(ks))
            for k in ks:
                cid = "%d/%s/%s/%d" % (i, name, op, k)
                lines.append((cid, "%s %d %d" % (op, root, k)))
                meta[cid] = (db, ("rows", rows, 0, k), "%s(%s) stop after %d" % (op, name, k))
            # the high level SelectDone on tables
            if table and dumps.get((i, table)):
                t = db.tables[table]
                cols = [hl.unq(c) for c in t["cols"]]
                base = "%d/%s/hfull" % (i, name)
                lines.append((base, "hselect %s %s 0 %s" % (dumps[(i, table)], hl.hx(table), hl.names(cols))))
                meta[base] = (db, None, "SelectDone(%s) full" % table)
                for k in ks[::(1 if len(ks) < 120 else 3)]:
                    cid = "%d/%s/hselect/%d" % (i, name, k)
                    lines.append((cid, "hselect %s %s %d %s" % (dumps[(i, table)], hl.hx(table), k, hl.names(cols))))
                    meta[cid] = (db, ("prefix", base, k), "SelectDone(%s) stop after %d" % (table, k))
            # from-key / range / equality scans: a few start keys, every k up to 40
            if op == "iscan" and n > 3:
                recs = [sqlcmp.parse_rec(r[4:]) for r in rows]
                flags = ops.key_flags(db, name)
                for p in sorted(set([0, n // 3, n // 2, n - 2] + [rng.randrange(n) for _ in range(2 if quick else 10)])):
                    r = recs[p]
                    nk = min(len(r), len(flags))
                    key = [(r[c], flags[c][0], flags[c][1]) for c in range(nk)]
                    kt = sqlcmp.show_key(key)
                    first = next(j for j in range(n) if sqlcmp.not_less(key, recs[j]))
                    for k in range(1, min(40, n - first) + 1):
                        cid = "%d/%s/imin/%d/%d" % (i, name, p, k)
                        lines.append((cid, "imin %d %d %s" % (root, k, kt)))
                        meta[cid] = (db, ("rows", rows, first, k), "ScanMin(%s, %s) stop after %d" % (name, kt, k))
                    pk = [(r[c], flags[c][0], flags[c][1]) for c in range(1)]   # one-column prefix: a run of equal entries
                    kp = sqlcmp.show_key(pk)
                    f1 = next(j for j in range(n) if sqlcmp.not_less(pk, recs[j]))
                    run_ = [j for j in range(f1, n) if sqlcmp.equal(pk, recs[j])]
                    for k in range(1, min(25, len(run_)) + 1):
                        cid = "%d/%s/ieq/%d/%d" % (i, name, p, k)
                        lines.append((cid, "ieq %d %d %s" % (root, k, kp)))
                        meta[cid] = (db, ("rows", rows, f1, k), "ScanEq(%s, %s) stop after %d" % (name, kp, k))
                    last = recs[min(n - 1, first + 30)]
                    k2 = sqlcmp.show_key([(last[c], flags[c][0], flags[c][1]) for c in range(min(len(last), len(flags)))])
                    end = min(n - 1, first + 30)
                    for k in range(1, end - first + 1, 2):
                        cid = "%d/%s/irange/%d/%d" % (i, name, p, k)
                        lines.append((cid, "irange %d %d %s %s" % (root, k, kt, k2)))
                        meta[cid] = (db, None, "ScanRange(%s) stop after %d" % (name, k))
                        meta[cid] = (db, ("rangeprefix", first, k), "ScanRange(%s, %s, %s) stop after %d" % (name, kt, k2, k))
    # nested use of one Table / Index value: a lookup that its own callback ends at the first row, from inside the callback of
    # the scan that is being stopped after k rows
    nlines, nmeta = [], {}
    for i, db in enumerate(dbs):
        nlines.append(("open%d" % i, "db %s" % db.path))
        trees = [(n, t["root"], "nscan" if t["kind"] != "norowid" else "niscan") for n, t in db.tables.items()] + [(n, t["root"], "niscan") for n, t in db.indexes.items()]
        for name, root, op in trees[:(4 if quick else None)]:
            full = simpl.get("%d/%s" % (i, name)) or []
            rows = full[:-1]
            for k in sorted(set([1, 2, 3, len(rows) // 2, len(rows) - 1, len(rows), 0]))[:(5 if quick else None)]:
                if k < 0 or k > len(rows):
                    continue
                cid = "%d/%s/%s/%d" % (i, name, op, k)
                nlines.append((cid, "%s %d %d" % (op, root, k)))
                nmeta[cid] = (db, rows[:k] + ["end stop"] if 0 < k else rows + ["end ok"], "%s(%s) with a nested stopped scan on the same value, stop after %d" % (op, name, k))
    _, nimpl, _ = ops.run_cmds("c17-nested", nlines, timeout=900, sides=("impl",))
    for cid, (db, exp, what) in nmeta.items():
        run.count()
        o = nimpl.get(cid)
        if o is not None and o != exp:
            run.violation("%s: delivered %d row lines ending %s; expected exactly the first %d rows and then the stop" % (what, len(o) - 1, o[-2:], len(exp) - 1),
                          {"kind": "early-stop", "db": db.path, "command": cid, "impl": o[-3:], "expected_tail": exp[-2:]})
            break
    res, impl, model = ops.run_cmds("c17-stops", lines, timeout=2400 if quick else 7200, shards=8 if quick else 24)
    for cid, cmd in lines:
        if cid not in meta:
            continue
        db, exp, what = meta[cid]
        run.count()
        i, m = impl.get(cid), model.get(cid)
        if exp is None:
            pass
        elif isinstance(exp, tuple) and exp[0] == "rows":
            exp = exp[1][exp[2]:exp[2] + exp[3]] + ["end stop"]
        elif isinstance(exp, tuple) and exp[0] == "prefix":
            fullr = [l for l in (impl.get(exp[1]) or []) if l.startswith("row ")]
            exp = fullr[:exp[2]] + ["end stop", hl.LOCKS]
        elif isinstance(exp, tuple):
            exp = None      # range: compared with the model only (the model's range = C13)
            if i is not None and (sum(1 for l in i if l.startswith("row ")) > int(cmd.split(" ")[2]) or not i[-1].startswith("end ")):
                run.violation("%s: callback invoked more often than asked" % what, {"kind": "impl-vs-expected", "db": db.path, "command": cmd, "impl": i[-4:]})
        if exp is not None and i != exp:
            run.violation("%s: delivered %d row lines ending %s; expected exactly the first %d rows of the full result, 'end stop', lock released"
                          % (what, sum(1 for l in (i or []) if l.startswith("row ")), (i or ["?"])[-2:], len([l for l in exp if l.startswith("row ")])),
                          {"kind": "impl-vs-prefix", "db": db.path, "command": cmd, "impl_tail": (i or [])[-4:], "expected_tail": exp[-4:]})
        elif m != i:
            run.violation("%s: model and implementation differ" % what,
                          {"no_failing_input_found": exp is not None, "broken": "correspondence " + cmd.split(" ")[0], "db": db.path, "command": cmd,
                           "impl_tail": (i or [])[-3:], "model_tail": (m or [])[-3:]})
        run.nontrivial(cmd)
    if res["impl"][0] != 0 or res["model"][0] != 0:
        run.violation("harness died: impl rc=%s model rc=%s" % (res["impl"][0], res["model"][0]), {"no_failing_input_found": True, "broken": "harness execution", "stderr": res["impl"][2][-300:] + res["model"][2][-300:]})
    run.cov["traces_validated_against_impl"] = len(meta)
    run.cov["rule"] = ("every table / index / WITHOUT ROWID tree of the SQLite-written corpus: Table.Scan / Index.Scan stopped after k for EVERY k when the result is small, "
                       "otherwise for the rows around every sampled interior-page entry, every row of leaves that hang under a right-most pointer, sampled leaf ends, first/last; "
                       "SelectDone likewise (incl. the read lock released afterwards); ScanMin / ScanEq / ScanRange from several start keys for every k up to 40/25/30. "
                       "Expected: exactly the first k rows of the full result, unchanged, 'stopped', no error; the extracted Coq model runs the same commands. "
                       "non-trivial = distinct (operation, k) commands")
    run.cov["distribution"] = {"stops": dist, "corpus": dbgen.describe(dbs)}
    for cid, cmd in [l for l in lines if l[0] in meta][20:23]:
        run.sample({"command": cmd[-120:], "what": meta[cid][2]})


def replay(run, path):
    import json
    r = json.load(open(path))
    if "command" not in r or "db" not in r:
        print("nothing to replay:", r.get("broken")); return
    res, impl, model = ops.run_cmds("c17-replay", [("open", "db " + r["db"]), ("x", r["command"])])
    print("impl :", (impl.get("x") or [])[-5:]); print("model:", (model.get("x") or [])[-5:]); print("expected:", r.get("expected_tail"))
