"""C04 - rowid lookup finds a row iff it exists"""
import random
from vlib import core, sqlfmt, dbgen
from checks.common import check_obligations
from checks import ops

I64MIN, I64MAX = -2 ** 63, 2 ** 63 - 1


def check(run):
    rng = random.Random(run.seed)
    check_obligations(run)
    dbs = dbgen.corpus(run, "c04", which=("deep", "ipk", "ovf", "alias", "mix", "tiny"))
    res, impl, model = ops.full_scans(dbs, "c04-scan")
    lines, expect, meta = [], {}, {}
    ntables = 0
    for i, db in enumerate(dbs):
        lines.append(("open%d" % i, "db %s" % db.path))
        conn = db.conn()
        for name, t in db.tables.items():
            if t["kind"] == "norowid":
                continue
            ntables += 1
            rows = {}
            for l in impl.get("%d/%s" % (i, name), []):
                if l.startswith("row "):
                    _, rid, rec = l.split(" ", 2)
                    rows[int(rid)] = rec
            present = [r[0] for r in conn.execute("SELECT rowid FROM %s ORDER BY rowid" % name)]
            if list(rows) != present:
                run.violation("full scan of %s/%s does not deliver SQLite's rowids in order" % (db.desc, name),
                              {"kind": "scan-vs-sqlite", "db": db.path, "table": name,
                               "first_diff": next(((a, b) for a, b in zip(list(rows), present) if a != b), (len(rows), len(present)))})
                continue
            seps = sqlfmt.table_interior_keys(db.data, t["root"], db.page_size)
            edges = sqlfmt.table_leaf_edges(db.data, t["root"], db.page_size)
            probes = set(seps) | set(edges) | {I64MIN, I64MAX, 0, 1, -1, I64MIN + 1, I64MAX - 1}
            cap = 600 if run.tier == "quick" else 20000
            probes |= set(present if len(present) <= cap else rng.sample(present, cap))
            for k in list(probes):
                for d in (-1, 1):
                    if I64MIN <= k + d <= I64MAX:
                        probes.add(k + d)
            sepset, edgeset, pset = set(seps), set(edges), set(present)
            for k in sorted(probes):
                cid = "%d/%s/%d" % (i, name, k)
                lines.append((cid, "rowid %d %d" % (t["root"], k)))
                expect[cid] = ["found " + rows[k]] if k in pset else ["notfound"]
                meta[cid] = ("sep" if k in sepset else "edge" if k in edgeset else "present" if k in pset else "absent")
                # high level: SelectRowid / PKSelect
                colnames = ",".join(["rowid"] + t["cols"])
                hexp = conn.execute("SELECT rowid, %s FROM %s WHERE rowid=?" % (",".join(t["cols"]), name), (k,)).fetchall()
                hrow = ["row " + sqlfmt.canon_rec(r) for r in hexp]
                cid2 = cid + "/hl"
                lines.append((cid2, "selectrowid %s %d %s" % (name, k, colnames)))
                expect[cid2] = hrow + ["end ok", "locks lock,unlock locked=false"]
                if t["kind"] == "ipk" and rng.random() < .3:
                    cid3 = cid + "/pk"
                    lines.append((cid3, "pkselect %s i%d %s" % (name, k, colnames)))
                    expect[cid3] = hrow + ["end ok", "locks lock,unlock locked=false"]
            # every probe once more in DESCENDING order (absent rowids in the gaps that deletions left behind included): what a
            # lookup returns does not depend on where the previous lookup ended
            for k in sorted(probes, reverse=True):
                cid = "%d/%s/%d/down" % (i, name, k)
                lines.append((cid, "rowid %d %d" % (t["root"], k)))
                expect[cid] = ["found " + rows[k]] if k in pset else ["notfound"]
                meta[cid] = "descending"
            # the same handle, the other way round, and once more: a lookup must not depend on what was read before it
            # (small tables only; on the `alias` leaves the spilled row is read before the row stored behind it)
            if len(present) <= 64:
                for rnd, order in (("r2", sorted(present, reverse=True)), ("r3", sorted(present))):
                    for k in order:
                        cid = "%d/%s/%d/%s" % (i, name, k, rnd)
                        lines.append((cid, "rowid %d %d" % (t["root"], k)))
                        expect[cid] = ["found " + rows[k]]
                        meta[cid] = "repeat"
                        cidh = cid + "/hl"
                        hexp = conn.execute("SELECT rowid, %s FROM %s WHERE rowid=?" % (",".join(t["cols"]), name), (k,)).fetchall()
                        lines.append((cidh, "selectrowid %s %d %s" % (name, k, ",".join(["rowid"] + t["cols"]))))
                        expect[cidh] = ["row " + sqlfmt.canon_rec(r) for r in hexp] + ["end ok", "locks lock,unlock locked=false"]
        conn.close()
    res, impl2, model2 = ops.run_cmds("c04-probe", lines, timeout=1200, shards=8)
    kinds = {}
    for cid, cmd in lines:
        if cid.startswith("open"):
            continue
        run.count()
        i_out, m_out = impl2.get(cid), model2.get(cid)
        kinds[meta.get(cid, "hl")] = kinds.get(meta.get(cid, "hl"), 0) + 1
        if i_out != expect[cid]:
            run.violation("lookup differs from SQLite / the full scan: %s" % cmd,
                          {"kind": "impl-vs-oracle", "db": dbs[int(cid.split('/')[0])].path, "command": cmd,
                           "impl": i_out, "expected": expect[cid], "class": meta.get(cid)})
        elif not cid.endswith(("/hl", "/pk")):
            if m_out != i_out:
                run.violation("model and implementation differ on %s" % cmd,
                              {"no_failing_input_found": True, "broken": "correspondence Table.Rowid", "command": cmd,
                               "db": dbs[int(cid.split('/')[0])].path, "impl": i_out, "model": m_out})
            run.nontrivial(cid)
    run.cov["traces_validated_against_impl"] = sum(1 for cid, _ in lines if cid in meta)
    run.cov["rule"] = ("for every rowid table of the SQLite-written corpus (depth up to 3-4 on 512-byte pages, deleted/re-inserted rows, "
                       "negative/zero/extreme rowids, overflowing rows): Table.Rowid, SelectRowid and (rowid-alias tables) PKSelect for present rowids, "
                       "both neighbours, every interior separator key and its neighbours, first/last rowid of every leaf, int64 min/max; expected = "
                       "presence per SQLite and the record the full scan reports; the extracted Coq model runs the same lookups. non-trivial = distinct (table, rowid) low-level probes")
    run.cov["distribution"] = {"probe_classes": kinds, "tables": ntables, "corpus": dbgen.describe(dbs)}
    for cid, cmd in lines[1:4]:
        run.sample({"command": cmd, "expected": expect.get(cid)})


def replay(run, path):
    import json
    r = json.load(open(path))
    if "command" not in r or "db" not in r:
        print("nothing to replay:", r.get("broken")); return
    res, impl, model = ops.run_cmds("c04-replay", [("open", "db " + r["db"]), ("x", r["command"])])
    print("impl :", impl.get("x")); print("model:", model.get("x")); print("expected:", r.get("expected"))
