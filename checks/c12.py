"""C12 - read failures are reported, never turned into silently missing rows"""
import random
from vlib import core, sqlfmt, sqlcmp, dbgen
from checks.common import check_obligations
from checks import ops, hl


def build_ops(rng, i, db, dumps, simpl, quick):
    """[(opid, command)] for one database"""
    out = []
    for name, t in db.tables.items():
        root = t["root"]
        out.append(("%s/scan" % name, ("iscan %d 0" if t["kind"] == "norowid" else "scan %d 0") % root))
        dump = dumps.get((i, name))
        cols = hl.names([hl.unq(c) for c in t["cols"]])
        if dump:
            out.append(("%s/hselect" % name, "hselect %s %s 0 %s" % (dump, hl.hx(name), cols)))
        if t["kind"] != "norowid":
            full = [l for l in (simpl.get("%d/%s" % (i, name)) or []) if l.startswith("row ")]
            ids = [int(l.split(" ")[1]) for l in full]
            # lookup targets: first / middle / last / absent, the rows with the largest records (the ones whose payload
            # continues in overflow pages: the lookup then reads pages AFTER it has found the cell) and a few random ones
            big = [int(l.split(" ")[1]) for l in sorted(full, key=len, reverse=True)[:3] if len(l) > 200]
            some = [ids[rng.randrange(len(ids))] for _ in range(2 if quick else 6)] if ids else []
            targets = ([ids[0], ids[len(ids) // 2], ids[-1], min(ids[-1] + 1, 2 ** 63 - 1)] + big + some) if ids else [1]
            for rid in sorted(set(targets), key=targets.index):
                out.append(("%s/rowid/%d" % (name, rid), "rowid %d %d" % (root, rid)))
                if dump:
                    out.append(("%s/hselectrowid/%d" % (name, rid), "hselectrowid %s %s %d %s" % (dump, hl.hx(name), rid, cols)))
                    if t["kind"] == "ipk":
                        out.append(("%s/hpk/%d" % (name, rid), "hpkselect %s %s i%d %s" % (dump, hl.hx(name), rid, cols)))
    for name, ix in db.indexes.items():
        root = ix["root"]
        t = db.tables[ix["table"]]
        dump = dumps.get((i, ix["table"]))
        cols = hl.names([hl.unq(c) for c in t["cols"]])
        out.append(("%s/iscan" % name, "iscan %d 0" % root))
        if dump:
            out.append(("%s/hiselect" % name, "hiselect %s %s %s %s" % (dump, hl.hx(ix["table"]), hl.hx(name), cols)))
        full = [l[4:] for l in (simpl.get("%d/%s" % (i, name)) or []) if l.startswith("row ")]
        flags = ops.key_flags(db, name)
        if full:
            picks = sorted(set([0, len(full) // 2, len(full) - 1] + [rng.randrange(len(full)) for _ in range(2 if quick else 8)]))
            for p in picks:
                r = sqlcmp.parse_rec(full[p])
                nk = min(len(r), len(flags), len(ix["cols"]))
                key = [(r[c], flags[c][0], flags[c][1]) for c in range(nk)]
                kt = sqlcmp.show_key(key)
                out.append(("%s/imin/%d" % (name, p), "imin %d 30 %s" % (root, kt)))
                out.append(("%s/ieq/%d" % (name, p), "ieq %d 0 %s" % (root, kt)))
                if dump:
                    hk = ",".join(sqlcmp.show_key([kc]).split("/")[0] for kc in key)
                    out.append(("%s/hiselecteq/%d" % (name, p), "hiselecteq %s %s %s %s %s" % (dump, hl.hx(ix["table"]), hl.hx(name), hk, cols)))
    return out


def rows_of(lines):
    return [l for l in lines if l.startswith("row ") or l.startswith("found ") or l == "notfound"]


def check(run):
    rng = random.Random(run.seed)
    check_obligations(run)
    quick = run.tier == "quick"
    dbs = dbgen.corpus(run, "c12", which=("deep", "wr", "ovf", "misc", "ipk"), deep_rows=450 if quick else 1200)
    dumps = hl.schemas(dbs, "c12-schema")
    res, simpl, smodel = ops.full_scans(dbs, "c12-scan")
    # phase 1: fault-free runs on a fresh handle, with the number of page reads each operation performs
    oplist, lines = {}, []
    for i, db in enumerate(dbs):
        lines.append(("open%d" % i, "db %s" % db.path))
        for oid, cmd in build_ops(rng, i, db, dumps, simpl, quick):
            oplist[(i, oid)] = cmd
            lines.append(("%d/%s/f" % (i, oid), "fresh"))
            lines.append(("%d/%s/base" % (i, oid), cmd))
            lines.append(("%d/%s/reads" % (i, oid), "reads"))
    res, bimpl, bmodel = ops.run_cmds("c12-base", lines, timeout=1500, sides=("impl",))
    # phase 2: the k-th read fails (I/O error and short read), every k up to the fault-free read count
    lines, meta = [], {}
    dist = {"ops": len(oplist), "injections": 0, "max_reads": 0, "always_fail_cases": 0}
    for i, db in enumerate(dbs):
        lines.append(("open%d" % i, "db %s" % db.path))
        for (j, oid), cmd in oplist.items():
            if j != i:
                continue
            base = bimpl.get("%d/%s/base" % (i, oid)) or []
            rd = bimpl.get("%d/%s/reads" % (i, oid)) or ["reads 0"]
            nreads = int(rd[0].split(" ")[1])
            dist["max_reads"] = max(dist["max_reads"], nreads)
            if not base or any(l.startswith("end err") or l.startswith("err ") for l in base):
                run.violation("fault-free %s fails on a SQLite-written file: %s" % (cmd[:60], base[-2:]), {"kind": "base-error", "db": db.path, "command": cmd})
                continue
            cap = 40 if quick else 150
            ks = list(range(1, nreads + 1)) if nreads <= cap else sorted(set(list(range(1, 16)) + list(range(nreads - 10, nreads + 1)) + [rng.randrange(1, nreads + 1) for _ in range(cap - 25)]))
            for k in ks:
                for short in ("", " short"):
                    cid = "%d/%s/k%d%s" % (i, oid, k, short.strip())
                    lines.append((cid + "/inj", "failat %d%s" % (k, short)))
                    lines.append((cid, cmd))
                    # the same operation once more on the same handle, the fault gone: the failed read must not have left
                    # anything behind (a page or a record remembered as "read") that makes rows go missing without an error
                    if (k <= 4 or k >= nreads - 3 or k % 5 == 0) if quick else (k <= 2 or k >= nreads - 1 or k % 17 == 0):      # (a sample: the output of this phase is large)
                        lines.append((cid + "/again", cmd))
                    meta[cid] = (db, cmd, base, k, short)
                    dist["injections"] += 1
    # one run per database (and per ~4000 commands): the output of this phase is by far the largest of all checks
    impl, res = {}, {"impl": (0, "", ""), "model": (0, "", "")}
    chunk, cur_open = [], None
    def flush():
        nonlocal chunk
        if len(chunk) > 1:
            r, im, _ = ops.run_cmds("c12-kth", chunk, timeout=2400, sides=("impl",))
            impl.update(im)
            if r["impl"][0] != 0:
                res["impl"] = r["impl"]
        chunk = []
    for cid_, cmd_ in lines:
        if cmd_.startswith("db "):
            flush()
            cur_open = (cid_, cmd_)
            chunk = [cur_open]
            continue
        chunk.append((cid_, cmd_))
        if len(chunk) > 4000 and cid_.endswith(("/again",)) is False and not cmd_.startswith("failat "):
            # cut between cases: the next command is a `failat` that makes a fresh handle
            nxt = None
            flush()
            chunk = [cur_open]
    flush()
    for cid, (db, cmd, base, k, short) in meta.items():
        run.count()
        out = impl.get(cid)
        if out is None:
            continue
        failed = any(l.startswith("end err") or l.startswith("err ") for l in out)
        brows, orows = rows_of(base), rows_of(out)
        if not failed:
            run.violation("%s with read #%d failing (%s): no error reported (%d rows, fault-free %d)" % (cmd[:50], k, short.strip() or "I/O error", len(orows), len(brows)),
                          {"kind": "fault-swallowed", "db": db.path, "command": cmd, "fail_read": k, "short": bool(short), "impl": out[-3:], "fault_free_rows": len(brows)})
        elif orows != brows[:len(orows)] or "notfound" in orows:
            run.violation("%s with read #%d failing: delivered rows are not a prefix of the fault-free result" % (cmd[:50], k),
                          {"kind": "fault-not-prefix", "db": db.path, "command": cmd, "fail_read": k, "short": bool(short), "impl": out[-3:]})
        again = impl.get(cid + "/again")
        again_failed = again is not None and any(l.startswith("end err") or l.startswith("err ") for l in again)
        if again_failed:
            dist["second_call_fails_too"] = dist.get("second_call_fails_too", 0) + 1     # reported, not silent: allowed (a failed read of sqlite_master is remembered with its error until the schema changes)
        if failed and again is not None and not again_failed and (rows_of(again) != brows or "notfound" in rows_of(again) and "notfound" not in brows):
            run.violation("%s after read #%d of the previous, identical call on this handle had failed: %d rows and no error where the fault-free result has %d rows" % (cmd[:50], k, len(rows_of(again)), len(brows)),
                          {"kind": "fault-poisons-handle", "db": db.path, "command": cmd, "fail_read": k, "short": bool(short), "first_call": out[-2:], "second_call": again[-3:], "fault_free_rows": len(brows)})
        if any("locked=true" in l for l in out):
            run.violation("%s with read #%d failing: read lock still held after the call" % (cmd[:50], k), {"kind": "lock-leak", "db": db.path, "command": cmd, "fail_read": k})
        run.nontrivial(cid)
    # phase 3: pages that always fail: model vs implementation (independent of cache behaviour).  Page 1 is left out: the code
    # re-reads the header at the start of every transaction, which the page-store model of these low level commands does not do
    # (header re-validation is C08's / C15's state machine)
    lines, meta3 = [], {}
    for i, db in enumerate(dbs):
        lines.append(("open%d" % i, "db %s" % db.path))
        npages = len(db.data) // db.page_size
        pages = sorted(set([2, 3, npages] + [rng.randrange(2, npages + 1) for _ in range(10 if quick else 20)] + sqlfmt.overflow_pages(db.data, db.page_size)[:4]))
        cmds = [c for (j, oid), c in oplist.items() if j == i]
        for pgno in pages:
            lines.append(("%d/fail%d" % (i, pgno), "fail %d" % pgno))
            for n, cmd in enumerate(rng.sample(cmds, min(len(cmds), 6 if quick else 8))):
                cid = "%d/p%d/%d" % (i, pgno, n)
                lines.append((cid, cmd))
                meta3[cid] = (db, cmd, pgno)
        lines.append(("%d/failnone" % i, "fail -"))
    res3, impl3, model3 = ops.run_cmds("c12-pages", lines, timeout=2400 if quick else 6000)
    for cid, (db, cmd, pgno) in meta3.items():
        run.count()
        dist["always_fail_cases"] += 1
        # error kinds are not compared (the high level API wraps some errors)
        norm = lambda ls: None if ls is None else [("end err" if l.startswith("end err") else "err" if l.startswith("err ") else l) for l in ls]
        a, b = norm(impl3.get(cid)), norm(model3.get(cid))
        if a != b:
            run.violation("page %d unreadable, %s: model and implementation differ" % (pgno, cmd[:50]),
                          {"kind": "impl-vs-model", "broken": "correspondence under faults", "db": db.path, "command": cmd, "fail_page": pgno, "impl": (a or [])[-3:], "model": (b or [])[-3:]})
    # phase 4: pages that read as zeroes without any error from the pager (a lost write, a hole): the structure that
    # contains them is corrupt - a zeroed b-tree page has no valid type, a zeroed overflow page ends its chain early.
    # The extracted model decides what must happen (an error unless the page is the last of a chain, whose content is
    # then zeroes); the implementation must do the same: never success with made-up, missing or replaced rows.
    lines, meta4 = [], {}
    dist["zeroed_page_cases"] = 0
    for i, db in enumerate(dbs):
        lines.append(("open%d" % i, "db %s" % db.path))
        npages = len(db.data) // db.page_size
        ov = sqlfmt.overflow_pages(db.data, db.page_size)
        pages = sorted(set([p for p in ([2, 3, npages] + ov[:(8 if quick else 24)] + [rng.randrange(2, npages + 1) for _ in range(6 if quick else 16)]) if 2 <= p <= npages]))
        cmds = [c for (j, oid), c in oplist.items() if j == i]
        # a zeroed overflow page is met by whatever reads through its chain: every full scan of every tree (low and high level)
        # runs against it, plus a sample of the other operations
        scans = [c for (j, oid), c in oplist.items() if j == i and oid.endswith(("/scan", "/iscan", "/hselect", "/hiselect"))]
        for pgno in pages:
            lines.append(("%d/zero%d" % (i, pgno), "zero %d" % pgno))
            chosen = rng.sample(cmds, min(len(cmds), 6 if quick else 8))
            if pgno in ov:
                chosen = scans + [c for c in chosen if c not in scans]
            for n, cmd in enumerate(chosen):
                cid = "%d/z%d/%d" % (i, pgno, n)
                lines.append((cid, cmd))
                meta4[cid] = (db, cmd, pgno)
        lines.append(("%d/zeronone" % i, "zero -"))
    res4, impl4, model4 = ops.run_cmds("c12-zero", lines, timeout=2400 if quick else 6000)
    for cid, (db, cmd, pgno) in meta4.items():
        run.count()
        dist["zeroed_page_cases"] += 1
        norm = lambda ls: None if ls is None else [("end err" if l.startswith("end err") else "err" if l.startswith("err ") else l) for l in ls]
        a, b = norm(impl4.get(cid)), norm(model4.get(cid))
        if a != b:
            aerr = any(l in ("end err", "err") for l in (a or []))
            berr = any(l in ("end err", "err") for l in (b or []))
            if berr and not aerr:
                run.violation("page %d reads as zeroes, %s: success reported with %d rows although the structure is corrupt (the model reports an error)" % (pgno, cmd[:50], len(rows_of(impl4.get(cid) or []))),
                              {"kind": "corruption-swallowed", "db": db.path, "command": cmd, "zero_page": pgno, "impl": (a or [])[-3:], "model": (b or [])[-3:]})
            else:
                run.violation("page %d reads as zeroes, %s: model and implementation differ" % (pgno, cmd[:50]),
                              {"kind": "impl-vs-model", "no_failing_input_found": True, "broken": "correspondence under corruption", "db": db.path, "command": cmd, "zero_page": pgno, "impl": (a or [])[-3:], "model": (b or [])[-3:]})
        run.nontrivial(cid)
    for r in (res, res3, res4):
        if r["impl"][0] != 0:
            run.violation("implrun died rc=%s %s" % (r["impl"][0], r["impl"][2][-300:]), {"kind": "harness-crash", "stderr": r["impl"][2][-600:]})
    if res3["model"][0] != 0 or res4["model"][0] != 0:
        run.violation("modelrun died", {"no_failing_input_found": True, "broken": "model execution", "stderr": res3["model"][2][-600:]})
    run.cov["traces_validated_against_impl"] = len(meta) + len(meta3) + len(meta4)
    run.cov["rule"] = ("every operation (Table.Scan, Index.Scan, ScanMin, ScanEq, Table.Rowid, Select, SelectRowid, PKSelect, IndexedSelect, IndexedSelectEq) on every tree of a "
                       "SQLite-written corpus incl. overflowing index keys: the k-th physical page read of the call fails, for every k up to the fault-free read count (sampled above 40), "
                       "as an I/O error and as a short read; verdict = the property itself: an error is returned, the rows delivered are a prefix of the fault-free rows, the lock is "
                       "released. Plus: single pages that always fail, extracted Coq model vs implementation. non-trivial = distinct (operation, k, kind) injections After an injected fault the same call is repeated on the same handle (sampled): succeeding with other rows than the fault-free run is a violation.")
    run.cov["distribution"] = dict(dist, corpus=dbgen.describe(dbs))
    for cid in list(meta)[:3]:
        run.sample({"command": meta[cid][1][-100:], "fail_read": meta[cid][3], "short": bool(meta[cid][4]), "impl_tail": (impl.get(cid) or [])[-2:]})


def replay(run, path):
    import json
    r = json.load(open(path))
    if "command" not in r or "db" not in r:
        print("nothing to replay:", r.get("broken")); return
    pre = ("failat %d%s" % (r["fail_read"], " short" if r.get("short") else "")) if "fail_read" in r else ("fail %d" % r.get("fail_page", 0))
    res, impl, model = ops.run_cmds("c12-replay", [("open", "db " + r["db"]), ("inj", pre), ("x", r["command"])])
    print("impl :", (impl.get("x") or [])[-5:]); print("model:", (model.get("x") or [])[-5:])
