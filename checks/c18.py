"""C18 - Row.Scan conversions are total, documented, and yield independent copies"""
import os, random, shutil, sqlite3, struct
from vlib import core, sqlfmt
from checks.common import check_obligations
from checks import ops

DESTS = ["s", "b", "i64", "i32", "i", "bool", "f", "t", "nil", "bad"]
INTS = [0, 1, -1, 2, 255, 2 ** 31 - 1, 2 ** 31, -2 ** 31, -2 ** 31 - 1, 2 ** 32, 2 ** 53, 2 ** 53 + 1, 2 ** 63 - 1, -2 ** 63, 1577934245, -62135596800]
FLOATS = [0.0, -0.0, 0.5, -0.5, 1.0, 1.5, -1.5, 2.0 ** 31, 2.0 ** 53, 2.0 ** 63, -2.0 ** 63, 2.0 ** 63 - 1024, 1e19, -1e19, 1e300, 5e-324, float("inf"), float("-inf"), float("nan"), 3.141592653589793, 1e21, 123456789.125]
TEXTS = ["", "0", "1", "-1", "42", "+7", "007", "12abc", "abc", " 1", "1 ", "1_000", "0x10", "1e3", "1.5", "-1.5e2", ".5", "5.", "inf", "-Inf", "NaN", "nan", "1e999", "0x1p-2",
         "2147483648", "9007199254740993", "9223372036854775807", "9223372036854775808", "-9223372036854775808", "-9223372036854775809", "99999999999999999999", "true", "false",
         "2020-01-02 03:04:05", "2020-01-02 03:04:05.678", "2020-01-02", "2020-13-02 03:04:05", "2020-01-02T03:04:05", "0000-01-01 00:00:00", "9999-12-31 23:59:59", "é", "١٢٣", "１２"]


def val(v):
    return sqlfmt.canon(v)


def check(run):
    rng = random.Random(run.seed)
    check_obligations(run)
    quick = run.tier == "quick"
    values = [None] + INTS + FLOATS + TEXTS + [t.encode() for t in TEXTS[:40]] + [b"", b"\x00", b"\xff\xfe", b"31", bytes(range(256))]
    lines = []
    # every (value, destination) pair, and the missing column
    for v in values:
        for d in DESTS:
            lines.append(("g%d" % len(lines), d, val(v)))
    for d in DESTS:
        lines.append(("g%d" % len(lines), d, "-"))
    # argument lists of every length relative to the row width; the first failing destination ends the call
    for _ in range(300 if quick else 5000):
        n = rng.randint(0, 6)
        row = [rng.choice(values) for _ in range(rng.randint(0, 5))]
        ds = [rng.choice(DESTS) for _ in range(n)] or ["s"]
        lines.append(("m%d" % len(lines), ",".join(ds), ",".join(val(v) for v in row) or "-"))
    ilines = [(cid, "rowscan %s %s" % (d, r)) for cid, d, r in lines]
    res, impl, _ = ops.run_cmds("c18-impl", ilines, sides=("impl",), timeout=600)
    mlines, exp = [], {}
    for cid, d, r in lines:
        out = (impl.get(cid) or ["?"])[0]
        run.count()
        if "PANIC" in out or out == "?":
            run.violation("Row.Scan panics: Scan(%s) on row %s" % (d, r[:80]), {"kind": "panic", "dests": d, "row": r, "impl": out[:200]})
            continue
        f = out.split(" ")
        status, got = f[0], f[1] if len(f) > 1 else ""
        orc = out[out.index("oracle=") + 7:] if "oracle=" in out else "-"
        if "rowunchanged=true" not in out:
            run.violation("Row.Scan changed the row: Scan(%s) on %s" % (d, r[:80]), {"kind": "row-modified", "dests": d, "row": r, "impl": out[:300]})
        mlines.append((cid, "mscan %s %s %s" % (d, r, orc or "-")))
        exp[cid] = (status, got, d, r)
    res2, _, model = ops.run_cmds("c18-model", mlines, sides=("model",), timeout=600)
    kinds = {}
    for cid, (status, got, d, r) in exp.items():
        m = (model.get(cid) or ["?"])[0].split(" ")
        mstatus, mgot = m[0], m[1] if len(m) > 1 else ""
        # on error Go has written the destinations before the failing one; the ones after keep their zero value: compare the prefix
        if status != mstatus or (status == "ok" and got != mgot) or (status == "err" and not got.startswith(mgot.rstrip(","))):
            run.violation("Scan(%s) on row %s: implementation %s %s, the documented conversion table (model) gives %s %s" % (d, r[:60], status, got[:80], mstatus, mgot[:80]),
                          {"kind": "impl-vs-model", "dests": d, "row": r, "impl": status + " " + got, "model": " ".join(m)})
        run.nontrivial("%s|%s" % (d, r))
        kinds[status] = kinds.get(status, 0) + 1
    # copies: scan []byte / string, scribble over the bytes, read again through the same handle; close; compare
    wd = os.path.join(core.WORK, "c18")
    shutil.rmtree(wd, ignore_errors=True)
    os.makedirs(wd, exist_ok=True)
    alias = 0
    for u in (512, 4096, 16384, 65536):
        path = os.path.join(wd, "blob-%d.db" % u)
        c = sqlfmt.new_db(path, u)
        c.execute("CREATE TABLE t(a, b)")
        sizes = [0, 1, 100, u // 3, u - 40, u - 35 - 8, 6000 if u > 8192 else 300, 20000, 5 * u + 1, u + 50, 3 * u, 2 * u + 7, u + 9]    # several overflowing ones, not in order of size
        for n, sz in enumerate(sizes):
            c.execute("INSERT INTO t VALUES(?, ?)", (n, bytes([(n * 7 + i) % 251 for i in range(sz)])))
        c.execute("INSERT INTO t VALUES(?, ?)", (100, "text" * 50))
        # the same placements as TEXT (a scanned string, like a scanned []byte, is the caller's own)
        c.execute("CREATE TABLE s(a, b TEXT)")
        for n, sz in enumerate(sizes):
            c.execute("INSERT INTO s VALUES(?, ?)", (n, "".join(chr(97 + (n * 7 + i) % 26) for i in range(sz))))
        c.close()
        for pager, tab in (("db", "t"), ("fopen", "t"), ("db", "s"), ("fopen", "s")):
            seq = [("open", "%s %s" % (pager, path)), ("m", "scanmut %s b" % tab)]
            r3, i3, _ = ops.run_cmds("c18-alias", seq, sides=("impl",), timeout=300)
            out = i3.get("m") or ["?"]
            run.count(); alias += 1
            if out[-1] != "scanmut ok":
                run.violation("a scanned []byte is not an independent copy (page size %d, %s pager): %s" % (u, "in-memory" if pager == "db" else "file", out[-1][:200]),
                              {"kind": "aliasing", "db": path, "impl": out[-3:]})
            run.nontrivial("alias/%d/%s" % (u, pager))
    if res["impl"][0] != 0 or res2["model"][0] != 0:
        run.violation("harness died", {"no_failing_input_found": True, "broken": "harness execution", "stderr": res["impl"][2][-300:] + res2["model"][2][-300:]})
    run.cov["traces_validated_against_impl"] = len(exp) + alias
    run.cov["rule"] = ("every (stored value, destination) pair over a grid - NULL, int64 extremes and 2^31/2^32/2^53 neighbours, doubles incl. +-0, +-Inf, NaN, 2^63, out-of-range, integer "
                       "and numeric-looking and malformed text and the same bytes as blobs (signs, spaces, underscores, hex, exponents, huge, non-ASCII digits), time layouts; x string, "
                       "[]byte, int64, int32, int, bool, float64, time.Time, nil, an unsupported pointer; the missing column; random argument lists of every length relative to the row "
                       "width. The implementation's result is compared with the extracted conversion table (strconv.FormatFloat / ParseFloat and time.Parse answers are recorded by the "
                       "harness and given to the model); the row must be unchanged. Copies: on 512..65536-byte pages blobs of every placement (inline small / large, overflowing) are "
                       "scanned into []byte, overwritten, re-read through the same handle, the handle closed, and compared. non-trivial = distinct (destinations, row) cases")
    run.cov["distribution"] = {"grid_values": len(values), "cases": len(exp), "outcomes": kinds, "alias_histories": alias}
    for cid, d, r in lines[40:43]:
        run.sample({"dests": d, "row": r, "impl": " ".join(exp.get(cid, ("?", "?"))[:2])})
    run.assumptions += ["amd64: int is 64 bits, int64(float64) of NaN / out-of-range values is -2^63 (CVTTSD2SI)"]


def replay(run, path):
    import json
    r = json.load(open(path))
    if "dests" not in r:
        print(json.dumps(r)[:800]); return
    res, impl, _ = ops.run_cmds("c18-replay", [("x", "rowscan %s %s" % (r["dests"], r["row"]))], sides=("impl",))
    print("impl:", impl.get("x")); print("model:", r.get("model"))
