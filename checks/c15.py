"""C15 - unsupported or invalid database headers are refused, valid ones accepted"""
import os, random, sqlite3, struct
from vlib import core, sqlfmt
from checks.common import check_obligations
from checks import ops

LEGAL = sqlfmt.LEGAL_PAGE_SIZES


def make_base(wd, u, name=None, pragmas=(), fmt_legacy=False):
    path = os.path.join(wd, name or ("base-%d.db" % u))
    c = sqlfmt.new_db(path, u, extra_pragmas=pragmas)
    c.execute("CREATE TABLE t(a, b)")
    c.execute("CREATE INDEX t_a ON t(a)")
    c.executemany("INSERT INTO t VALUES(?, ?)", [(i, "row%d" % i) for i in range(40)])
    c.execute("PRAGMA user_version = 77")
    c.execute("PRAGMA application_id = 1234567")
    c.close()
    return path


def classify(base, off, val):
    """'accept' | 'reject' | None (the property leaves it open) for base header with byte off := val"""
    h = bytearray(base)
    h[off] = val
    if val == base[off]:
        return "accept"
    if off < 16:
        return "reject"
    if off in (16, 17):
        s = struct.unpack(">H", h[16:18])[0]
        s = 65536 if s == 1 else s
        return "accept" if s in LEGAL else "reject"
    if off == 18:
        return "accept" if val in (1, 2) else None
    if off == 19:
        return "reject"
    if off == 20:
        return "reject"
    if off in (21, 22, 23):
        return None
    if 44 <= off < 48:
        f = struct.unpack(">I", h[44:48])[0]
        return "accept" if f in (2, 3, 4) else "reject" if f > 4 else None
    if 56 <= off < 60:
        e = struct.unpack(">I", h[56:60])[0]
        return "accept" if e == 1 else "reject" if e in (2, 3) else None
    if 72 <= off < 92:
        return None
    return "accept"


def check(run):
    rng = random.Random(run.seed)
    check_obligations(run)
    quick = run.tier == "quick"
    wd = os.path.join(core.WORK, "c15")
    os.makedirs(wd, exist_ok=True)
    bases = {u: make_base(wd, u) for u in LEGAL}
    lines, meta = [], {}
    dist = {"sweep_cases": 0, "pagesize_values": 0, "unconstrained_skipped": 0, "end_to_end": 0, "retransaction": 0}
    # 1. single byte sweep of the 100-byte header
    for u, path in bases.items():
        base = open(path, "rb").read(100)
        exhaustive = (u in (512, 65536)) or not quick
        for off in range(100):
            vals = range(256) if exhaustive else sorted(set([0, 1, 2, 3, 4, 5, 64, 32, 128, 255, base[off], base[off] ^ 1] + [rng.randrange(256) for _ in range(6)]))
            for v in vals:
                cl = classify(base, off, v)
                if cl is None:
                    dist["unconstrained_skipped"] += 1
                    continue
                h = bytearray(base); h[off] = v
                cid = "s/%d/%d/%d" % (u, off, v)
                lines.append((cid, "header " + bytes(h).hex()))
                meta[cid] = (cl, u, off, v)
                dist["sweep_cases"] += 1
    # 2. every value of the page size field
    base = open(bases[4096], "rb").read(100)
    for s in range(0, 65536, 1 if not quick else 1):
        h = bytearray(base); h[16:18] = struct.pack(">H", s)
        real = 65536 if s == 1 else s
        cid = "p/%d" % s
        lines.append((cid, "header " + bytes(h).hex()))
        meta[cid] = ("accept" if real in LEGAL else "reject", real, 16, s)
        dist["pagesize_values"] += 1
    res, impl, model = ops.run_cmds("c15-sweep", lines, timeout=1500)
    for cid, cmd in lines:
        run.count()
        cl, u, off, v = meta[cid]
        i, m = impl.get(cid) or ["?"], model.get(cid) or ["?"]
        got = "accept" if i[0].startswith("ok ") else "reject" if i[0].startswith("err ") else "?"
        if got != cl:
            run.violation("header byte %d = %d (page size %s): %sed, must be %sed" % (off, v, u, got, cl),
                          {"kind": "impl-vs-format", "command": cmd, "impl": i, "expected": cl, "offset": off, "value": v})
        else:
            mg = "accept" if m[0].startswith("ok ") else "reject"
            if mg != got or (got == "accept" and m != i):
                run.violation("header: model and implementation differ at byte %d = %d" % (off, v),
                              {"no_failing_input_found": True, "broken": "correspondence parseHeader", "command": cmd, "impl": i, "model": m})
        run.nontrivial(cid)
    # 3. end to end: real files of every page size, with harmless fields set, auto-vacuum; WAL, UTF-16, format 1
    e2e = []
    for u, path in bases.items():
        e2e.append((path, "accept", "page size %d" % u))
    e2e.append((make_base(wd, 1024, "av.db", pragmas=("PRAGMA auto_vacuum=FULL",)), "accept", "auto_vacuum=FULL"))
    e2e.append((make_base(wd, 4096, "utf16le.db", pragmas=("PRAGMA encoding='UTF-16le'",)), "reject", "UTF-16le"))
    e2e.append((make_base(wd, 4096, "utf16be.db", pragmas=("PRAGMA encoding='UTF-16be'",)), "reject", "UTF-16be"))
    walp = make_base(wd, 4096, "wal.db")
    c = sqlite3.connect(walp, isolation_level=None)
    c.execute("PRAGMA journal_mode=WAL"); c.execute("PRAGMA wal_autocheckpoint=0")
    c.executemany("INSERT INTO t VALUES(?, ?)", [(1000 + i, "wal%d" % i) for i in range(30)])
    walcopy = os.path.join(wd, "walcopy.db")       # copy while the WAL still holds unmerged content
    import shutil
    shutil.copyfile(walp, walcopy)
    if os.path.exists(walp + "-wal"):
        shutil.copyfile(walp + "-wal", walcopy + "-wal")
    c.close()
    e2e.append((walcopy, "reject", "WAL mode with unmerged WAL content"))
    lines2 = []
    for n, (path, cl, what) in enumerate(e2e):
        conn = sqlite3.connect(path)
        root = sqlfmt.root_of(conn, "t")
        exp = ["row %d %s" % (r[0], sqlfmt.canon_rec(r[1:])) for r in conn.execute("SELECT rowid, a, b FROM t ORDER BY rowid")] if cl == "accept" else None
        conn.close()
        lines2.append(("e/%d" % n, "db %s\nscan %d 0" % (path, root)))
        meta["e/%d" % n] = (cl, what, exp, path)
    res2, impl2, model2 = ops.run_cmds("c15-e2e", lines2, timeout=600)
    for cid, cmd in lines2:
        run.count(); dist["end_to_end"] += 1
        cl, what, exp, path = meta[cid]
        i = impl2.get(cid) or []
        if cl == "accept":
            if i != ["open ok %d" % sqlfmt.page_size_of(path)] + exp + ["end ok"]:
                run.violation("a valid database (%s) is not read correctly: %s" % (what, i[:2] + i[-1:]), {"kind": "impl-vs-sqlite", "db": path, "command": cmd, "impl": i[:5]})
        else:
            if not i or not i[0].startswith("open err") or any(l.startswith("row ") for l in i):
                run.violation("an unsupported database (%s) is not refused: %s" % (what, i[:3]), {"kind": "impl-vs-format", "db": path, "command": cmd, "impl": i[:5]})
        mm = model2.get(cid) or []
        if (mm[:1] != i[:1]) if cl == "reject" else (mm != i):
            run.violation("end to end (%s): model and implementation differ" % what, {"no_failing_input_found": True, "broken": "correspondence open", "db": path, "impl": i[:3], "model": (model2.get(cid) or [])[:3]})
        run.nontrivial(cid)
    # 4. the header is re-validated for every transaction, and for every call while it stays invalid
    good = bases[1024]
    conn = sqlite3.connect(good); root = sqlfmt.root_of(conn, "t"); conn.close()
    hdr = open(good, "rb").read(100)
    bads = [("read version 2 (WAL)", 19, "02"), ("text encoding UTF-16le", 56, "00000002"), ("reserved space 8", 20, "08"), ("magic", 0, "58"),
            ("schema format 5", 44, "00000005"), ("page size 1000", 16, "03e8"), ("read version 3", 19, "03")]
    seq = [("open", "db %s" % good), ("r0", "rlock"), ("s0", "scan %d 0" % root), ("u0", "runlock")]
    expect = {"s0": "ok"}
    for n, (what, off, hx) in enumerate(bads):
        orig = hdr[off:off + len(hx) // 2].hex()
        seq += [("p%d" % n, "poke %d %s" % (off, hx)), ("r%da" % n, "rlock"), ("s%da" % n, "scan %d 0" % root), ("s%db" % n, "scan %d 0" % root), ("m%d" % n, "master"),
                ("u%da" % n, "runlock"), ("q%d" % n, "poke %d %s" % (off, orig)), ("r%dc" % n, "rlock"), ("s%dc" % n, "scan %d 0" % root), ("u%dc" % n, "runlock")]
        expect.update({"s%da" % n: "err", "s%db" % n: "err", "m%d" % n: "err", "s%dc" % n: "ok"})
        meta["s%da" % n] = meta["s%db" % n] = meta["m%d" % n] = meta["s%dc" % n] = what
    # 5. ... and for the FIRST transaction of a handle too: what was validated when the handle was opened says nothing about
    # the file by the time it is first used (the header changes between open and the first read lock)
    for n, (what, off, hx) in enumerate(bads):
        seq += [("fo%d" % n, "db %s" % good), ("fp%d" % n, "poke %d %s" % (off, hx)), ("fr%d" % n, "rlock"), ("fs%d" % n, "scan %d 0" % root), ("fm%d" % n, "master"),
                ("fu%d" % n, "runlock")]
        expect.update({"fs%d" % n: "err", "fm%d" % n: "err"})
        meta["fs%d" % n] = meta["fm%d" % n] = what + " (between open and the handle's first transaction)"
    # 6. ... and after a transaction that could not even start (the read lock was refused: a writer held the file): the next
    # transactions validate the header as always
    for n, (what, off, hx) in enumerate(bads):
        seq += [("lo%d" % n, "db %s" % good), ("lr%d" % n, "rlock"), ("ls%d" % n, "scan %d 0" % root), ("lu%d" % n, "runlock"),
                ("lf%d" % n, "lockfail on"), ("lx%d" % n, "rlock"), ("ly%d" % n, "scan %d 0" % root), ("lg%d" % n, "lockfail off"),
                ("la%d" % n, "rlock"), ("lb%d" % n, "scan %d 0" % root), ("lc%d" % n, "runlock"),
                ("lp%d" % n, "poke %d %s" % (off, hx)), ("ld%d" % n, "rlock"), ("le%d" % n, "scan %d 0" % root), ("lm%d" % n, "master"), ("lh%d" % n, "runlock")]
        expect.update({"ls%d" % n: "ok", "lb%d" % n: "ok", "le%d" % n: "err", "lm%d" % n: "err"})
        for k_ in ("ls", "lb", "le", "lm"):
            meta["%s%d" % (k_, n)] = what + " (after a read lock that was refused)"
    res3, impl3, _ = ops.run_cmds("c15-retxn", seq, timeout=300, sides=("impl",))
    for cid, exp in expect.items():
        run.count(); dist["retransaction"] += 1
        i = impl3.get(cid) or []
        ok = bool(i) and i[-1] == "end ok" and len(i) > 1
        err = bool(i) and i[-1].startswith("end err") and not any(l.startswith(("row ", "obj ")) for l in i)
        if (exp == "ok" and not ok) or (exp == "err" and not err):
            run.violation("header changed to %s between transactions: call %s gives %s, expected %s" % (meta.get(cid), cid, i[-1:], exp),
                          {"kind": "impl-vs-expected", "db": good, "sequence": [c for _, c in seq], "call": cid, "impl": i[-2:]})
        run.nontrivial("retxn/" + cid)
    for r in (res, res2, res3):
        if r["impl"][0] != 0 or r["model"][0] != 0:
            run.violation("harness died", {"no_failing_input_found": True, "broken": "harness execution", "stderr": r["impl"][2][-300:] + r["model"][2][-300:]})
    run.cov["traces_validated_against_impl"] = len(lines) + len(lines2) + len(expect)
    run.cov["exhaustive"] = not quick
    run.cov["rule"] = ("every header byte x every value 0..255 on top of SQLite-written headers of page size 512 and 65536 (all 8 legal sizes in thorough; a value sample for the others "
                       "in quick), classified by the file format as must-accept / must-reject / left open (left-open cases are not judged); all 65536 values of the page size field; "
                       "end to end: SQLite-written files of every legal page size (65536 included), auto-vacuum, user_version/application_id set, real WAL with unmerged content, "
                       "UTF-16le/be; the header rewritten under an open handle between transactions (7 invalid variants): every call of the transaction must fail, the next one "
                       "after restoring must succeed. parseHeader vs the format's verdict and vs the extracted Coq model. non-trivial = distinct cases")
    run.cov["distribution"] = dist
    for cid, cmd in lines[300:303]:
        run.sample({"command": cmd[:60] + "...", "must": meta[cid][0], "offset": meta[cid][2], "value": meta[cid][3]})
    run.assumptions += ["SQLite 3.40.1 (python3 sqlite3) writes the base files"]


def replay(run, path):
    import json
    r = json.load(open(path))
    if "sequence" in r:
        res, impl, model = ops.run_cmds("c15-replay", [("c%d" % n, c) for n, c in enumerate(r["sequence"])], sides=("impl",))
        for k, v in impl.items():
            print(k, v[-2:])
        return
    if "command" not in r:
        print("nothing to replay:", r.get("broken")); return
    res, impl, model = ops.run_cmds("c15-replay", [("x", r["command"])])
    print("impl :", impl.get("x")); print("model:", model.get("x")); print("expected:", r.get("expected"))
