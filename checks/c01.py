"""C01 - table scan returns exactly the table's rows, values and order"""
import random
from vlib import core, sqlfmt, dbgen
from checks.common import check_obligations
from checks import ops, hl


def column_lists(rng, t, quick):
    cols = [hl.unq(c) for c in t["cols"]]
    sqlc = list(t["cols"])
    out = [(cols, sqlc), (cols[::-1], sqlc[::-1])]
    for n in range(len(cols)):
        out.append(([cols[n]], [sqlc[n]]))
    for _ in range(3 if quick else 12):
        k = rng.randint(1, len(cols))
        idx = [rng.randrange(len(cols)) for _ in range(k)]          # repeats allowed
        out.append(([cols[i] for i in idx], [sqlc[i] for i in idx]))
    # case variants of the names
    # SQLite folds the case of ASCII letters only: 'É' and 'é' are different identifiers
    out.append((["".join(ch.upper() if ch.isascii() else ch for ch in c) for c in cols], sqlc))
    if t["kind"] != "norowid":
        for r in ("rowid", "ROWID", "oid", "_rowid_", "_RowId_"):
            out.append(([r] + cols[:1], [r] + sqlc[:1]))       # the same spelling on both sides: an ordinary column of that name wins over the pseudo column
        out.append((cols + ["rowid"], sqlc + ["rowid"]))
    return out


def check(run):
    rng = random.Random(run.seed)
    check_obligations(run)
    quick = run.tier == "quick"
    dbs = dbgen.corpus(run, "c01", deep_rows=2500 if quick else None)
    dumps = hl.schemas(dbs, "c01-schema")
    lines, meta = [], {}
    for i, db in enumerate(dbs):
        lines.append(("open%d" % i, "db %s" % db.path))
        conn = db.conn()
        for name, t in db.tables.items():
            dump = dumps.get((i, name))
            if dump is None:
                run.violation("db.Schema(%s) failed on a SQLite-written table" % name,
                              {"kind": "schema-error", "db": db.path, "table": name})
                continue
            order = hl.table_order(db, name)
            for cols, sqlc in column_lists(rng, t, quick):
                cid = "%d/%s/%d" % (i, name, len(lines))
                cmd = "hselect %s %s 0 %s" % (dump, hl.hx(name), hl.names(cols))
                exp = conn.execute("SELECT %s FROM %s ORDER BY %s" % (hl.sql_cols(sqlc), name, order)).fetchall()
                lines.append((cid, cmd))
                meta[cid] = (db, exp, ["end ok", hl.LOCKS], "Select(%s; %s)" % (name, ",".join(cols)))
            # unknown column, unknown table: an error, never rows
            cid = "%d/%s/nocol" % (i, name)
            lines.append((cid, "hselect %s %s 0 %s" % (dump, hl.hx(name), hl.names([hl.unq(t["cols"][0]), "nosuchcolumn"]))))
            meta[cid] = (db, [], None, "Select with an unknown column")
        conn.close()
    res, impl, model = ops.run_cmds("c01-select", lines, timeout=1500, shards=8)
    shapes = {}
    for cid, cmd in lines:
        if cid not in meta:
            continue
        db, exp, tail, what = meta[cid]
        if tail is None:
            run.count()
            i = impl.get(cid) or []
            if any(l.startswith("row ") for l in i) or not any(l.startswith("end err") for l in i):
                run.violation("%s did not fail cleanly: %s" % (what, i[:3]), {"kind": "impl-vs-expected", "db": db.path, "command": cmd, "impl": i[:10]})
            elif model.get(cid) != i:
                run.violation("%s: model and implementation differ" % what,
                              {"no_failing_input_found": True, "broken": "correspondence High/hselect", "command": cmd, "impl": i[:5], "model": (model.get(cid) or [])[:5]})
            continue
        hl.judge(run, cid, cmd, db, impl, model, exp, tail, what)
        if len(exp) > 0:
            run.nontrivial(cmd)
    if res["impl"][0] != 0 or res["model"][0] != 0:
        run.violation("harness died: impl rc=%s model rc=%s %s %s" % (res["impl"][0], res["model"][0], res["impl"][2][-200:], res["model"][2][-200:]),
                      {"no_failing_input_found": True, "broken": "harness execution"})
    run.cov["traces_validated_against_impl"] = len(meta)
    run.cov["rule"] = ("every table of the SQLite-written corpus (rowid, INTEGER PRIMARY KEY, WITHOUT ROWID incl. PK not first / other-case spelling, "
                       "ALTER ADD COLUMN defaults, depth up to 3-4 on 512-byte pages, overflow chains, churned pages) x column lists "
                       "(all, reversed, singles, random with repeats, other-case names, rowid/oid/_rowid_): Select vs SQLite's "
                       "SELECT ... ORDER BY rowid|primary key (integral REAL = integer allowed) and vs the extracted Coq model. "
                       "non-trivial = distinct commands returning >= 1 row")
    run.cov["distribution"] = {"corpus": dbgen.describe(dbs), "cases": len(meta)}
    for cid, cmd in [l for l in lines if l[0] in meta][:3]:
        run.sample({"command": cmd[:300], "sqlite_rows": len(meta[cid][1])})
    run.assumptions += ["SQLite 3.40.1 (python3 sqlite3) is the writer and the oracle", "column names in the corpus are ASCII"]


def replay(run, path):
    import json
    r = json.load(open(path))
    if "command" not in r or "db" not in r:
        print("nothing to replay:", r.get("broken")); return
    res, impl, model = ops.run_cmds("c01-replay", [("open", "db " + r["db"]), ("x", r["command"])])
    print("impl :", (impl.get("x") or [])[:20]); print("model:", (model.get("x") or [])[:20]); print("sqlite:", r.get("sqlite_rows"))
