"""C09 - a crashed writer's unfinished transaction is never read as data"""
import os, random, re, shutil, sqlite3, subprocess, sys
from vlib import core, sqlfmt
from checks.common import check_obligations
from checks import hl

WRITER = r'''
import sqlite3, sys
path, mode = sys.argv[1], sys.argv[2]
if len(sys.argv) > 3 and sys.argv[3] == "psow0":
    # without powersafe overwrite SQLite works with 4096-byte sectors: journal headers fill a whole sector
    c = sqlite3.connect("file:%s?psow=0" % path, uri=True, isolation_level=None)
else:
    c = sqlite3.connect(path, isolation_level=None)
c.execute("PRAGMA journal_mode=%s" % mode)
if "syncoff" in sys.argv[3:]:
    # no syncs at all: the journal header is written up front with the record count -1 ("derive it from the file size")
    c.execute("PRAGMA synchronous=OFF")
c.execute("PRAGMA cache_size=5")          # dirty pages spill into the file before COMMIT
c.execute("BEGIN")
c.execute("UPDATE t SET b = 'NEW-' || b")
c.execute("INSERT INTO t VALUES(99999, 'NEW-row')")
c.execute("DELETE FROM t WHERE a % 10 = 3")
c.execute("COMMIT")
c.close()
'''


def make_base(path, page_size, rows):
    c = sqlfmt.new_db(path, page_size)
    c.execute("CREATE TABLE t(a, b)")
    c.execute("CREATE INDEX t_b ON t(b)")
    c.execute("BEGIN")
    for i in range(rows):
        c.execute("INSERT INTO t VALUES(?, ?)", (i, "old%d" % i))
    c.execute("COMMIT")
    c.close()


def run_writer(py, wd, db, mode, inject=None, log=None, extra=()):
    """run the writer under strace; inject = (syscall, k): SIGKILL on entering its k-th call on the two files"""
    cmd = ["strace", "-f", "-P", db, "-P", db + "-journal", "-e", "trace=pwrite64,fdatasync,fsync,ftruncate,unlink,unlinkat"]
    if log:
        cmd += ["-o", log, "-xx", "-y", "-s", "70000"]
    else:
        cmd += ["-o", "/dev/null"]
    if inject:
        cmd += ["-e", "inject=%s:signal=SIGKILL:when=%d" % inject]
    cmd += [py, os.path.join(wd, "writer.py"), db, mode] + list(extra)
    p = subprocess.run(cmd, stdout=subprocess.PIPE, stderr=subprocess.PIPE, timeout=120)
    return p.returncode


class Unreadable(Exception):
    pass


def sqlite_view(db):
    """what real SQLite reports for a (db, journal) pair after its own recovery - on a copy"""
    tmp = db + ".oracle"
    shutil.copyfile(db, tmp)
    if os.path.exists(db + "-journal"):
        shutil.copyfile(db + "-journal", tmp + "-journal")
    try:
        c = sqlite3.connect(tmp)
        try:
            rows = c.execute("SELECT a, b FROM t ORDER BY rowid").fetchall()
            ok = c.execute("PRAGMA integrity_check").fetchone()[0]
        except sqlite3.DatabaseError as e:
            return None, "sqlite: %s" % e
        finally:
            c.close()
        return rows, ok
    finally:
        for f in (tmp, tmp + "-journal"):
            if os.path.exists(f):
                os.remove(f)


def read_both(db, want_model=True):
    """sqlittle through the real pager (fresh handle), and the extracted handle-state model on the same pair"""
    lines = [("open", "fopen %s" % db), ("sel", "select t 0 a,b"), ("idx", "iselect t t_b a,b")]
    res, impl, _ = hl.ops.run_cmds("c09-impl", lines, sides=("impl",))
    j = db + "-journal"
    mlines = [("s", "store model"), ("j", "jfile %s" % (j if os.path.exists(j) else "-")), ("open", "db %s" % db), ("r", "rlock"), ("sel", "scan 2 0")]
    model = {}
    if want_model:
        _, _, model = hl.ops.run_cmds("c09-model", mlines, sides=("model",))
    return impl, model


def judge(run, what, db, dist, pre, post, want_model=True):
    run.count()
    srows, integrity = sqlite_view(db)
    impl, model = read_both(db, want_model)
    out = impl.get("sel") or []
    rows = [l for l in out if l.startswith("row ")]
    failed = (impl.get("open") or ["?"])[0].startswith("open err") or any(l.startswith("end err") for l in out)
    if srows is None:
        run.notes.append("%s: real SQLite cannot read the pair either (%s); not judged" % (what, integrity))
        return
    state = "pre" if srows == pre else "post" if srows == post else "other"
    dist["sqlite_reports"][state] = dist["sqlite_reports"].get(state, 0) + 1
    dist["sqlittle"]["error" if failed and not rows else "rows"] = dist["sqlittle"].get("error" if failed and not rows else "rows", 0) + 1
    if integrity != "ok" or state == "other":
        run.notes.append("%s: SQLite itself reports an unexpected state (%s, integrity %s)" % (what, state, integrity))
    if rows or not failed:
        d = hl.same_rows(out, srows)
        if d or failed:
            keep = os.path.join(core.VERIF, "replays", "C09-" + re.sub(r"\W+", "-", what) + ".db")
            os.makedirs(os.path.dirname(keep), exist_ok=True)
            shutil.copyfile(db, keep)
            if os.path.exists(db + "-journal"):
                shutil.copyfile(db + "-journal", keep + "-journal")
            run.violation("%s: sqlittle returns %d rows%s that are not what SQLite reports after recovery (%s)" % (what, len(rows), " and an error" if failed else "", d),
                          {"kind": "crash-state-read-as-data", "db": keep, "what": what, "impl": out[:3] + out[-2:], "sqlite_rows": len(srows), "sqlite_state": state})
            return
    if failed and not rows and dist.get("with_other_reader", 0) < dist.get("other_reader_cap", 40):
        # the verdict on a crashed writer's files must not depend on who else is around: the same pair read while ANOTHER
        # process holds a SHARED lock (a reader that got in before the crash, a backup tool) is refused as well
        import fcntl
        from checks import lockutil
        fd = os.open(db, os.O_RDWR)
        try:
            fcntl.lockf(fd, fcntl.LOCK_SH | fcntl.LOCK_NB, lockutil.SHARED_SIZE, lockutil.SHARED_FIRST, 0)
            impl2, _ = read_both(db, False)
        finally:
            os.close(fd)
        dist["with_other_reader"] = dist.get("with_other_reader", 0) + 1
        out2 = impl2.get("sel") or []
        rows2 = [l for l in out2 if l.startswith("row ")]
        failed2 = (impl2.get("open") or ["?"])[0].startswith("open err") or any(l.startswith("end err") for l in out2)
        if rows2 or not failed2:
            d = hl.same_rows(out2, srows)
            if d or failed2:
                keep = os.path.join(core.VERIF, "replays", "C09-" + re.sub(r"\W+", "-", what) + ".db")
                os.makedirs(os.path.dirname(keep), exist_ok=True)
                shutil.copyfile(db, keep)
                if os.path.exists(db + "-journal"):
                    shutil.copyfile(db + "-journal", keep + "-journal")
                run.violation("%s, while another process holds a SHARED lock on the file: sqlittle returns %d rows that are not what SQLite reports after recovery (%s); alone it refuses the file" % (what, len(rows2), d),
                              {"kind": "crash-state-read-as-data", "db": keep, "what": what, "other_process": "fcntl read lock on the SHARED range", "impl": out2[:3] + out2[-2:], "sqlite_rows": len(srows), "sqlite_state": state})
                return
    # the handle-state model (journal check + header) must give the same verdict
    if want_model and model:
        mo = model.get("sel") or []
        mfailed = any(l.startswith("end err") for l in mo) or (model.get("open") or ["?"])[0].startswith("open err")
        if mfailed != (failed and not rows):
            run.violation("%s: the handle-state model %s, the implementation %s" % (what, "fails" if mfailed else "reads rows", "fails" if failed else "reads rows"),
                          {"no_failing_input_found": True, "broken": "correspondence DbState.journal_check / validJournal", "what": what, "impl": out[-2:], "model": mo[-2:]})
    run.nontrivial(what)


def check(run):
    rng = random.Random(run.seed)
    check_obligations(run)
    quick = run.tier == "quick"
    py = os.path.realpath(sys.executable)
    wd = os.path.join(core.WORK, "c09")
    shutil.rmtree(wd, ignore_errors=True)
    os.makedirs(wd, exist_ok=True)
    open(os.path.join(wd, "writer.py"), "w").write(WRITER)
    dist = {"kill_points": 0, "torn_writes": 0, "benign_journals": 0, "sqlite_reports": {}, "sqlittle": {}, "configs": []}
    configs = [("DELETE", 512, 300, ()), ("TRUNCATE", 1024, 300, ()), ("PERSIST", 512, 200, ()), ("DELETE", 1024, 200, ("psow0",)), ("DELETE", 512, 200, ("syncoff",))] if quick else \
              [(m, u, r, x) for m in ("DELETE", "TRUNCATE", "PERSIST") for u, r, x in ((512, 400, ()), (1024, 600, ()), (1024, 300, ("psow0",)), (4096, 1500, ()), (1024, 300, ("syncoff",)))]
    for mode, u, nrows, extra in configs:
        base = os.path.join(wd, "base-%s-%d.db" % (mode, u))
        make_base(base, u, nrows)
        if mode == "PERSIST":
            # a finished PERSIST transaction leaves a journal with a zeroed header behind: the usual state of such a database
            c = sqlite3.connect(base, isolation_level=None); c.execute("PRAGMA journal_mode=PERSIST"); c.execute("UPDATE t SET b = b WHERE rowid = 1"); c.close()
        c = sqlite3.connect(base)
        pre = c.execute("SELECT a, b FROM t ORDER BY rowid").fetchall()
        c.close()
        db = os.path.join(wd, "w.db")
        def fresh():
            for f in (db, db + "-journal"):
                if os.path.exists(f):
                    os.remove(f)
            shutil.copyfile(base, db)
            if os.path.exists(base + "-journal"):
                shutil.copyfile(base + "-journal", db + "-journal")
        # a complete run, logged: the system calls on the two files, with the data of every write
        fresh()
        log = os.path.join(wd, "trace.txt")
        run_writer(py, wd, db, mode, log=log, extra=extra)
        c = sqlite3.connect(db); post = c.execute("SELECT a, b FROM t ORDER BY rowid").fetchall(); c.close()
        calls = []
        for l in open(log, errors="replace"):
            m = re.match(r"\d+\s+(\w+)\((.*)", l)
            if m and m.group(1) in ("pwrite64", "fdatasync", "fsync", "ftruncate", "unlink", "unlinkat"):
                calls.append((m.group(1), l))
        counts = {}
        for name, _ in calls:
            counts[name] = counts.get(name, 0) + 1
        # the observed order of operations against the protocol the crash theorem assumes (Model/Crash.v phases)
        toks, jlen = [], 0
        for name, l in calls:
            m = re.match(r'\d+\s+(\w+)\((?:\d+<([^>]*)>)?(.*)', l)
            pth = m.group(2) or ""
            pth = bytes.fromhex(pth.replace("\\x", "")).decode("latin1") if pth.startswith("\\x") else pth
            isj = pth.endswith("-journal")
            if name == "pwrite64":
                mm = re.match(r', "((?:\\x[0-9a-f]{2})*)"(?:\.\.\.)?, (\d+), (\d+)\)', m.group(3))
                data = bytes.fromhex(mm.group(1).replace("\\x", "")); size, off = int(mm.group(2)), int(mm.group(3))
                if not isj:
                    toks.append("D")
                elif off == 0 and size >= 28 and "C" not in toks:
                    toks.append("C")
                elif off == 0 and size == 12:
                    toks.append("M")
                elif off == 0 and data[:28] == b"\0" * 28 and "M" in toks:
                    toks.append("Z")
                elif off >= jlen:
                    toks.append("A")
                else:
                    toks.append("O:%d" % off)
                if isj:
                    jlen = max(jlen, off + size)
            elif name in ("fdatasync", "fsync"):
                toks.append("S" if isj else "Y")
            elif name == "ftruncate":
                toks.append("T")
            elif name in ("unlink", "unlinkat"):
                toks.append("X")
        _, _, mo = hl.ops.run_cmds("c09-phases", [("ph", "crashphases " + " ".join(toks))], sides=("model",))
        dist.setdefault("protocol_order", []).append({"mode": mode, "ops": len(toks), "model_phase": (mo.get("ph") or ["?"])[0]})
        if "syncoff" in extra:
            # PRAGMA synchronous=OFF is outside the protocol Model/Crash.v describes (no syncs, the journal is hot from its
            # first write): its kill points are judged by SQLite's own recovery only
            dist["protocol_order"][-1]["note"] = "synchronous=OFF: not matched against the automaton"
        elif (mo.get("ph") or ["?"])[0] != "done":
            run.violation("the order of the writer's file operations (%s, page size %d) is not the protocol Model/Crash.v assumes: %s" % (mode, u, (mo.get("ph") or ["?"])[0]),
                          {"no_failing_input_found": True, "broken": "hypothesis wf_ops of C09_crash vs the real SQLite writer", "ops": " ".join(toks)[:3000]})
        dist["configs"].append({"mode": mode, "page_size": u, "rows": nrows, "sector": 4096 if "psow0" in extra else 512, "synchronous": "OFF" if "syncoff" in extra else "FULL", "syscalls": counts})
        judge(run, "%s/%d complete transaction" % (mode, u), db, dist, pre, post)
        # kill on entering the k-th call of every kind
        for name, n in counts.items():
            ks = list(range(1, n + 1))
            if quick and n > 14:
                ks = sorted(set(ks[:6] + ks[-5:] + rng.sample(ks, 5)))
            elif n > 120:
                ks = sorted(set(ks[:40] + ks[-30:] + rng.sample(ks, 50)))
            for k in ks:
                fresh()
                rc = run_writer(py, wd, db, mode, inject=(name, k), extra=extra)
                dist["kill_points"] += 1
                judge(run, "%s/%d killed at %s #%d" % (mode, u, name, k), db, dist, pre, post, want_model=(k % 3 == 0 or not quick))
                # a torn version of the write that was about to happen: its first half reaches the file
                if name == "pwrite64" and (k % 4 == 1 or not quick):
                    nth = [l for nm, l in calls if nm == "pwrite64"][k - 1]
                    m = re.match(r'\d+\s+pwrite64\(\d+<([^>]*)>, "((?:\\x[0-9a-f]{2})*)"(?:\.\.\.)?, (\d+), (\d+)\)', nth)
                    if m:
                        data = bytes.fromhex(m.group(2).replace("\\x", ""))
                        size, off = int(m.group(3)), int(m.group(4))
                        fpath = bytes.fromhex(m.group(1).replace("\\x", "")).decode("latin1") if m.group(1).startswith("\\x") else m.group(1)
                        target = db + "-journal" if fpath.endswith("-journal") else db
                        if os.path.exists(target) and len(data) == size:
                            half = data[:max(1, size // 2)]
                            with open(target, "r+b") as f:
                                f.seek(off); f.write(half)
                            dist["torn_writes"] += 1
                            judge(run, "%s/%d torn %s #%d (first %d of %d bytes)" % (mode, u, name, k, len(half), size), db, dist, pre, post, want_model=False)
        # ONE handle across the crash: it read before the writer started, the writer dies after spilling pages, it reads again
        npw = counts.get("pwrite64", 0)
        for k in sorted(set([npw // 3, npw // 2, (2 * npw) // 3, npw - 2, npw - 1, npw])):
            if k < 1:
                continue
            fresh()
            sess = core.Session(core.IMPLRUN)
            sess.cmd("fopen %s" % db)
            before = sess.cmd("selectrowid t 1 a,b")      # the header and a few pages are cached; most of the table is not
            run_writer(py, wd, db, mode, inject=("pwrite64", k), extra=extra)
            after = sess.cmd("select t 0 a,b")
            srows, _ = sqlite_view(db)
            # the history goes on: SQLite recovers the file in place (rolls the journal back), commits ONE more transaction, and the
            # same handle - which has seen the crashed state's header, refused or not - reads: SQLite's content, nothing older
            later, lrows = None, None
            try:
                c2 = sqlite3.connect(db, isolation_level=None)
                c2.execute("SELECT count(*) FROM t").fetchone()
                c2.execute("UPDATE t SET b = 'after-recovery' WHERE rowid IN (2, 3)")
                lrows = c2.execute("SELECT a, b FROM t ORDER BY rowid").fetchall()
                c2.close()
                later = sess.cmd("select t 0 a,b")
            except sqlite3.DatabaseError:
                pass
            sess.close()
            run.count()
            dist["long_lived"] = dist.get("long_lived", 0) + 1
            if later is not None and (hl.same_rows(later, lrows) or not any(l == "end ok" for l in later)):
                run.violation("%s/%d: a handle that met the state a writer left when it died at pwrite64 #%d reads, after SQLite's recovery and one more commit, %s"
                              % (mode, u, k, hl.same_rows(later, lrows) or "an error: %s" % later[-2:]), {"kind": "stale-after-recovery", "what": "long-lived handle: read; writer killed; read; SQLite recovers and commits once; read", "kill": k, "impl": later[:2] + later[-2:]})
                continue
            rows = [l for l in after if l.startswith("row ")]
            failed = any(l.startswith("end err") for l in after)
            if srows is not None and (rows or not failed) and (hl.same_rows(after, srows) or failed):
                run.violation("%s/%d: a handle that read before the writer started and reads again after the writer died at pwrite64 #%d returns %d rows that are not SQLite's recovered state"
                              % (mode, u, k, len(rows)), {"kind": "crash-state-read-as-data", "what": "long-lived handle across the crash", "kill": k, "impl": after[:2] + after[-2:]})
        # journals that must not prevent reading: absent, empty, zeroed header, shorter than a header, left over after a commit
        for label, content in (("absent", None), ("empty", b""), ("27 bytes", b"\x00" * 27), ("zeroed header", b"\x00" * 1024),
                               ("magic then zeros, shorter than a sector", bytes.fromhex("d9d505f920a163d7") + b"\x00" * 100)):
            fresh()
            if os.path.exists(db + "-journal"):
                os.remove(db + "-journal")
            if content is not None:
                open(db + "-journal", "wb").write(content)
            dist["benign_journals"] += 1
            run.count()
            impl, model = read_both(db)
            out = impl.get("sel") or []
            if hl.same_rows(out, pre) or not any(l == "end ok" for l in out):
                run.violation("%s/%d: a journal that is %s prevents reading (or changes what is read): %s" % (mode, u, label, out[-2:]),
                              {"kind": "benign-journal", "journal": label, "impl": out[:2] + out[-2:]})
    run.cov["traces_validated_against_impl"] = dist["kill_points"] + dist["torn_writes"]
    run.cov["rule"] = ("a real SQLite writer (python sqlite3, cache_size=5 so that dirty pages spill into the file before COMMIT) is killed with SIGKILL on entering the k-th pwrite64 / "
                       "fdatasync / ftruncate / unlink that touches the database or its journal (strace -P ... -e inject), for every k (a sample above 14 per kind in quick), under journal "
                       "modes DELETE, TRUNCATE and PERSIST and several page sizes; torn writes are synthesised by applying the first half of the write that was about to happen. For every "
                       "pair left behind: sqlittle through the real pager must fail or return exactly what real SQLite returns after its own recovery of a copy; the extracted handle-state "
                       "model (journal check) must give the same verdict. Plus journals that must not prevent reading. non-trivial = distinct crash states")
    run.cov["distribution"] = dist
    run.sample({"crash_state": "DELETE/512 killed at pwrite64 #20", "expected": "ErrHotJournal, or the rows SQLite reports after rolling the journal back"})
    run.assumptions += ["process death keeps completed writes in order (no power-loss reordering)", "SQLite 3.40.1's rollback-journal protocol; strace kill injection happens on syscall entry"]


def replay(run, path):
    import json
    r = json.load(open(path))
    print(json.dumps(r, indent=1)[:1200])
    if "db" in r:
        impl, model = read_both(r["db"])
        print("impl:", (impl.get("sel") or [])[-2:], "model:", (model.get("sel") or [])[-2:])
