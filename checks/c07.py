"""C07 - readers yield to writers and only ever see committed data"""
import os, random, shutil, sqlite3, subprocess, sys
from vlib import core, sqlfmt
from checks.common import check_obligations
from checks import lockutil as lk, hl


def make_db(path, rows=400):
    c = sqlfmt.new_db(path, 512)
    c.execute("CREATE TABLE t(a, b)")
    c.execute("CREATE INDEX t_a ON t(a)")
    c.execute("CREATE TABLE p(id INTEGER PRIMARY KEY, v)")
    c.execute("BEGIN")
    for i in range(rows):
        c.execute("INSERT INTO t VALUES(?, ?)", (i % 11, "committed%d" % i))
        c.execute("INSERT INTO p VALUES(?, ?)", (i, "p%d" % i))
    c.execute("COMMIT")
    c.close()


def outside_probe(path):
    """the lock table as a third process sees it (this process' own locks are invisible to itself)"""
    o = subprocess.run([sys.executable, os.path.join(core.VERIF, "checks", "lockutil.py"), "probe", path], stdout=subprocess.PIPE, timeout=30)
    return o.stdout.decode().strip()


class Parked:
    """a real SQLite connection (in this process) parked in a lock state"""

    def __init__(self, path, state):
        self.conns, self.state = [], state
        def conn(**kw):
            c = sqlite3.connect(path, timeout=0, isolation_level=None, **kw)
            self.conns.append(c)
            return c
        if state == "unlocked":
            pass
        elif state == "shared":
            a = conn(); self.cur = a.execute("SELECT * FROM t"); self.cur.fetchone()
        elif state in ("reserved", "reserved-journal"):
            b = conn()
            if state == "reserved-journal":
                b.execute("PRAGMA synchronous=OFF")      # the journal header reaches the disk before EXCLUSIVE
            b.execute("BEGIN IMMEDIATE")
            b.execute("UPDATE t SET b = 'UNCOMMITTED' WHERE rowid <= 3")
            b.execute("INSERT INTO t VALUES(999, 'UNCOMMITTED')")
        elif state == "pending":
            a = conn(); self.cur = a.execute("SELECT * FROM t"); self.cur.fetchone()
            b = conn()
            b.execute("BEGIN IMMEDIATE")
            b.execute("UPDATE t SET b = 'UNCOMMITTED' WHERE rowid <= 3")
            try:
                b.execute("COMMIT")            # blocked by the reader: SQLITE_BUSY, the PENDING lock stays
            except sqlite3.OperationalError:
                pass
        elif state == "exclusive":
            c = conn(); c.execute("BEGIN EXCLUSIVE"); c.execute("UPDATE t SET b = 'UNCOMMITTED' WHERE rowid <= 3")
        elif state == "exclusive-spilled":
            c = conn(); c.execute("PRAGMA cache_size=5"); c.execute("BEGIN")
            c.execute("UPDATE t SET b = 'UNCOMMITTED-' || b")     # more dirty pages than the cache holds: spilled to the file

    def try_commit(self):
        """the parked writer goes for EXCLUSIVE (COMMIT); True when it got it"""
        try:
            self.conns[-1].execute("COMMIT")
            return True
        except sqlite3.OperationalError:
            return False

    def release(self):
        for c in self.conns:
            try:
                c.execute("ROLLBACK")
            except sqlite3.OperationalError:
                pass
        self.cur = None
        for c in self.conns:
            c.close()

# the model's schedule that parks connection 0 in each state, and whether a reader is then admitted
MODEL = {"unlocked": "", "shared": "S1:0 S2:0 S3:0", "reserved": "S1:0 S2:0 S3:0 R:0", "reserved-journal": "S1:0 S2:0 S3:0 R:0",
         "pending": "S1:0 S2:0 S3:0 R:0 Pe:0", "exclusive": "S1:0 S2:0 S3:0 R:0 Pe:0 X:0", "exclusive-spilled": "S1:0 S2:0 S3:0 R:0 Pe:0 X:0 W:0"}
PROBE = {"unlocked": "pending=- reserved=- shared=-", "shared": "pending=- reserved=- shared=R", "reserved": "pending=- reserved=W shared=R",
         "reserved-journal": "pending=- reserved=W shared=R", "pending": "pending=W reserved=W shared=R", "exclusive": "pending=W reserved=W shared=W",
         "exclusive-spilled": "pending=W reserved=W shared=W"}


def check(run):
    rng = random.Random(run.seed)
    check_obligations(run)
    wd = os.path.join(core.WORK, "c07")
    shutil.rmtree(wd, ignore_errors=True)
    os.makedirs(wd, exist_ok=True)
    path = os.path.join(wd, "writer.db")
    make_db(path)
    c = sqlite3.connect(path)
    committed_t = c.execute("SELECT a, b FROM t ORDER BY rowid").fetchall()
    committed_p5 = c.execute("SELECT id, v FROM p WHERE id = 5").fetchall()
    committed_a3 = c.execute("SELECT a, b FROM t WHERE a = 3 ORDER BY a, rowid").fetchall()
    c.close()
    model = core.Session(core.MODELRUN)
    long_lived = core.Session(core.IMPLRUN)
    long_lived.cmd("fopen %s" % path)
    long_lived.cmd("select t 0 a,b")          # warm caches
    dist = {"states": {}, "reads": 0}
    ops = [("select t 0 a,b", committed_t), ("selectrowid p 5 id,v", committed_p5), ("iselecteq t t_a i3 a,b", committed_a3), ("pkselect p i5 id,v", committed_p5),
           ("iselect t t_a a,b", None), ("columns t", None)]
    for state in ("unlocked", "shared", "reserved", "reserved-journal", "pending", "exclusive", "exclusive-spilled", "unlocked"):
        # somebody commits between the long-lived handle's reads: what it has cached is stale now
        c = sqlite3.connect(path, isolation_level=None)
        c.execute("UPDATE t SET b = ? WHERE rowid IN (7, 8)", ("committed-before-%s-%d" % (state, dist["reads"]),))
        committed_t = c.execute("SELECT a, b FROM t ORDER BY rowid").fetchall()
        committed_a3 = c.execute("SELECT a, b FROM t WHERE a = 3 ORDER BY a, rowid").fetchall()
        c.close()
        ops[0] = (ops[0][0], committed_t); ops[2] = (ops[2][0], committed_a3)
        pk = Parked(path, state)
        seen = outside_probe(path)
        m = model.cmd(" ".join(("lock 1 1 %s L1:0 L2:0 L3:0 P:0" % MODEL[state]).split()))
        admitted = bool(m) and m[0].startswith("h0 locked")
        mrow = m[1].split(" ", 2)[2] if len(m) > 1 else "?"
        dist["states"][state] = {"third_process_sees": seen, "model_connection_row": mrow, "model_admits_reader": admitted}
        run.count()
        # the model's row for the parked connection: what the writer held before the reader's calls (the reader adds nothing to it)
        if seen != PROBE[state] or mrow != PROBE[state]:
            run.violation("lock state '%s': a third process sees [%s], the model's connection holds [%s], SQLite's protocol says [%s]" % (state, seen, mrow, PROBE[state]),
                          {"no_failing_input_found": True, "broken": "Model/Lock.v vs the real SQLite connection", "state": state, "probe": seen, "model": m})
        for who, sess in (("fresh handle", None), ("long-lived handle", long_lived)):
            s = sess or core.Session(core.IMPLRUN)
            if sess is None:
                o = s.cmd("fopen %s" % path)
                if admitted and o != ["open ok 512"]:
                    # opening reads the header without a lock: allowed to succeed in every state
                    pass
            for cmd, exp in ops:
                run.count(); dist["reads"] += 1
                out = s.cmd(cmd)
                rows = [l for l in out if l.startswith("row ")]
                ok = any(l == "end ok" for l in out)
                if admitted:
                    d = None
                    if not ok:
                        d = "fails (%s) although only %s is held elsewhere" % (out[-2:], state.upper())
                    elif exp is not None:
                        d = hl.same_rows(out, exp)
                    if any("UNCOMMITTED" in bytes.fromhex(v[1:]).decode("latin1") for l in rows for v in l[4:].split(",") if v.startswith("t")):
                        d = "returns the writer's uncommitted changes"
                    if d:
                        run.violation("writer in %s, %s, %s: %s" % (state.upper(), who, cmd, d),
                                      {"kind": "reader-vs-writer", "db": path, "state": state, "command": cmd, "handle": who, "impl": out[:3] + out[-2:]})
                else:
                    if ok or rows:
                        run.violation("writer in %s, %s, %s: the read %s; it must fail without rows" % (state.upper(), who, cmd, "returned %d rows" % len(rows) if rows else "succeeded"),
                                      {"kind": "reader-vs-writer", "db": path, "state": state, "command": cmd, "handle": who, "impl": out[:3] + out[-2:]})
                run.nontrivial("%s/%s/%s" % (state, who, cmd))
            if sess is None:
                s.close()
        pk.release()
    # a writer that starts while a read is running: it may get RESERVED but cannot spill or commit until the read has returned
    # (also after a nested call on the same handle from inside the callback, through every entry point: it must not drop the outer read's lock)
    for nested in (None, "nest", "nest select", "nest selectrowid", "nest iselect", "nest pkselect"):
        run.count()
        core.session_send(long_lived, "hold normal select t a,b")
        lines = core.session_read_until(long_lived, lambda l: l == "paused" or l.startswith("held"))
        if lines[-1] == "paused":
            if nested:
                core.session_send(long_lived, nested)
                core.session_read_until(long_lived, lambda l: l.startswith("f2 "))
            w = sqlite3.connect(path, timeout=0, isolation_level=None)
            w.execute("PRAGMA cache_size=5")
            res = "spilled"
            try:
                w.execute("BEGIN IMMEDIATE")
                w.execute("UPDATE t SET b = 'UNCOMMITTED-' || b")
            except sqlite3.OperationalError as e:
                res = "locked"
            spilled_probe = outside_probe(path)
            core.session_send(long_lived, "resume")
            lines = core.session_read_until(long_lived, lambda l: l.startswith("held"))
            try:
                w.execute("ROLLBACK")
            except sqlite3.OperationalError:
                pass
            w.close()
            m = model.cmd("lock 1 1 L1:0 L2:0 L3:0 P:0 S1:0 S2:0 S3:0 R:0 Pe:0 X:0 W:0")
            # SQLite may keep the dirty pages in memory when it cannot spill (it then holds PENDING); what must not happen is EXCLUSIVE
            if "shared=W" in spilled_probe or "writes=0" not in (m[-1] if m else ""):
                run.violation("a writer that spills its cache while a read is inside its callback got EXCLUSIVE (%s; a third process saw [%s]); the model says %s" % (res, spilled_probe, m[-1:] ),
                              {"kind": "reader-vs-writer", "db": path, "scenario": "hold select; %s; writer BEGIN IMMEDIATE + UPDATE with cache_size=5" % (nested or "no nested call"), "writer": res, "probe": spilled_probe, "model": m})
    # a read that STARTS while a writer is already parked in RESERVED (with or without its journal on disk): the read is
    # admitted; while it is inside its callback the writer's COMMIT must be refused (the reader's SHARED lock must really
    # be held, whatever the reader did on the way in to find out about the journal), and what the read and the next
    # read return is the committed content
    dist["commit_during_read"] = {}
    for state in ("reserved", "reserved-journal"):
        for who in ("fresh handle", "long-lived handle"):
            for op in ("select t a,b", "iselect t t_a a,b"):
                run.count()
                c = sqlite3.connect(path, isolation_level=None)
                before = c.execute("SELECT a, b FROM t ORDER BY rowid").fetchall()
                c.close()
                pk = Parked(path, state)
                s = long_lived if who == "long-lived handle" else core.Session(core.IMPLRUN)
                if who == "fresh handle":
                    s.cmd("fopen %s" % path)
                core.session_send(s, "hold normal " + op)
                lines = core.session_read_until(s, lambda l: l == "paused" or l.startswith("held"))
                got_excl = None
                if lines[-1] == "paused":
                    got_excl = pk.try_commit()
                    core.session_send(s, "resume")
                    lines = core.session_read_until(s, lambda l: l.startswith("held"))
                dist["commit_during_read"]["%s/%s/%s" % (state, who, op.split(" ")[0])] = {"writer_commit_succeeded": got_excl, "read": lines[-1]}
                if got_excl is None:
                    run.violation("writer in %s, %s, %s: the read was not admitted (%s)" % (state.upper(), who, op, lines[-1:]),
                                  {"kind": "reader-vs-writer", "db": path, "state": state, "command": "hold normal " + op, "handle": who, "impl": lines[-3:]})
                elif got_excl:
                    run.violation("writer in %s, %s: while %s was inside its row callback the writer's COMMIT went through - the reader did not hold its SHARED lock" % (state.upper(), who, op),
                                  {"kind": "reader-vs-writer", "db": path, "state": state, "scenario": "writer parked; hold %s; writer COMMIT; resume" % op, "handle": who, "impl": lines[-3:]})
                elif not lines[-1].endswith(" ok"):
                    run.violation("writer in %s, %s, %s: the read failed (%s) although the writer could not commit" % (state.upper(), who, op, lines[-1]),
                                  {"kind": "reader-vs-writer", "db": path, "state": state, "command": "hold normal " + op, "handle": who, "impl": lines[-3:]})
                pk.release()
                out = s.cmd("select t 0 a,b")
                d = hl.same_rows(out, before) if not got_excl else None
                if d:
                    run.violation("after a writer in %s was refused its COMMIT during a read and rolled back, %s, select t: %s" % (state.upper(), who, d),
                                  {"kind": "reader-vs-writer", "db": path, "state": state, "handle": who, "impl": out[:3] + out[-2:]})
                run.nontrivial("commit-during-read/%s/%s/%s" % (state, who, op))
                if who == "fresh handle":
                    s.close()
    # two transactions of one writer in a row, each parked in RESERVED with its journal on disk (synchronous=OFF), a read of the
    # long-lived handle inside each and none in between: the second read sees the first transaction's commit (the journal
    # file of the second transaction is the same file - TRUNCATE / PERSIST - or at least has the same name)
    dist["back_to_back"] = {}
    for jmode in ("DELETE", "TRUNCATE", "PERSIST"):
        run.count()
        w = sqlite3.connect(path, timeout=0, isolation_level=None)
        w.execute("PRAGMA journal_mode=%s" % jmode); w.execute("PRAGMA synchronous=OFF")
        got = []
        for txn in (1, 2):
            w.execute("BEGIN IMMEDIATE")
            w.execute("UPDATE t SET b = ? WHERE rowid IN (11, 12)", ("UNCOMMITTED-%s-%d" % (jmode, txn),))
            c = sqlite3.connect(path, isolation_level=None)     # a plain reader: what is committed right now
            committed = c.execute("SELECT a, b FROM t ORDER BY rowid").fetchall()
            c.close()
            out = long_lived.cmd("select t 0 a,b")
            d = hl.same_rows(out, committed) or (None if any(l == "end ok" for l in out) else "ended with %s" % out[-2:])
            got.append(d or "ok")
            if d:
                run.violation("journal_mode=%s, writer's transaction %d parked in RESERVED with its journal on disk, long-lived handle, select t: %s" % (jmode, txn, d),
                              {"kind": "reader-vs-writer", "db": path, "scenario": "synchronous=OFF writer: BEGIN IMMEDIATE; UPDATE; [read]; COMMIT (no read); BEGIN IMMEDIATE; UPDATE; [read]", "journal_mode": jmode, "transaction": txn, "impl": out[:3] + out[-2:]})
                break
            # the transaction commits something else than what it showed so far
            w.execute("UPDATE t SET b = ? WHERE rowid IN (11, 12)", ("committed-%s-%d" % (jmode, txn),))
            w.execute("COMMIT")
        dist["back_to_back"][jmode] = got
        try:
            w.execute("PRAGMA journal_mode=DELETE")
        except sqlite3.OperationalError:
            pass
        w.close()
    long_lived.close(); model.close()
    run.cov["traces_validated_against_impl"] = dist["reads"]
    run.cov["rule"] = ("a real SQLite connection (python sqlite3, another process than the reader) is parked in UNLOCKED, SHARED (open cursor), RESERVED (uncommitted changes in its cache), RESERVED "
                       "with the journal header on disk (synchronous=OFF), PENDING (COMMIT blocked by a reader), EXCLUSIVE, EXCLUSIVE with dirty pages spilled into the file; a third process "
                       "confirms the lock table (F_GETLK) and the extracted Model/Lock.v predicts it and whether a reader is admitted. In each state every read operation runs on a fresh "
                       "handle and on a long-lived handle with warm caches, through the real pager: admitted => success and exactly the content committed before (never 'UNCOMMITTED'); "
                       "refused => an error and no rows. non-trivial = distinct (state, handle, operation) A read that starts under a RESERVED writer: the writer's COMMIT during the callback is refused; two transactions of one synchronous=OFF writer in a row with a read in each and none in between.")
    run.cov["distribution"] = dist
    run.sample({"state": "pending", "third_process_sees": PROBE["pending"], "reader": "every operation fails, no rows"})
    run.assumptions += ["SQLite 3.40.1 unix VFS lock ladder (os_unix.c unixLock) is what the model's connection steps transcribe; validated here by the probe in every state"]


def replay(run, path):
    import json
    print(json.dumps(json.load(open(path)), indent=1)[:1500])
