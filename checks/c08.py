"""C08 - each read transaction reflects the latest committed database state"""
import os, random, shutil, sqlite3
from vlib import core, sqlfmt
from checks.common import check_obligations
from checks import hl

WORDS = ["aap", "noot", "mies", "wim", "zus", "jet", "teun", "vuur", "gijs", "lam"]


def objects(conn):
    tabs = [r[0] for r in conn.execute("SELECT name FROM sqlite_master WHERE type='table' AND name NOT LIKE 'sqlite_%' ORDER BY name")]
    idx = [(r[0], r[1]) for r in conn.execute("SELECT name, tbl_name FROM sqlite_master WHERE type='index' AND sql IS NOT NULL ORDER BY name")]
    return tabs, idx


def write_step(rng, conn, state):
    """one committed write transaction by another connection; returns its description.  A step that SQLite refuses in the state
    the history has reached (a column no longer there, a key that exists) is replaced by a plain insert."""
    try:
        return _write_step(rng, conn, state)
    except sqlite3.Error as e:
        try:
            conn.execute("ROLLBACK")
        except sqlite3.Error:
            pass
        conn.execute("CREATE TABLE IF NOT EXISTS filler2(a)")
        conn.execute("INSERT INTO filler2 DEFAULT VALUES")
        state["touched"] = "filler2"
        return "insert into filler2 (a step was refused by SQLite: %s)" % str(e)[:60]


def _write_step(rng, conn, state):
    """one committed write transaction by another connection; returns its description"""
    tabs, idx = objects(conn)
    kinds = ["insert", "insert", "update", "update", "delete", "grow", "reuse", "create_table", "create_index", "drop_index", "drop_table", "alter", "vacuum", "recreate",
             "drop_column", "reindex", "point_update", "point_update", "thin"]
    k = rng.choice(kinds)
    t = rng.choice(tabs) if tabs else None
    state["touched"] = t
    if k in ("insert", "grow") and t:
        n = rng.randint(1, 6) if k == "insert" else rng.randint(60, 200)
        cols = [r[1] for r in conn.execute("PRAGMA table_info(%s)" % t)]
        conn.execute("BEGIN")
        for _ in range(n):
            state["seq"] += 1
            conn.execute("INSERT OR REPLACE INTO %s VALUES(%s)" % (t, ",".join("?" * len(cols))), [rng.choice(WORDS) + str(state["seq"]) if j else state["seq"] for j in range(len(cols))])
        conn.execute("COMMIT")
        return "%s %d rows into %s" % (k, n, t)
    if k == "update" and t:
        cols = [r[1] for r in conn.execute("PRAGMA table_info(%s)" % t)]
        conn.execute("UPDATE %s SET %s = ? WHERE rowid %% 3 = ?" % (t, cols[-1]), ("upd%d" % rng.randint(0, 999), rng.randint(0, 2)))
        return "update %s" % t
    if k == "delete" and t:
        conn.execute("DELETE FROM %s WHERE rowid %% 4 = ?" % t, (rng.randint(0, 3),))
        return "delete from %s" % t
    if k == "reuse" and t:
        conn.execute("DELETE FROM %s WHERE rowid %% 2 = 0" % t)
        cols = [r[1] for r in conn.execute("PRAGMA table_info(%s)" % t)]
        conn.execute("BEGIN")
        for _ in range(40):
            state["seq"] += 1
            conn.execute("INSERT OR REPLACE INTO %s VALUES(%s)" % (t, ",".join("?" * len(cols))), ["re" + str(state["seq"]) if j else state["seq"] for j in range(len(cols))])
        conn.execute("COMMIT")
        return "delete half of %s and insert 40 (page reuse)" % t
    if k == "create_table" and len(tabs) < 5:
        state["tn"] += 1
        conn.execute("CREATE TABLE n%d(k, v%d)" % (state["tn"], state["tn"]))
        conn.execute("INSERT INTO n%d VALUES(1, 'first')" % state["tn"])
        return "create table n%d" % state["tn"]
    if k == "create_index" and t:
        state["tn"] += 1
        cols = [r[1] for r in conn.execute("PRAGMA table_info(%s)" % t)]
        conn.execute("CREATE INDEX i%d ON %s(%s)" % (state["tn"], t, rng.choice(cols)))
        return "create index i%d on %s" % (state["tn"], t)
    if k == "drop_index" and idx:
        i = rng.choice(idx)[0]
        conn.execute("DROP INDEX %s" % i)
        return "drop index %s" % i
    if k == "drop_table" and len(tabs) > 1:
        conn.execute("DROP TABLE %s" % t)
        return "drop table %s" % t
    if k == "alter" and t:
        state["tn"] += 1
        conn.execute("ALTER TABLE %s ADD COLUMN x%d DEFAULT 'dflt%d'" % (t, state["tn"], state["tn"]))
        return "alter table %s add column x%d" % (t, state["tn"])
    if k == "vacuum":
        if rng.random() < .5:
            ps = rng.choice([512, 1024, 2048])
            conn.execute("PRAGMA page_size=%d" % ps)
            conn.execute("VACUUM")
            return "vacuum with page_size %d" % ps
        conn.execute("VACUUM")
        return "vacuum"
    if k == "recreate" and len(tabs) > 1:
        # drop and create with another column order: root pages get reused
        cols = [r[1] for r in conn.execute("PRAGMA table_info(%s)" % t)]
        rows = conn.execute("SELECT * FROM %s" % t).fetchall()
        conn.execute("BEGIN")
        conn.execute("DROP TABLE %s" % t)
        conn.execute("CREATE TABLE %s(%s)" % (t, ", ".join(cols[::-1])))
        for r in rows[:30]:
            conn.execute("INSERT INTO %s VALUES(%s)" % (t, ",".join("?" * len(cols))), r[::-1])
        conn.execute("COMMIT")
        return "drop and recreate %s with reversed columns" % t
    if k == "drop_column" and t:
        # a column that no index uses and that is not the first one: the stored records get shorter, later columns move up
        cols = [r[1] for r in conn.execute("PRAGMA table_info(%s)" % t)]
        used = set(r[2] for i, tn in idx if tn == t for r in conn.execute("PRAGMA index_info(%s)" % i))
        pk = set(r[1] for r in conn.execute("PRAGMA table_info(%s)" % t) if r[5])
        cand = [c for c in cols[1:] if c not in used and c not in pk]
        if cand and len(cols) > 2:
            c = rng.choice(cand)
            try:
                conn.execute("ALTER TABLE %s DROP COLUMN %s" % (t, c))
                return "alter table %s drop column %s" % (t, c)
            except sqlite3.OperationalError:
                pass
    if k == "reindex" and idx:
        # the same index name, another definition (other column, DESC, or a collation)
        i, tn = rng.choice(idx)
        state["touched"] = tn
        cols = [r[1] for r in conn.execute("PRAGMA table_info(%s)" % tn)]
        c = rng.choice(cols)
        how = rng.choice(["%s DESC", "%s COLLATE NOCASE", "%s", "%s COLLATE NOCASE DESC"]) % c
        conn.execute("BEGIN"); conn.execute("DROP INDEX %s" % i); conn.execute("CREATE INDEX %s ON %s(%s)" % (i, tn, how)); conn.execute("COMMIT")
        return "drop index %s and create it again on %s(%s)" % (i, tn, how)
    if k == "point_update" and t:
        # one row changes (and moves in every index on its last column): the page the previous lookup of that row ended on
        cols = [r[1] for r in conn.execute("PRAGMA table_info(%s)" % t)]
        r = conn.execute("SELECT rowid FROM %s ORDER BY rowid" % t).fetchall()
        if r:
            rid = rng.choice([r[0][0], r[len(r) // 2][0], r[-1][0]])
            conn.execute("UPDATE %s SET %s = ? WHERE rowid = ?" % (t, cols[-1]), ("!pt%d" % rng.randint(0, 99), rid))
            state["touched_rid"] = rid
            return "update row %d of %s" % (rid, t)
    if k == "thin" and t:
        # delete the tail of what were full leaves: the separators above them stay
        conn.execute("DELETE FROM %s WHERE rowid %% 7 IN (4, 5, 6)" % t)
        return "delete 3 of every 7 rows of %s" % t
    conn.execute("CREATE TABLE IF NOT EXISTS filler(a, b)")
    conn.execute("INSERT INTO filler DEFAULT VALUES")
    return "insert into filler"


def point_probes(rng, conn):
    """[(description, command, expected rows)]: point lookups through every high level entry point, on every table / index; the
    dump argument is '-' (these are not run through the model: the handle must not be asked for its schema first)"""
    tabs, idx = objects(conn)
    out, tail_ = [], []
    for t in tabs:
        info = conn.execute("PRAGMA table_info(%s)" % t).fetchall()
        cols = [r[1] for r in info]
        cl = hl.names(cols[::-1])                    # not in table order
        ids = [r[0] for r in conn.execute("SELECT rowid FROM %s ORDER BY rowid" % t)]
        picks = sorted(set([ids[0], ids[len(ids) // 2], ids[-1], ids[-1] + 1, ids[len(ids) // 3] + 1] + [rng.choice(ids) for _ in range(2)])) if ids else [1]
        for rid in picks[::-1]:                      # descending: an absent rowid, then smaller present ones
            exp = conn.execute("SELECT %s FROM %s WHERE rowid = ?" % (",".join(cols[::-1]), t), (rid,)).fetchall()
            tail_.append(("SelectRowid(%s, %d)" % (t, rid), "hselectrowid - %s %d %s" % (hl.hx(t), rid, cl), exp))
            if any(r[5] for r in info) and len([r for r in info if r[5]]) == 1 and [r for r in info if r[5]][0][2].upper() == "INTEGER":
                tail_.append(("PKSelect(%s, %d)" % (t, rid), "hpkselect - %s i%d %s" % (hl.hx(t), rid, cl), exp))
    for iname, t in idx:
        cols = [r[1] for r in conn.execute("PRAGMA table_info(%s)" % t)]
        xi = conn.execute("PRAGMA index_xinfo(%s)" % iname).fetchall()
        kc = [r for r in xi if r[5]]                 # key columns
        if len(kc) != 1 or kc[0][2] is None:
            continue
        col, desc, coll = kc[0][2], kc[0][3], kc[0][4]
        vals = [r[0] for r in conn.execute("SELECT DISTINCT %s FROM %s WHERE typeof(%s) IN ('text', 'integer') LIMIT 200" % (col, t, col))]
        for v in ([vals[0], vals[len(vals) // 2], vals[-1]] if vals else []):
            exp = conn.execute("SELECT %s FROM %s WHERE %s = ? COLLATE %s ORDER BY %s COLLATE %s %s, rowid" % (",".join(cols), t, col, coll, col, coll, "DESC" if desc else "ASC"), (v,)).fetchall()
            kv = ("i%d" % v) if isinstance(v, int) else "t" + v.encode().hex()
            out.append(("IndexedSelectEq(%s, %s, %r)" % (t, iname, v), "hiselecteq - %s %s %s %s" % (hl.hx(t), hl.hx(iname), kv, hl.names(cols)), exp))
        exp = conn.execute("SELECT %s FROM %s ORDER BY %s COLLATE %s %s, rowid" % (",".join(cols), t, col, coll, "DESC" if desc else "ASC")).fetchall()
        out.append(("IndexedSelect(%s, %s)" % (t, iname), "hiselect - %s %s %s" % (hl.hx(t), hl.hx(iname), hl.names(cols)), exp))
    # the point lookups come last: the last lookup of a round on each table is the one of its first row
    return out + tail_


def run_probes(run, impl, probes, what, hist, when):
    for desc, cmd, exp in probes:
        run.count()
        i = impl.cmd(cmd)
        d = hl.same_rows(i, exp) or (None if hl.tail(i)[:1] == ["end ok"] else "ended with %s" % hl.tail(i))
        if d:
            run.violation("after [%s], %s: %s: %s" % (what, when, desc, d), {"kind": "impl-vs-sqlite", "history": list(hist), "command": cmd, "when": when, "impl": i[:4] + i[-2:], "sqlite_rows": [sqlfmt.canon_rec(r) for r in exp[:4]]})
            return False
    return True


def read_round(run, sessions, conn, path, what, hist, dist, compare_model=True):
    """every table through Select, every index through IndexedSelect, the object list; vs SQLite, vs the model"""
    tabs, idx = objects(conn)
    impl, model = sessions
    for s in (impl, model):
        if s:
            s.cmd("reload %s" % path)
    impl.cmd("rlock")
    names = impl.cmd("names")
    impl.cmd("runlock")
    exp_names = sorted(t.lower() for t in tabs + [r[0] for r in conn.execute("SELECT name FROM sqlite_master WHERE type='table' AND name LIKE 'sqlite_%'")])
    got = sorted(names[0].split(" | ")[0][6:].split(",")) if names and names[0].startswith("names ") else names
    run.count()
    if got != exp_names:
        run.violation("after [%s]: table list %s, SQLite has %s" % (what, got, exp_names), {"kind": "impl-vs-sqlite", "history": list(hist), "impl": names, "sqlite": exp_names})
        return
    for t in tabs:
        cols = [r[1] for r in conn.execute("PRAGMA table_info(%s)" % t)]
        sc = impl.cmd("schema %s" % hl.hx(t))
        f = sc[0].split(" ") if sc else ["?"]
        exp = conn.execute("SELECT %s FROM %s ORDER BY rowid" % (",".join(cols), t)).fetchall()
        run.count()
        dist["reads"] += 1
        if len(f) != 3 or f[1] == "err":
            run.violation("after [%s]: Schema(%s) fails: %s" % (what, t, sc), {"kind": "impl-vs-sqlite", "history": list(hist), "impl": sc})
            continue
        cmd = "hselect %s %s 0 %s" % (f[1], hl.hx(t), hl.names(cols))
        for rep in range(2):        # the second read is served from the caches
            i = impl.cmd(cmd)
            d = hl.same_rows(i, exp) or (None if hl.tail(i) == ["end ok", hl.LOCKS] else "ended with %s" % hl.tail(i))
            if d:
                run.violation("after [%s]: Select(%s)%s: %s" % (what, t, " (repeated)" if rep else "", d),
                              {"kind": "impl-vs-sqlite", "history": list(hist), "command": cmd, "impl": i[:6], "sqlite_rows": [sqlfmt.canon_rec(r) for r in exp[:6]]})
                break
            if model and compare_model:
                m = model.cmd(cmd)
                if m != i:
                    run.violation("after [%s]: Select(%s): handle-state model and implementation differ" % (what, t),
                                  {"no_failing_input_found": True, "broken": "correspondence DbState/open_page", "history": list(hist), "command": cmd, "impl": i[:4], "model": m[:4]})
                    break
        run.nontrivial("%d/%s/%s" % (len(hist), t, what))
    for iname, t in idx[:3]:
        cols = [r[1] for r in conn.execute("PRAGMA table_info(%s)" % t)]
        sc = impl.cmd("schema %s" % hl.hx(t))
        f = sc[0].split(" ") if sc else ["?"]
        if len(f) != 3 or f[1] == "err":
            continue
        kc = ["%s COLLATE %s %s" % (r[2], r[4], "DESC" if r[3] else "ASC") for r in conn.execute("PRAGMA index_xinfo(%s)" % iname) if r[5] and r[2] is not None]
        exp = conn.execute("SELECT %s FROM %s ORDER BY %s, rowid" % (",".join(cols), t, ",".join(kc))).fetchall()
        cmd = "hiselect %s %s %s %s" % (f[1], hl.hx(t), hl.hx(iname), hl.names(cols))
        i = impl.cmd(cmd)
        run.count()
        d = hl.same_rows(i, exp) or (None if hl.tail(i) == ["end ok", hl.LOCKS] else "ended with %s" % hl.tail(i))
        if d:
            run.violation("after [%s]: IndexedSelect(%s, %s): %s" % (what, t, iname, d), {"kind": "impl-vs-sqlite", "history": list(hist), "command": cmd, "impl": i[:6]})
    # the low level API with explicit RLock / RUnlock
    # (a table without an INTEGER PRIMARY KEY: the stored record of such a column is NULL, SELECT shows the rowid)
    lowtabs = [t for t in tabs if not any(r[5] for r in conn.execute("PRAGMA table_info(%s)" % t))]
    if lowtabs:
        t = lowtabs[0]
        root = sqlfmt.root_of(conn, t)
        exp = ["row %d %s" % (r[0], sqlfmt.canon_rec(r[1:])) for r in conn.execute("SELECT rowid, * FROM %s ORDER BY rowid" % t)] + ["end ok"]
        def stored_prefix(o):
            """the low level scan gives the STORED record: rows written before an ALTER TABLE ADD COLUMN are shorter than
            SQLite's SELECT * (which fills in the DEFAULT) - each must be a prefix of it, with the original columns present"""
            if len(o) != len(exp) or o[-1] != exp[-1]:
                return False
            for a, b in zip(o[:-1], exp[:-1]):
                fa, fb = a.split(" "), b.split(" ")
                if len(fa) != 3 or fa[:2] != fb[:2]:
                    return False
                ca, cb = fa[2].split(","), fb[2].split(",")
                if len(ca) < 2 or ca != cb[:len(ca)]:
                    return False
            return True
        for s, who in ((impl, "impl"), (model, "model")):
            if not s:
                continue
            s.cmd("rlock")
            o = s.cmd("scan %d 0" % root)
            s.cmd("runlock")
            run.count()
            if o != exp and not stored_prefix(o):
                if who == "impl":
                    run.violation("after [%s]: low level RLock; Table.Scan(%s); RUnlock differs from SQLite" % (what, t), {"kind": "impl-vs-sqlite", "history": list(hist), "impl": o[:4] + o[-2:], "sqlite": exp[:4]})
                elif compare_model:
                    run.violation("after [%s]: low level scan: handle-state model differs" % what, {"no_failing_input_found": True, "broken": "correspondence DbState/open_page", "history": list(hist), "model": o[:4] + o[-2:]})


def one_history(run, rng, wd, hid, page_size, steps, rows0, dist, real_file, with_model=True):
    path = os.path.join(wd, "h%d.db" % hid)
    conn = sqlfmt.new_db(path, page_size)
    conn.execute("CREATE TABLE t(a, b)")
    conn.execute("CREATE TABLE u(k, v)")
    conn.execute("CREATE INDEX t_b ON t(b)")
    # payloads on both sides of the local-payload limits of every page size a VACUUM may move the file to (table: U-35, index: about U/5)
    conn.execute("CREATE TABLE o(n, body)")
    conn.execute("CREATE INDEX o_body ON o(body)")
    for n, ln in enumerate([60, 90, 110, 200, 240, 400, 470, 490, 600, 900, 980, 1000, 1500, 2000, 2020, 2500, 4000, 4100]):
        conn.execute("INSERT INTO o VALUES(?, ?)", (n, ("%02d" % n) + "o" * ln))
    conn.execute("CREATE TABLE p(id INTEGER PRIMARY KEY, v, w)")
    conn.execute("CREATE INDEX p_v ON p(v)")
    conn.execute("BEGIN")
    for n in range(min(rows0, 600)):
        conn.execute("INSERT INTO p VALUES(?, ?, ?)", (n * 3, WORDS[n % 7] + str(n % 50), "w" * (n % 40)))
    for n in range(rows0):
        conn.execute("INSERT INTO t VALUES(?, ?)", (n, WORDS[n % len(WORDS)] + str(n)))
        conn.execute("INSERT INTO u VALUES(?, ?)", (n, "u%d" % n))
    conn.execute("COMMIT")
    state = {"seq": 100000, "tn": 0}
    impl = core.Session(core.IMPLRUN)
    model = core.Session(core.MODELRUN) if (not real_file and with_model) else None
    hist = ["create h%d.db page_size=%d rows=%d" % (hid, page_size, rows0)]
    if real_file:
        o = impl.cmd("fopen %s" % path)
    else:
        o = impl.cmd("db %s" % path)
        if model:
            model.cmd("store model")
            model.cmd("db %s" % path)
    hist.append("open")
    if hid % 3 == 2:
        # a write that changes the page size before the handle's first read
        conn.execute("PRAGMA page_size=%d" % (1024 if page_size != 1024 else 512))
        conn.execute("VACUUM")
        hist.append("vacuum with another page_size before the first read")
    read_round(run, (impl, model), conn, path, hist[-1], hist, dist)
    for s in range(steps):
        tabs_now = objects(conn)[0]
        if real_file and s % 3 == 1 and tabs_now:
            # a read attempted while the writer holds the EXCLUSIVE lock is refused (C07); the handle must come out of
            # the refusal as it went in: the commit made under that lock is seen by the next read
            tx = tabs_now[0]
            cx = [r[1] for r in conn.execute("PRAGMA table_info(%s)" % tx)]
            conn.execute("BEGIN EXCLUSIVE")
            refused = impl.cmd("hselect - %s 0 %s" % (hl.hx(tx), hl.names(cx)))
            conn.execute("INSERT INTO %s DEFAULT VALUES" % tx)
            conn.execute("COMMIT")
            hist.append("a read attempted while the writer held EXCLUSIVE (%s), then that writer's commit" % ("refused" if any("err" in l for l in refused) else "NOT refused: %s" % refused[-2:]))
            dist["refused_reads"] = dist.get("refused_reads", 0) + 1
            read_round(run, (impl, model), conn, path, hist[-1], hist, dist)
            if run.violations:
                break
        what = write_step(rng, conn, state)
        hist.append(what)
        dist["writes"][what.split(" ")[0]] = dist["writes"].get(what.split(" ")[0], 0) + 1
        if run.violations:
            break
        # the FIRST calls of the handle after the commit are point lookups / indexed selects, in a random order (whatever the
        # handle remembers from before - schemas, pages, positions - the first call must not use it), ...
        for s_ in (impl, model):
            if s_:
                s_.cmd("reload %s" % path)
        try:
            probes = point_probes(rng, conn)
        except sqlite3.Error as e:
            run.notes.append("point probes skipped after [%s]: %s" % (what, e))
            probes = []
        first = probes[:]
        rng.shuffle(first)
        # the very first call goes to the table the commit touched, its kind (rowid lookup, primary key lookup, equality lookup
        # through an index, index scan) cycling with the step number
        kinds_ = ("SelectRowid", "IndexedSelectEq", "PKSelect", "IndexedSelect")
        tt = state.get("touched")
        mine = [p_ for p_ in first if tt and p_[0].split("(")[1].split(",")[0].rstrip(")") == tt]
        trid = state.pop("touched_rid", None)
        hit = [p_ for p_ in mine if trid is not None and p_[0] == "SelectRowid(%s, %d)" % (tt, trid)]
        if hit and s % 2 == 0:
            first.remove(hit[0]); first.insert(0, hit[0])
            mine = []
        for off in range(len(kinds_)):
            pref = [p_ for p_ in mine if p_[0].startswith(kinds_[(s + off) % len(kinds_)] + "(")]
            if pref:
                first.remove(pref[0]); first.insert(0, pref[0])
                break
        dist["first_calls"] = dist.get("first_calls", 0) + len(first[:6])
        dist.setdefault("very_first", {})
        if first:
            kf = first[0][0].split("(")[0]
            dist["very_first"][kf] = dist["very_first"].get(kf, 0) + 1
        if not run_probes(run, impl, first[:6], what, hist, "the handle's first calls after the commit"):
            break
        read_round(run, (impl, model), conn, path, what, hist, dist)
        if run.violations:
            break
        # ... and the round ends with all of them in a fixed order: the next round's first calls meet what these left behind
        dist["point_lookups"] = dist.get("point_lookups", 0) + len(probes)
        if not run_probes(run, impl, probes, what, hist, "at the end of the read round"):
            break
    dist["pages_final"].append(os.path.getsize(path) // sqlfmt.page_size_of(path))
    impl.close()
    if model:
        model.close()
    conn.close()


def check(run):
    rng = random.Random(run.seed)
    check_obligations(run)
    quick = run.tier == "quick"
    wd = os.path.join(core.WORK, "c08")
    shutil.rmtree(wd, ignore_errors=True)
    os.makedirs(wd, exist_ok=True)
    dist = {"histories": 0, "writes": {}, "reads": 0, "pages_final": []}
    plans = [(512, 14, 30, False, True), (1024, 14, 400, False, True), (512, 10, 3500, False, False), (512, 14, 60, True, False), (512, 8, 4000, True, False)] if quick else \
            [(512, 60, 30, False, True), (1024, 60, 400, False, True), (512, 40, 3500, False, False), (512, 60, 60, True, False), (1024, 40, 6000, True, False),
             (4096, 60, 100, False, True), (512, 60, 2500, True, False)] * 3
    for hid, (ps, steps, rows0, real, wm) in enumerate(plans):
        one_history(run, rng, wd, hid, ps, steps, rows0, dist, real, wm)
        dist["histories"] += 1
        if run.violations:
            break
    run.cov["traces_validated_against_impl"] = dist["reads"]
    run.cov["rule"] = ("histories (commit | read round)* on ONE long-lived handle: another connection (python sqlite3) commits inserts, updates, deletes, growth past the size at open, page "
                       "reuse, CREATE/DROP TABLE/INDEX, ALTER ADD COLUMN, drop-and-recreate with other columns (root page reuse), VACUUM (also with a new page size, also before the first "
                       "read); after every commit every table is read through Select twice (file, then caches), indexes through IndexedSelect, the table list, and the low level "
                       "RLock/Scan/RUnlock path; databases below and above the 100-page cache; through the in-memory pager (with the handle-state model of Model/DbState.v serving the "
                       "pages of the extracted model) and through the real file pager. Oracle: SQLite's own view after each commit. non-trivial = distinct (history step, table) reads The handle's first calls after every commit are point lookups / indexed selects on the table the commit touched; every round ends with all point lookups in a fixed order; the writer also drops columns, re-creates indexes under their names, updates single rows, thins leaves; payloads around the spill thresholds of every page size.")
    run.cov["distribution"] = dist
    run.sample({"history_plan": plans[0], "writes": dist["writes"]})
    run.assumptions += ["writers follow SQLite's change counter / schema cookie discipline (hypothesis 'protocol' of C08_coherent), validated here against SQLite 3.40.1",
                        "no writer is active during a read round (the lock is C06's subject)"]


def replay(run, path):
    import json
    r = json.load(open(path))
    print("history:"); [print("  ", h) for h in r.get("history", [])]
    print("impl:", r.get("impl")); print("sqlite:", r.get("sqlite_rows") or r.get("sqlite"))
