"""operation-level case builders over the SQLite-written corpus"""
import os, random
from vlib import core, sqlfmt, sqlcmp, dbgen


def run_cmds(tag, lines, timeout=900, sides=("impl", "model"), shards=1):
    """run a list of (id, command) on both sides; returns impl, model dicts.  With shards > 1 the list is cut
    into contiguous pieces, each prefixed with the `db` command in force at its start, run side by side."""
    if shards <= 1 or len(lines) < 4 * shards:
        text = "".join("# %s\n%s\n" % (cid, cmd) for cid, cmd in lines)
        res = core.run_pair(text, tag, timeout=timeout, sides=sides)
        return res, core.split_cases(res["impl"][1]), core.split_cases(res["model"][1])
    size = (len(lines) + shards - 1) // shards
    pieces, cur = [], None
    for n in range(0, len(lines), size):
        piece = list(lines[n:n + size])
        if cur is not None and not piece[0][1].startswith("db "):
            piece.insert(0, ("reopen%d" % n, cur))
        for cid, cmd in piece:
            if cmd.startswith("db "):
                cur = cmd
        pieces.append(piece)
    from concurrent.futures import ThreadPoolExecutor
    def one(a):
        k, piece = a
        text = "".join("# %s\n%s\n" % (cid, cmd) for cid, cmd in piece)
        return core.run_pair(text, "%s-s%d" % (tag, k), timeout=timeout, sides=sides)
    with ThreadPoolExecutor(max_workers=min(shards, 8)) as ex:
        rs = list(ex.map(one, enumerate(pieces)))
    res, impl, model = {}, {}, {}
    for side in ("impl", "model"):
        rcs = [r[side][0] for r in rs]
        res[side] = (next((c for c in rcs if c != 0), 0), "", "".join(r[side][2] for r in rs)[-2000:])
    for r in rs:
        impl.update(core.split_cases(r["impl"][1]))
        model.update(core.split_cases(r["model"][1]))
    return res, impl, model


def full_scans(dbs, tag):
    """full table / index scans of every tree of every database (implementation
    and model); returns {(dbidx, name): (impl_lines, model_lines)} """
    lines = []
    for i, db in enumerate(dbs):
        lines.append(("open%d" % i, "db %s" % db.path))
        for n, t in db.tables.items():
            lines.append(("%d/%s" % (i, n), ("iscan %d 0" if t["kind"] == "norowid" else "scan %d 0") % t["root"]))
        for n, t in db.indexes.items():
            lines.append(("%d/%s" % (i, n), "iscan %d 0" % t["root"]))
    res, impl, model = run_cmds(tag, lines)
    return res, impl, model


def key_flags(db, name):
    """[(collate, desc)] of the columns of an index or WITHOUT ROWID table as stored"""
    if name in db.indexes:
        ix = db.indexes[name]
        cols = [(c, d) for _, c, d in ix["cols"]]
        t = db.tables[ix["table"]]
        if t["kind"] == "norowid":
            # SQLite appends the PK columns the index does not have yet with the same collation
            have = [(e.lower(), c or "binary") for e, c, _ in ix["cols"]]
            for n, c, d in t["pk"]:
                if (n.lower(), c or "binary") not in have:
                    cols.append((c, d))
                    have.append((n.lower(), c or "binary"))
        else:
            cols.append(("", False))
        return cols
    t = db.tables[name]
    return [(c, d) for _, c, d in t["pk"]]
