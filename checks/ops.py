"""operation-level case builders over the SQLite-written corpus"""
import os, random
from vlib import core, sqlfmt, sqlcmp, dbgen


def run_cmds(tag, lines, timeout=900, sides=("impl", "model")):
    """run a list of (id, command) on both sides; returns impl, model dicts"""
    text = "".join("# %s\n%s\n" % (cid, cmd) for cid, cmd in lines)
    res = core.run_pair(text, tag, timeout=timeout, sides=sides)
    return res, core.split_cases(res["impl"][1]), core.split_cases(res["model"][1])


def full_scans(dbs, tag):
    """full table / index scans of every tree of every database (implementation
    and model); returns {(dbidx, name): (impl_lines, model_lines)} """
    lines = []
    for i, db in enumerate(dbs):
        lines.append(("open%d" % i, "db %s" % db.path))
        for n, t in db.tables.items():
            lines.append(("%d/%s" % (i, n), ("iscan %d 0" if t["kind"] == "norowid" else "scan %d 0") % t["root"]))
        for n, t in db.indexes.items():
            lines.append(("%d/%s" % (i, n), "iscan %d 0" % t["root"]))
    res, impl, model = run_cmds(tag, lines)
    return res, impl, model


def key_flags(db, name):
    """[(collate, desc)] of the columns of an index or WITHOUT ROWID table as stored"""
    if name in db.indexes:
        ix = db.indexes[name]
        cols = [(c, d) for _, c, d in ix["cols"]]
        t = db.tables[ix["table"]]
        if t["kind"] == "norowid":
            # SQLite appends the PK columns the index does not have yet with the same collation
            have = [(e.lower(), c or "binary") for e, c, _ in ix["cols"]]
            for n, c, d in t["pk"]:
                if (n.lower(), c or "binary") not in have:
                    cols.append((c, d))
                    have.append((n.lower(), c or "binary"))
        else:
            cols.append(("", False))
        return cols
    t = db.tables[name]
    return [(c, d) for _, c, d in t["pk"]]
