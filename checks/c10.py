"""C10 - table and index definitions are interpreted the way SQLite interprets them"""
import os, random, re, shutil, sqlite3
from vlib import core, sqlfmt, sqlgen
from checks.common import check_obligations
from checks import ops, hl


def sqlite_schema(conn, t):
    """SQLite's own view: columns, WITHOUT ROWID, rowid alias, indexes with key columns / collations / directions"""
    cols = [r[1] for r in conn.execute("PRAGMA table_xinfo(%s)" % t) if r[6] == 0]
    sql = conn.execute("SELECT sql FROM sqlite_master WHERE name=?", (t,)).fetchone()[0]
    try:
        conn.execute("SELECT rowid FROM %s LIMIT 1" % t)
        without = False
    except sqlite3.OperationalError:
        without = True
    alias = None
    if not without:
        # the rowid alias is the column that IS the rowid: its value is the rowid for whatever is inserted
        for k, c in enumerate(cols):
            try:
                conn.execute("SAVEPOINT p")
                vals = [1000 + i for i in range(len(cols))]
                vals[k] = 424242
                conn.execute("INSERT INTO %s VALUES(%s)" % (t, ",".join("?" * len(cols))), vals)
                if conn.execute("SELECT count(*) FROM %s WHERE rowid = 424242" % t).fetchone()[0] == 1:
                    alias = c
                conn.execute("ROLLBACK TO p"); conn.execute("RELEASE p")
            except sqlite3.Error:
                conn.execute("ROLLBACK TO p"); conn.execute("RELEASE p")
            if alias:
                break
    indexes, pk = {}, None
    for seq, name, unique, origin, partial in conn.execute("PRAGMA index_list(%s)" % t).fetchall():
        keys = [(None if cid == -2 else ("rowid" if cid == -1 else cname), alow(coll or ""), bool(desc))
                for _, cid, cname, desc, coll, key in conn.execute("PRAGMA index_xinfo(%s)" % name) if key]
        indexes[alow(name)] = keys
        if origin == "pk":
            pk = (alow(name), keys)
    return {"cols": [alow(c) for c in cols], "without": without, "alias": alow(alias) if alias else None, "indexes": indexes, "pk": pk}


def parse_dump(d):
    w, r, cols, pk, pkname, inds = d.split(";")
    un = lambda h: bytes.fromhex(h).decode("utf-8", "replace")
    def icols(s):
        out = []
        if s != "-":
            for c in s.split("+"):
                n, coll, dr = c.split(":")
                out.append((un(n) or None, un(coll) or "binary", dr == "d"))
        return out
    cs = [] if cols == "-" else [(un(c.split(":")[0]), c.split(":")[1] == "1") for c in cols.split(",")]
    return {"cols": [c for c, _ in cs], "without": w == "1", "rowidpk": r == "1", "alias": next((c for c, a in cs if a), None),
            "pk": icols(pk), "pkname": None if pkname == "-" else un(pkname),
            "indexes": {} if inds == "-" else {un(i.split("=")[0]): icols(i.split("=")[1]) for i in inds.split("/")}}


def alow(s):
    """SQLite folds the case of ASCII letters only"""
    return "".join(ch.lower() if ch.isascii() else ch for ch in s)


def compare(sq, sl):
    """None or a description of the first disagreement between SQLite's view and sqlittle's"""
    if sq["cols"] != sl["cols"]:
        return "columns %s vs SQLite %s" % (sl["cols"], sq["cols"])
    if sq["without"] != sl["without"]:
        return "WITHOUT ROWID %s vs SQLite %s" % (sl["without"], sq["without"])
    if sq["alias"] != sl["alias"]:
        return "rowid alias column %s vs SQLite %s" % (sl["alias"], sq["alias"])
    norm = lambda ks: [(alow(n) if n else None, c or "binary", d) for n, c, d in ks]
    if sq["without"]:
        want = norm(sq["pk"][1]) if sq["pk"] else []
        if norm(sl["pk"]) != want:
            return "primary key %s vs SQLite %s" % (norm(sl["pk"]), want)
    elif sq["pk"]:
        if sl["pkname"] != sq["pk"][0]:
            return "primary key index %s vs SQLite %s" % (sl["pkname"], sq["pk"][0])
    elif sl["pkname"]:
        return "primary key index %s where SQLite has none" % sl["pkname"]
    want = {n: norm(k) for n, k in sq["indexes"].items() if not (sq["without"] and sq["pk"] and n == sq["pk"][0])}
    got = {n: norm(k) for n, k in sl["indexes"].items()}
    for n in sorted(set(want) | set(got)):
        if n not in got:
            # an index sqlittle could not interpret may be left out (never described wrongly)
            continue
        if n not in want:
            return "index %s reported, SQLite has no such index" % n
        if got[n] != want[n]:
            return "index %s: %s vs SQLite %s" % (n, got[n], want[n])
    return None


def check(run):
    rng = random.Random(run.seed)
    check_obligations(run)
    quick = run.tier == "quick"
    wd = os.path.join(core.WORK, "c10")
    shutil.rmtree(wd, ignore_errors=True)
    os.makedirs(wd, exist_ok=True)
    known = core.load_known("C10")
    dist = {"generated": 0, "sqlite_accepts": 0, "sqlittle_accepts": 0, "without_rowid": 0, "rowid_alias": 0, "autoindexes": 0, "explicit_indexes": 0, "merged_constraints": 0}
    cases = []
    ntab = 400 if quick else 6000
    per_db = 25
    stmts = []
    for n in range(ntab):
        sql, cols = sqlgen.create_table(rng, "t%d" % n)
        idx = [sqlgen.create_index(rng, "t%d" % n, cols, "t%d_i%d" % (n, k)) for k in range(rng.choice([0, 0, 1, 2]))]
        stmts.append(("t%d" % n, sql, idx))
    # fixed statements for rules that matter: merging, numbering, case, DESC, quoting
    fixed = ["CREATE TABLE f0 (a, b, UNIQUE(a), UNIQUE(a DESC), UNIQUE(b), UNIQUE(A))", "CREATE TABLE f1 (a INTEGER PRIMARY KEY DESC, b)", "CREATE TABLE f2 (a integer, b, PRIMARY KEY (a DESC))",
             "CREATE TABLE f3 (a INT PRIMARY KEY, b)", "CREATE TABLE f4 (a TEXT COLLATE nocase PRIMARY KEY, b UNIQUE) WITHOUT ROWID", "CREATE TABLE f5 (a, b, c, UNIQUE(a), PRIMARY KEY(a), UNIQUE(b)) WITHOUT ROWID",
             "CREATE TABLE f6 (a UNIQUE, b, c, PRIMARY KEY(a), UNIQUE(b))", "CREATE TABLE f7 (\"a b\" TEXT, [c d] INT, `e` REAL, PRIMARY KEY (\"a b\", [c d]))",
             "CREATE TABLE f8 (a TEXT COLLATE rtrim, b, UNIQUE (a, b), UNIQUE (a COLLATE binary, b))", "CREATE TABLE f9 (a, b, PRIMARY KEY (b, a)) WITHOUT ROWID",
             "CREATE TABLE f10 (a INTEGER, b INTEGER, PRIMARY KEY (a, b))", "CREATE TABLE f11 (a INTEGER PRIMARY KEY AUTOINCREMENT, b UNIQUE, c UNIQUE)", "CREATE TABLE f12 (A, B, unique (a), primary key (A))"]
    for k, sql in enumerate(fixed):
        stmts.append(("f%d" % k, sql, []))
    # build databases with real SQLite
    dbs = []
    for s in range(0, len(stmts), per_db):
        path = os.path.join(wd, "s%d.db" % (s // per_db))
        conn = sqlfmt.new_db(path, 1024)
        conn.execute("CREATE TABLE other(x PRIMARY KEY)")
        kept = []
        for t, sql, idx in stmts[s:s + per_db]:
            dist["generated"] += 1
            try:
                conn.execute(sql)
            except sqlite3.Error:
                continue
            dist["sqlite_accepts"] += 1
            ok_idx = []
            for i in idx:
                try:
                    conn.execute(i); ok_idx.append(i)
                except sqlite3.Error:
                    pass
            kept.append((t, sql, ok_idx))
        views = {t: sqlite_schema(conn, t) for t, _, _ in kept}
        conn.close()
        dbs.append((path, kept, views))
    lines = []
    for i, (path, kept, views) in enumerate(dbs):
        lines.append(("open%d" % i, "db %s" % path))
        for t, sql, idx in kept:
            lines.append(("%d/%s" % (i, t), "schema %s" % hl.hx(t)))
    res, impl, _ = ops.run_cmds("c10-schema", lines, sides=("impl",))
    for i, (path, kept, views) in enumerate(dbs):
        for t, sql, idx in kept:
            run.count()
            out = (impl.get("%d/%s" % (i, t)) or ["?"])[0]
            f = out.split(" ")
            sq = views[t]
            dist["without_rowid"] += sq["without"]; dist["rowid_alias"] += bool(sq["alias"])
            dist["autoindexes"] += sum(1 for n in sq["indexes"] if n.startswith("sqlite_autoindex")); dist["explicit_indexes"] += len(idx)
            if "PANIC" in out:
                run.violation("Schema(%s) panics on a definition SQLite accepts: %s" % (t, sql), {"kind": "panic", "db": path, "sql": sql, "impl": out})
                continue
            if len(f) < 2 or f[1] == "err":
                continue                    # rejected: allowed (never described wrongly)
            dist["sqlittle_accepts"] += 1
            sl = parse_dump(f[1])
            d = compare(sq, sl)
            if d:
                k = next((k for k in known if re.search(k["matcher"]["sql_regex"], sql + " ; " + " ; ".join(idx), re.I | re.S)), None)
                if k:
                    run.known_hits.append(k["what_fails"])
                    continue
                run.violation("%s: %s" % (sql[:160], d), {"kind": "impl-vs-sqlite", "db": path, "table": t, "sql": sql, "indexes": idx, "diff": d, "sqlittle": f[1], "sqlite": {k: v for k, v in sq.items()}})
            run.nontrivial(sql)
    # the interpretation of a definition does not depend on definitions interpreted earlier in the process: pairs of databases
    # whose tables have the SAME names and the SAME index / constraint texts but other collations / orders on the columns
    # they refer to, read one after the other by one process
    twins = [
        ("CREATE TABLE h1(name TEXT COLLATE NOCASE, v)", "CREATE TABLE h1(name TEXT, v)", ["CREATE INDEX h1_i ON h1(name)"]),
        ("CREATE TABLE h2(a TEXT COLLATE RTRIM, b TEXT COLLATE NOCASE)", "CREATE TABLE h2(a TEXT COLLATE NOCASE, b TEXT)", ["CREATE INDEX h2_i ON h2(b, a DESC)", "CREATE UNIQUE INDEX h2_u ON h2(a)"]),
        ("CREATE TABLE h3(k TEXT COLLATE NOCASE, n, PRIMARY KEY(k, n)) WITHOUT ROWID", "CREATE TABLE h3(k TEXT, n, PRIMARY KEY(k, n)) WITHOUT ROWID", ["CREATE INDEX h3_n ON h3(n)"]),
        ("CREATE TABLE h4(id INTEGER, x TEXT COLLATE RTRIM, PRIMARY KEY(id COLLATE nocase)) WITHOUT ROWID", "CREATE TABLE h4(id TEXT COLLATE RTRIM, x, PRIMARY KEY(id COLLATE nocase)) WITHOUT ROWID", ["CREATE INDEX h4_x ON h4(x)"]),
        ("CREATE TABLE h5(a COLLATE NOCASE, b, UNIQUE(a, b))", "CREATE TABLE h5(b COLLATE RTRIM, a, UNIQUE(a, b))", ["CREATE INDEX h5_i ON h5(a)"]),
    ]
    tl2, tviews = [], {}
    for side in (0, 1):
        path = os.path.join(wd, "twin%d.db" % side)
        conn = sqlfmt.new_db(path, 1024)
        for a, b, idx in twins:
            conn.execute((a, b)[side])
            for i_ in idx:
                conn.execute(i_)
        for a, b, idx in twins:
            t = a.split("(")[0].split()[-1]
            tviews[(side, t)] = (sqlite_schema(conn, t), (a, b)[side], idx)
        conn.close()
    for order in ((0, 1), (1, 0)):
        for side in order:
            tl2.append(("o%d%d/open%d" % (order + (side,))[:3] if False else ("o%d%d/open%d" % (order[0], order[1], side), "db %s" % os.path.join(wd, "twin%d.db" % side))))
            for a, b, idx in twins:
                t = a.split("(")[0].split()[-1]
                tl2.append(("o%d%d/%d/%s" % (order[0], order[1], side, t), "schema %s" % hl.hx(t)))
    _, twimpl, _ = ops.run_cmds("c10-twins", tl2, sides=("impl",))
    dist["twin_definitions"] = 0
    for cid, cmd in tl2:
        if not cmd.startswith("schema "):
            continue
        run.count(); dist["twin_definitions"] += 1
        side, t = int(cid.split("/")[1]), cid.split("/")[2]
        sq, sql, idx = tviews[(side, t)]
        out = (twimpl.get(cid) or ["?"])[0]
        f = out.split(" ")
        if len(f) < 2 or f[1] == "err":
            continue
        d = compare(sq, parse_dump(f[1]))
        if d:
            run.violation("%s (read %s a database with the same names and index texts but other column collations): %s" % (sql[:120], "after" if cid.startswith("o%d" % (1 - side)) else "before", d),
                          {"kind": "history-dependent", "db": os.path.join(wd, "twin%d.db" % side), "table": t, "sql": sql, "indexes": idx, "diff": d, "read_order": cid.split("/")[0]})
            break
    # the Coq model of db/schema.go (Model/Schema.v) on the same definitions: sqlite_master's texts, tokenized by the
    # implementation, parsed by the translated parser, interpreted by the model - against db.Schema()
    mcases, tl = [], []
    for i, (path, kept, views) in enumerate(dbs):
        conn = sqlite3.connect(path)
        for t, sql, idx in kept:
            rows = conn.execute("SELECT type, sql FROM sqlite_master WHERE lower(tbl_name)=lower(?) AND sql IS NOT NULL AND sql != '' ORDER BY rowid", (t,)).fetchall()
            tsql = [r[1] for r in rows if r[0] == "table"]
            isql = [r[1] for r in rows if r[0] == "index"]
            if len(tsql) != 1 or any(ord(ch) > 127 for ch in "".join(tsql + isql)):
                continue
            mcases.append((i, t, tsql[0], isql))
        conn.close()
    for n, (i, t, tsql, isql) in enumerate(mcases):
        for k, q in enumerate([tsql] + isql):
            tl.append(("%d/%d" % (n, k), "tokens %s" % q.encode().hex()))
    _, timpl, _ = ops.run_cmds("c10-tokens", tl, sides=("impl",))
    xl, ml = [], []
    cur = None
    for n, (i, t, tsql, isql) in enumerate(mcases):
        if cur != i:
            xl.append(("xopen%d/%d" % (i, n), "db %s" % dbs[i][0])); cur = i
        xl.append(("x%d" % n, "schemax %s" % hl.hx(t)))
        parts = []
        for k in range(1 + len(isql)):
            o = (timpl.get("%d/%d" % (n, k)) or ["tokens err"])[0]
            parts.append(o[len("tokens ok"):].strip() or "-" if o.startswith("tokens ok") else "!")
        if parts[0] == "!":
            parts[0] = "-"
        ml.append(("x%d" % n, "mschema " + "|".join(parts)))
    _, ximpl, _ = ops.run_cmds("c10-schemax", xl, sides=("impl",))
    mres, _, xmodel = ops.run_cmds("c10-mschema", ml, sides=("model",))
    dist["model_cases"] = 0
    def same_dump(a, b):
        """dumps equal, a '?' default of the model (a real literal: ParseFloat is not modelled) matching anything"""
        if a == b:
            return True
        fa, fb = a.split(";"), b.split(";")
        if len(fa) != len(fb) or fa[:2] + fa[3:] != fb[:2] + fb[3:]:
            return False
        ca, cb = fa[2].split(","), fb[2].split(",")
        return len(ca) == len(cb) and all(x == y or (y.endswith(":?") and x.rsplit(":", 1)[0] == y.rsplit(":", 1)[0]) for x, y in zip(ca, cb))
    for n, (i, t, tsql, isql) in enumerate(mcases):
        a = (ximpl.get("x%d" % n) or ["?"])[0]
        b = (xmodel.get("x%d" % n) or ["?"])[0]
        run.count(); dist["model_cases"] += 1
        if a.startswith("schema err") and b == "schema err":
            continue
        fa, fb = a.split(" "), b.split(" ")
        if len(fa) == 3 and len(fb) == 3 and same_dump(fa[1], fb[1]) and fa[2] == fb[2]:
            continue
        run.violation("Model/Schema.v and db.Schema() differ on %s" % tsql[:160],
                      {"no_failing_input_found": True, "broken": "correspondence Model/Schema.v vs db/schema.go", "sql": tsql, "indexes": isql, "impl": a, "model": b})
    if mres["model"][0] != 0:
        run.violation("modelrun died on mschema: %s" % mres["model"][2][-300:], {"no_failing_input_found": True, "broken": "model execution"})
    # known findings are replayed on their own statements
    kpath = os.path.join(wd, "known.db")
    conn = sqlfmt.new_db(kpath, 1024)
    klines = [("open", "db %s" % kpath)]
    for n, k in enumerate(known):
        try:
            for stt in k["replay"]["sql"].replace("%T", "k%d" % n).split(";"):
                conn.execute(stt)
            klines.append(("k%d" % n, "schema %s" % hl.hx("k%d" % n)))
        except sqlite3.Error:
            pass
    views = {"k%d" % n: sqlite_schema(conn, "k%d" % n) for n, k in enumerate(known) if ("k%d" % n, ) and any(c == "k%d" % n for c, _ in klines)}
    conn.close()
    _, kimpl, _ = ops.run_cmds("c10-known", klines, sides=("impl",))
    for n, k in enumerate(known):
        out = (kimpl.get("k%d" % n) or ["?"])[0].split(" ")
        if len(out) >= 2 and out[1] != "err" and "k%d" % n in views and compare(views["k%d" % n], parse_dump(out[1])):
            run.known_hits.append(k["what_fails"])
    run.known_hits = sorted(set(run.known_hits))
    run.cov["traces_validated_against_impl"] = dist["sqlittle_accepts"]
    run.cov["rule"] = ("grammar-generated CREATE TABLE statements (1-6 columns; quoted / bracketed / backticked / other-case identifiers; type names incl. arguments; column constraints "
                       "PRIMARY KEY ASC/DESC AUTOINCREMENT, UNIQUE, NOT NULL, DEFAULT, COLLATE, CHECK, REFERENCES in any order; table constraints PRIMARY KEY / UNIQUE / FOREIGN KEY with "
                       "COLLATE and ASC/DESC, duplicated and overlapping, named; WITHOUT ROWID) with CREATE [UNIQUE] INDEX statements (expressions, partial) and a fixed list for the "
                       "merge / numbering / case rules: executed by real SQLite; what SQLite accepts is read through sqlittle's Schema and compared with PRAGMA table_xinfo / index_list / "
                       "index_xinfo and a behavioural test of the rowid alias: column names and order, WITHOUT ROWID, rowid alias column, primary key (columns / index name), every index "
                       "name with key columns, collations, directions. A definition sqlittle rejects, or an index it leaves out, is not a disagreement. non-trivial = distinct statements")
    run.cov["distribution"] = dist
    for t, sql, idx in dbs[0][1][:3]:
        run.sample({"sql": sql, "indexes": idx})
    run.assumptions += ["SQLite 3.40.1 (python3 sqlite3) is the oracle"]


def replay(run, path):
    import json
    r = json.load(open(path))
    print(json.dumps({k: r.get(k) for k in ("sql", "diff", "sqlittle", "sqlite")}, indent=1)[:2000])
