"""C02 - index-ordered select visits exactly the indexed rows in index order"""
import random
from vlib import core, sqlfmt, dbgen
from checks.common import check_obligations
from checks import ops, hl


def check(run):
    rng = random.Random(run.seed)
    check_obligations(run)
    quick = run.tier == "quick"
    dbs = dbgen.corpus(run, "c02", which=("deep", "wr", "ipk", "ovf", "mix", "misc"), deep_rows=1500 if quick else None)
    dumps = hl.schemas(dbs, "c02-schema")
    lines, meta = [], {}
    for i, db in enumerate(dbs):
        lines.append(("open%d" % i, "db %s" % db.path))
        conn = db.conn()
        for iname, ix in db.indexes.items():
            tname = ix["table"]
            t = db.tables[tname]
            dump = dumps.get((i, tname))
            if dump is None:
                run.violation("db.Schema(%s) failed on a SQLite-written table" % tname, {"kind": "schema-error", "db": db.path, "table": tname})
                continue
            cols = [hl.unq(c) for c in t["cols"]]
            sqlc = list(t["cols"])
            lists = [(cols, sqlc), (cols[::-1], sqlc[::-1])]
            if t["kind"] != "norowid":
                lists.append((["rowid"] + cols[-1:], ["rowid"] + sqlc[-1:]))
            k = rng.randrange(len(cols))
            lists.append(([cols[k]], [sqlc[k]]))
            where = (" WHERE " + ix["where"]) if ix.get("where") else ""
            order = hl.index_order(db, iname)
            for cs, sc in lists:
                cid = "%d/%s/%d" % (i, iname, len(lines))
                cmd = "hiselect %s %s %s %s" % (dump, hl.hx(tname), hl.hx(iname), hl.names(cs))
                exp = conn.execute("SELECT %s FROM %s%s ORDER BY %s" % (hl.sql_cols(sc), tname, where, order)).fetchall()
                lines.append((cid, cmd))
                meta[cid] = (db, exp, ["end ok", hl.LOCKS], "IndexedSelect(%s, %s; %s)" % (tname, iname, ",".join(cs)))
            # a second pass over the same handle (served from the page cache) must give the same rows
            cid = "%d/%s/again" % (i, iname)
            lines.append((cid, "hiselect %s %s %s %s" % (dump, hl.hx(tname), hl.hx(iname), hl.names(cols))))
            meta[cid] = (db, conn.execute("SELECT %s FROM %s%s ORDER BY %s" % (hl.sql_cols(sqlc), tname, where, order)).fetchall(),
                         ["end ok", hl.LOCKS], "IndexedSelect(%s, %s) repeated on the same handle" % (tname, iname))
        # no such index
        for tname in list(db.tables)[:1]:
            dump = dumps.get((i, tname))
            if dump:
                cid = "%d/%s/noindex" % (i, tname)
                lines.append((cid, "hiselect %s %s %s %s" % (dump, hl.hx(tname), hl.hx("no_such_index"), hl.names([hl.unq(db.tables[tname]["cols"][0])]))))
                meta[cid] = (db, [], None, "IndexedSelect with an unknown index")
        conn.close()
    res, impl, model = ops.run_cmds("c02-iselect", lines, timeout=1500, shards=8)
    for cid, cmd in lines:
        if cid not in meta:
            continue
        db, exp, tail, what = meta[cid]
        if tail is None:
            run.count()
            i = impl.get(cid) or []
            if any(l.startswith("row ") for l in i) or not any(l.startswith("end err") for l in i):
                run.violation("%s did not fail cleanly: %s" % (what, i[:3]), {"kind": "impl-vs-expected", "db": db.path, "command": cmd, "impl": i[:10]})
            continue
        hl.judge(run, cid, cmd, db, impl, model, exp, tail, what)
        if len(exp) > 1:
            run.nontrivial(cmd)
    if res["impl"][0] != 0 or res["model"][0] != 0:
        run.violation("harness died: impl rc=%s model rc=%s %s %s" % (res["impl"][0], res["model"][0], res["impl"][2][-200:], res["model"][2][-200:]),
                      {"no_failing_input_found": True, "broken": "harness execution"})
    run.cov["traces_validated_against_impl"] = len(meta)
    run.cov["rule"] = ("every index of the SQLite-written corpus (1..2 columns, COLLATE NOCASE/RTRIM/explicit BINARY, DESC, UNIQUE, partial, "
                       "expression, automatic; on rowid and WITHOUT ROWID tables; depth up to 3 with entries in interior pages; mixed storage "
                       "classes, NULLs, long duplicate runs, overflowing keys) x column lists: IndexedSelect vs SQLite's SELECT ... [WHERE partial] "
                       "ORDER BY key columns with their collations/directions, then rowid / primary key; and vs the extracted Coq model; each "
                       "repeated on the same handle. non-trivial = distinct commands returning >= 2 rows")
    run.cov["distribution"] = {"corpus": dbgen.describe(dbs), "cases": len(meta)}
    for cid, cmd in [l for l in lines if l[0] in meta][:3]:
        run.sample({"command": cmd[:300], "sqlite_rows": len(meta[cid][1])})
    run.assumptions += ["SQLite 3.40.1 (python3 sqlite3) is the writer and the oracle"]


def replay(run, path):
    import json
    r = json.load(open(path))
    if "command" not in r or "db" not in r:
        print("nothing to replay:", r.get("broken")); return
    res, impl, model = ops.run_cmds("c02-replay", [("open", "db " + r["db"]), ("x", r["command"])])
    print("impl :", (impl.get("x") or [])[:20]); print("model:", (model.get("x") or [])[:20]); print("sqlite:", r.get("sqlite_rows"))
