"""high level API cases (Select / SelectRowid / IndexedSelect / IndexedSelectEq /
PKSelect) over the SQLite-written corpus: command builders, the SQLite oracle,
comparison with the integral-REAL identification the property allows"""
import math, sqlite3
from vlib import core, sqlfmt, sqlcmp
from checks import ops

LOCKS = "locks lock,unlock locked=false"


def hx(s):
    return s.encode().hex()


def names(cols):
    return ",".join(hx(c) for c in cols) if cols else "-"


def unq(c):
    """column name as the API takes it (no SQL quoting)"""
    return c[1:-1] if c.startswith('"') else c


def schemas(dbs, tag):
    """{(dbidx, table): dump} from the implementation's db.Schema()"""
    lines = []
    for i, db in enumerate(dbs):
        lines.append(("open%d" % i, "db %s" % db.path))
        for t in db.tables:
            lines.append(("%d/%s" % (i, t), "schema %s" % hx(t)))
    res, impl, model = ops.run_cmds(tag, lines)
    out = {}
    for i, db in enumerate(dbs):
        for t in db.tables:
            l = impl.get("%d/%s" % (i, t)) or ["schema err missing"]
            f = l[0].split(" ")
            out[(i, t)] = f[1] if len(f) == 3 and f[0] == "schema" and f[1] != "err" and f[2] == "plain=true" else None
    return out


def table_order(db, t):
    tb = db.tables[t]
    if tb["kind"] != "norowid":
        return "rowid"
    return ", ".join("%s COLLATE %s %s" % (n, c or "binary", "DESC" if d else "ASC") for n, c, d in tb["pk"])


def index_order(db, ix):
    i = db.indexes[ix]
    ks = ", ".join("%s COLLATE %s %s" % (e, c or "binary", "DESC" if d else "ASC") for e, c, d in i["cols"])
    return ks + ", " + table_order(db, i["table"])


def sql_cols(cols):
    return ", ".join(cols)


def same_value(impl, orc):
    """impl and oracle canonical values equal, or the oracle has an integral REAL
    where the implementation reports the equal integer (documented)"""
    if impl == orc:
        return True
    if orc.startswith("f") and impl.startswith("i"):
        v = sqlcmp.parse(orc)
        return not math.isinf(v) and not math.isnan(v) and v == int(v) and int(v) == int(impl[1:]) and abs(v) < 2 ** 63
    return False


def same_rows(impl_lines, oracle_rows):
    """impl 'row ...' lines vs oracle tuples; returns None if equal else a description"""
    il = [l[4:] for l in impl_lines if l.startswith("row ")]
    if len(il) != len(oracle_rows):
        return "row count %d vs SQLite %d" % (len(il), len(oracle_rows))
    for n, (a, b) in enumerate(zip(il, oracle_rows)):
        av = [] if a == "-" else a.split(",")
        bv = [sqlfmt.canon(x) for x in b]
        if len(av) != len(bv) or not all(same_value(x, y) for x, y in zip(av, bv)):
            return "row %d: %s vs SQLite %s" % (n, a, ",".join(bv))
    return None


def tail(lines):
    return [l for l in lines if not l.startswith("row ")]


def judge(run, cid, cmd, db, impl, model, oracle_rows, expect_tail, what, compare_model=True, finding=None):
    """one high level case: implementation vs SQLite, implementation vs model"""
    run.count()
    i, m = impl.get(cid), model.get(cid)
    if i is None:
        return
    d = same_rows(i, oracle_rows) if oracle_rows is not None else None
    if d is None and expect_tail is not None and tail(i) != expect_tail:
        d = "ended with %s, expected %s" % (tail(i), expect_tail)
    if d is not None:
        rep = {"kind": "impl-vs-sqlite", "db": db.path, "command": cmd, "what": what, "diff": d,
               "impl": i[:30], "sqlite_rows": [sqlfmt.canon_rec(r) for r in (oracle_rows or [])[:30]]}
        if finding and finding(rep):
            return
        run.violation("%s: %s (%s)" % (what, d, db.desc), rep)
        return
    if compare_model and m is not None and m != i:
        run.violation("%s: model and implementation differ although the implementation agrees with SQLite" % what,
                      {"no_failing_input_found": True, "broken": "correspondence High/%s" % cmd.split(" ")[0],
                       "db": db.path, "command": cmd, "impl": i[:30], "model": m[:30]})
