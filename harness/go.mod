module verifharness

go 1.23

require github.com/alicebob/sqlittle v0.0.0

require golang.org/x/sys v0.5.0 // indirect

replace github.com/alicebob/sqlittle => /repo
