// Package hcommon holds what the harness commands share: the canonical text
// format (identical to coq/theories/Model/Run.v), the error classification
// and the in-memory fault-injecting pager.
package hcommon

import (
	"encoding/hex"
	"errors"
	"fmt"
	"io"
	"math"
	"reflect"
	"sort"
	"strconv"
	"strings"

	sdb "github.com/alicebob/sqlittle/db"
	"github.com/alicebob/sqlittle/sql"
)

var ErrInjected = errors.New("injected I/O error")

// ErrKind maps an error of the implementation to the model's error kinds.
func ErrKind(err error) string {
	switch {
	case err == nil:
		return "nil"
	case err == sdb.ErrCorrupted:
		return "corrupt"
	case err == sdb.VerifErrInternal:
		return "internal"
	case err == sdb.ErrRecursion:
		return "recursion"
	case err == sdb.ErrInvalidDef:
		return "invaliddef"
	case err == sdb.ErrInvalidMagic:
		return "magic"
	case err == sdb.ErrInvalidPageSize:
		return "pagesize"
	case err == sdb.ErrWAL:
		return "wal"
	case err == sdb.ErrIncompatible:
		return "incompatible"
	case err == sdb.ErrReservedSpace:
		return "reserved"
	case err == sdb.ErrEncoding:
		return "encoding"
	case err == sdb.ErrHotJournal:
		return "hotjournal"
	case err == sdb.ErrNoSuchTable, err == sdb.ErrNoSuchIndex:
		return "nosuch"
	case err == ErrInjected, err == io.EOF, err == io.ErrUnexpectedEOF:
		return "io"
	}
	switch err.Error() {
	case "invalid page number":
		return "pageno"
	case "unsupported page type":
		return "pagetype"
	case "invalid cell pointer", "invalid cell pointer array":
		return "cellptr"
	case "found an index, expected a table", "found a table, expected an index":
		return "kind"
	}
	return "other"
}

func ShowValue(v interface{}) string {
	switch t := v.(type) {
	case nil:
		return "n"
	case int64:
		return "i" + strconv.FormatInt(t, 10)
	case float64:
		return fmt.Sprintf("f%016x", math.Float64bits(t))
	case string:
		return "t" + hex.EncodeToString([]byte(t))
	case []byte:
		return "b" + hex.EncodeToString(t)
	}
	return fmt.Sprintf("?%T", v)
}

func ShowRecord(r []interface{}) string {
	if len(r) == 0 {
		return "-"
	}
	s := make([]string, len(r))
	for i, v := range r {
		s[i] = ShowValue(v)
	}
	return strings.Join(s, ",")
}

func ReadValue(s string) interface{} {
	if s == "" {
		return nil
	}
	switch s[0] {
	case 'i':
		n, _ := strconv.ParseInt(s[1:], 10, 64)
		return n
	case 'f':
		u, _ := strconv.ParseUint(s[1:], 16, 64)
		return math.Float64frombits(u)
	case 't':
		b, _ := hex.DecodeString(s[1:])
		return string(b)
	case 'b':
		b, _ := hex.DecodeString(s[1:])
		if b == nil {
			b = []byte{}
		}
		return b
	}
	return nil
}

func ReadRecord(s string) sdb.Record {
	if s == "-" {
		return nil
	}
	var r sdb.Record
	for _, p := range strings.Split(s, ",") {
		r = append(r, ReadValue(p))
	}
	return r
}

// ReadKey parses value/coll/dir[,value/coll/dir...] ("-" = empty key).
func ReadKey(s string) sdb.Key {
	if s == "-" {
		return sdb.Key{}
	}
	var k sdb.Key
	for _, p := range strings.Split(s, ",") {
		f := strings.Split(p, "/")
		kc := sdb.KeyCol{V: ReadValue(f[0])}
		if len(f) == 3 {
			switch f[1] {
			case "n":
				kc.Collate = "nocase"
			case "r":
				kc.Collate = "rtrim"
			case "B":
				kc.Collate = "binary"
			}
			kc.Desc = f[2] == "d"
		}
		k = append(k, kc)
	}
	return k
}

func ShowPayload(c sdb.VerifCell) string {
	local := c.Local
	if c.Overflow == 0 && int64(len(local)) >= c.Length && c.Length >= 0 {
		local = local[:c.Length]
	}
	return fmt.Sprintf("%d:%d:%s", c.Length, c.Overflow, hex.EncodeToString(local))
}

func ShowPage(p *sdb.VerifPage) []string {
	var out []string
	switch p.Kind {
	case "tleaf":
		out = append(out, "tleaf")
		for _, c := range p.Cells {
			out = append(out, fmt.Sprintf("cell %d %s", c.Left, ShowPayload(c)))
		}
	case "tinterior":
		out = append(out, fmt.Sprintf("tinterior %d", p.Rightmost))
		for _, c := range p.Cells {
			out = append(out, fmt.Sprintf("cell %d %d", c.Left, c.Key))
		}
	case "ileaf":
		out = append(out, "ileaf")
		for _, c := range p.Cells {
			out = append(out, "cell "+ShowPayload(c))
		}
	case "iinterior":
		out = append(out, fmt.Sprintf("iinterior %d", p.Rightmost))
		for _, c := range p.Cells {
			out = append(out, fmt.Sprintf("cell %d %s", c.Left, ShowPayload(c)))
		}
	}
	return out
}

// MemPager serves pages from a byte slice; it can fail chosen pages, fail the
// k-th read, count reads and record lock calls.
type MemPager struct {
	Data      []byte
	FailPages map[int]bool
	ZeroPages map[int]bool // pages that read as all zero bytes (a lost write, a hole): no error from the pager
	FailAt    int  // fail the read with this 1-based ordinal (0 = never)
	Short     bool // the injected failure is a short read (io.EOF) instead of an I/O error
	Reads     int
	Locked    bool
	LockFail  bool
	Events    []string
	Reserved  bool
}

func (m *MemPager) Page(n int, pagesize int) ([]byte, error) {
	m.Reads++
	buf := make([]byte, pagesize)
	if m.FailPages[n] || m.Reads == m.FailAt {
		if m.Short {
			return buf, io.EOF
		}
		return buf, ErrInjected
	}
	off := int64(n-1) * int64(pagesize)
	if off < 0 || off >= int64(len(m.Data)) {
		return buf, io.EOF
	}
	if m.ZeroPages[n] && off+int64(pagesize) <= int64(len(m.Data)) {
		return buf, nil
	}
	c := copy(buf, m.Data[off:])
	if c < pagesize {
		return buf, io.EOF
	}
	return buf, nil
}
func (m *MemPager) Close() error { m.Events = append(m.Events, "close"); return nil }
func (m *MemPager) RLock() error {
	if m.LockFail {
		return errors.New("resource temporarily unavailable")
	}
	if m.Locked {
		return errors.New("trying to lock a locked lock")
	}
	m.Locked = true
	m.Events = append(m.Events, "lock")
	return nil
}
func (m *MemPager) RUnlock() error {
	if !m.Locked {
		return errors.New("trying to unlock an unlocked lock")
	}
	m.Locked = false
	m.Events = append(m.Events, "unlock")
	return nil
}
func (m *MemPager) CheckReservedLock() (bool, error) { return m.Reserved, nil }

// asciiLower folds A-Z only, the way SQLite folds identifiers ('É' and 'é' are different names)
func asciiLower(s string) string {
	b := []byte(s)
	for i, c := range b {
		if c >= 'A' && c <= 'Z' {
			b[i] = c + 'a' - 'A'
		}
	}
	return string(b)
}

func hx(s string) string { return hex.EncodeToString([]byte(asciiLower(s))) }

func showIcols(cs []sdb.IndexColumn) string {
	if len(cs) == 0 {
		return "-"
	}
	var out []string
	for _, c := range cs {
		d := "a"
		if c.SortOrder == sql.Desc {
			d = "d"
		}
		out = append(out, hx(c.Column)+":"+hx(c.Collate)+":"+d)
	}
	return strings.Join(out, "+")
}

// ShowDefault renders a column default the way ShowValue renders stored
// values; ok is false for a Go type that is not a storable value (bool).
func ShowDefault(v interface{}) (string, bool) {
	switch t := v.(type) {
	case nil, int64, float64, string, []byte:
		return ShowValue(t), true
	}
	return "n", false
}

// ShowSchema dumps a db.Schema in the format Model/Run.v reads:
// W;R;COLS;PK;PKNAME;INDEXES.  plain is false when the schema has something
// the dump cannot carry (a non-storable default).
func ShowSchema(s *sdb.Schema) (string, bool) {
	plain := true
	b2 := func(b bool) string {
		if b {
			return "1"
		}
		return "0"
	}
	cols := "-"
	if len(s.Columns) > 0 {
		var cs []string
		for _, c := range s.Columns {
			d, ok := ShowDefault(c.Default)
			plain = plain && ok
			cs = append(cs, hx(c.Column)+":"+b2(c.Rowid)+":"+d)
		}
		cols = strings.Join(cs, ",")
	}
	pkname := "-"
	if s.PrimaryKey != "" {
		pkname = hx(s.PrimaryKey)
	}
	inds := "-"
	if len(s.Indexes) > 0 {
		var is []string
		for _, i := range s.Indexes {
			is = append(is, hx(i.Index)+"="+showIcols(i.Columns))
		}
		inds = strings.Join(is, "/")
	}
	return strings.Join([]string{b2(s.WithoutRowid), b2(s.RowidPK), cols, showIcols(s.PK), pkname, inds}, ";"), plain
}

func Unhex(s string) string {
	b, _ := hex.DecodeString(s)
	return string(b)
}

func UnhexList(s string) []string {
	if s == "-" {
		return nil
	}
	var out []string
	for _, p := range strings.Split(s, ",") {
		out = append(out, Unhex(p))
	}
	return out
}

// DumpAST renders a parsed statement canonically (same format as
// Model/SqlParse.v show_ast): structs as Name{field=value;...} with fields
// sorted by name and zero-valued fields left out, interface fields present
// unless nil.
func DumpAST(v interface{}) string {
	if v == nil {
		return "nil"
	}
	return dumpValue(reflect.ValueOf(v))
}

func dumpValue(v reflect.Value) string {
	switch v.Kind() {
	case reflect.Interface, reflect.Ptr:
		if v.IsNil() {
			return "nil"
		}
		return dumpValue(v.Elem())
	case reflect.String:
		s := "s" + hex.EncodeToString([]byte(v.String()))
		if v.Type().PkgPath() != "" {
			return v.Type().Name() + "(" + s + ")"
		}
		return s
	case reflect.Int, reflect.Int64, reflect.Int32:
		s := "i" + strconv.FormatInt(v.Int(), 10)
		if v.Type().PkgPath() != "" {
			return v.Type().Name() + "(" + s + ")"
		}
		return s
	case reflect.Float64:
		return fmt.Sprintf("f%016x", math.Float64bits(v.Float()))
	case reflect.Bool:
		if v.Bool() {
			return "true"
		}
		return "false"
	case reflect.Slice:
		var el []string
		for i := 0; i < v.Len(); i++ {
			el = append(el, dumpValue(v.Index(i)))
		}
		return "[" + strings.Join(el, ",") + "]"
	case reflect.Struct:
		var fs []string
		t := v.Type()
		for i := 0; i < v.NumField(); i++ {
			f := v.Field(i)
			if f.Kind() != reflect.Struct && f.IsZero() {
				continue
			}
			if f.Kind() == reflect.Slice && f.Len() == 0 {
				continue
			}
			fs = append(fs, t.Field(i).Name+"="+dumpValue(f))
		}
		sort.Strings(fs)
		return t.Name() + "{" + strings.Join(fs, ";") + "}"
	}
	return "?" + v.Kind().String()
}
