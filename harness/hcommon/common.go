// Package hcommon holds what the harness commands share: the canonical text
// format (identical to coq/theories/Model/Run.v), the error classification
// and the in-memory fault-injecting pager.
package hcommon

import (
	"encoding/hex"
	"errors"
	"fmt"
	"io"
	"math"
	"strconv"
	"strings"

	sdb "github.com/alicebob/sqlittle/db"
)

var ErrInjected = errors.New("injected I/O error")

// ErrKind maps an error of the implementation to the model's error kinds.
func ErrKind(err error) string {
	switch {
	case err == nil:
		return "nil"
	case err == sdb.ErrCorrupted:
		return "corrupt"
	case err == sdb.VerifErrInternal:
		return "internal"
	case err == sdb.ErrRecursion:
		return "recursion"
	case err == sdb.ErrInvalidDef:
		return "invaliddef"
	case err == sdb.ErrInvalidMagic:
		return "magic"
	case err == sdb.ErrInvalidPageSize:
		return "pagesize"
	case err == sdb.ErrWAL:
		return "wal"
	case err == sdb.ErrIncompatible:
		return "incompatible"
	case err == sdb.ErrReservedSpace:
		return "reserved"
	case err == sdb.ErrEncoding:
		return "encoding"
	case err == sdb.ErrHotJournal:
		return "hotjournal"
	case err == sdb.ErrNoSuchTable, err == sdb.ErrNoSuchIndex:
		return "nosuch"
	case err == ErrInjected, err == io.EOF, err == io.ErrUnexpectedEOF:
		return "io"
	}
	switch err.Error() {
	case "invalid page number":
		return "pageno"
	case "unsupported page type":
		return "pagetype"
	case "invalid cell pointer", "invalid cell pointer array":
		return "cellptr"
	case "found an index, expected a table", "found a table, expected an index":
		return "kind"
	}
	return "other"
}

func ShowValue(v interface{}) string {
	switch t := v.(type) {
	case nil:
		return "n"
	case int64:
		return "i" + strconv.FormatInt(t, 10)
	case float64:
		return fmt.Sprintf("f%016x", math.Float64bits(t))
	case string:
		return "t" + hex.EncodeToString([]byte(t))
	case []byte:
		return "b" + hex.EncodeToString(t)
	}
	return fmt.Sprintf("?%T", v)
}

func ShowRecord(r []interface{}) string {
	if len(r) == 0 {
		return "-"
	}
	s := make([]string, len(r))
	for i, v := range r {
		s[i] = ShowValue(v)
	}
	return strings.Join(s, ",")
}

func ReadValue(s string) interface{} {
	if s == "" {
		return nil
	}
	switch s[0] {
	case 'i':
		n, _ := strconv.ParseInt(s[1:], 10, 64)
		return n
	case 'f':
		u, _ := strconv.ParseUint(s[1:], 16, 64)
		return math.Float64frombits(u)
	case 't':
		b, _ := hex.DecodeString(s[1:])
		return string(b)
	case 'b':
		b, _ := hex.DecodeString(s[1:])
		if b == nil {
			b = []byte{}
		}
		return b
	}
	return nil
}

func ReadRecord(s string) sdb.Record {
	if s == "-" {
		return nil
	}
	var r sdb.Record
	for _, p := range strings.Split(s, ",") {
		r = append(r, ReadValue(p))
	}
	return r
}

// ReadKey parses value/coll/dir[,value/coll/dir...] ("-" = empty key).
func ReadKey(s string) sdb.Key {
	if s == "-" {
		return sdb.Key{}
	}
	var k sdb.Key
	for _, p := range strings.Split(s, ",") {
		f := strings.Split(p, "/")
		kc := sdb.KeyCol{V: ReadValue(f[0])}
		if len(f) == 3 {
			switch f[1] {
			case "n":
				kc.Collate = "nocase"
			case "r":
				kc.Collate = "rtrim"
			case "B":
				kc.Collate = "binary"
			}
			kc.Desc = f[2] == "d"
		}
		k = append(k, kc)
	}
	return k
}

func ShowPayload(c sdb.VerifCell) string {
	local := c.Local
	if c.Overflow == 0 && int64(len(local)) >= c.Length && c.Length >= 0 {
		local = local[:c.Length]
	}
	return fmt.Sprintf("%d:%d:%s", c.Length, c.Overflow, hex.EncodeToString(local))
}

func ShowPage(p *sdb.VerifPage) []string {
	var out []string
	switch p.Kind {
	case "tleaf":
		out = append(out, "tleaf")
		for _, c := range p.Cells {
			out = append(out, fmt.Sprintf("cell %d %s", c.Left, ShowPayload(c)))
		}
	case "tinterior":
		out = append(out, fmt.Sprintf("tinterior %d", p.Rightmost))
		for _, c := range p.Cells {
			out = append(out, fmt.Sprintf("cell %d %d", c.Left, c.Key))
		}
	case "ileaf":
		out = append(out, "ileaf")
		for _, c := range p.Cells {
			out = append(out, "cell "+ShowPayload(c))
		}
	case "iinterior":
		out = append(out, fmt.Sprintf("iinterior %d", p.Rightmost))
		for _, c := range p.Cells {
			out = append(out, fmt.Sprintf("cell %d %s", c.Left, ShowPayload(c)))
		}
	}
	return out
}

// MemPager serves pages from a byte slice; it can fail chosen pages, fail the
// k-th read, count reads and record lock calls.
type MemPager struct {
	Data      []byte
	FailPages map[int]bool
	FailAt    int  // fail the read with this 1-based ordinal (0 = never)
	Short     bool // the injected failure is a short read (io.EOF) instead of an I/O error
	Reads     int
	Locked    bool
	LockFail  bool
	Events    []string
	Reserved  bool
}

func (m *MemPager) Page(n int, pagesize int) ([]byte, error) {
	m.Reads++
	buf := make([]byte, pagesize)
	if m.FailPages[n] || m.Reads == m.FailAt {
		if m.Short {
			return buf, io.EOF
		}
		return buf, ErrInjected
	}
	off := int64(n-1) * int64(pagesize)
	if off < 0 || off >= int64(len(m.Data)) {
		return buf, io.EOF
	}
	c := copy(buf, m.Data[off:])
	if c < pagesize {
		return buf, io.EOF
	}
	return buf, nil
}
func (m *MemPager) Close() error { m.Events = append(m.Events, "close"); return nil }
func (m *MemPager) RLock() error {
	if m.LockFail {
		return errors.New("resource temporarily unavailable")
	}
	if m.Locked {
		return errors.New("trying to lock a locked lock")
	}
	m.Locked = true
	m.Events = append(m.Events, "lock")
	return nil
}
func (m *MemPager) RUnlock() error {
	if !m.Locked {
		return errors.New("trying to unlock an unlocked lock")
	}
	m.Locked = false
	m.Events = append(m.Events, "unlock")
	return nil
}
func (m *MemPager) CheckReservedLock() (bool, error) { return m.Reserved, nil }
