// concrun runs per-goroutine operation programs on independent handles, either one
// goroutine after the other or all at once, and prints one digest per operation.
// It is built with -race: a detected race goes to stderr ("WARNING: DATA RACE") and
// makes the exit code 66.
//
// Scenario on stdin:
//
//	file NAME PATH
//	pool NAME FILE MAXCONNS              a database/sql pool (shared by the goroutines that use it)
//	goroutine ID native FILE             own sqlittle.DB handle
//	goroutine ID sql POOL                own use of a shared pool
//	op ID select TABLE COLS
//	op ID selectdone TABLE K COLS
//	op ID rowid TABLE N COLS
//	op ID iselect TABLE INDEX COLS
//	op ID iselecteq TABLE INDEX KEY COLS
//	op ID pkselect TABLE KEY COLS
//	op ID columns TABLE
//	op ID reopen                         close the handle and open a new one
//	op ID sqlq TABLE COLS K MODE         (sql goroutines) read K rows (-1: all), MODE close|cancel|drain
//	op ID sqlqc TABLE COLS               Query and Close at once
//	op ID psq TABLE COLS K               the pool's shared prepared statement for (TABLE, COLS)
//	op ID txnest T1 C1 T2 C2 K          one sql.Tx: for each of the first K rows of T1 a complete query of T2 while T1's result set is open;
//	                                     compared inside the op with the same loops through the native API
//	run sequential|concurrent SEED
package main

import (
	sqlparse "github.com/alicebob/sqlittle/sql"
	"encoding/hex"
	"bufio"
	"context"
	"database/sql"
	"fmt"
	"hash/fnv"
	"math/rand"
	"os"
	"runtime"
	"strconv"
	"strings"
	"sync"
	"time"

	"github.com/alicebob/sqlittle"
	_ "github.com/alicebob/sqlittle/driver"

	h "verifharness/hcommon"
)

type gor struct {
	id     string
	kind   string // native | sql
	file   string
	pool   string
	ops    [][]string
	result []string
}

var (
	files = map[string]string{}
	pools = map[string]*sql.DB{}
	pdefs = map[string][2]string{}
	gors  []*gor
	byID  = map[string]*gor{}
	prepM sync.Mutex
	preps = map[string]*sql.Stmt{}
)

func cols(s string) []string {
	if s == "-" {
		return nil
	}
	return strings.Split(s, ",")
}

func key(s string) sqlittle.Key {
	k := sqlittle.Key{}
	if s == "-" {
		return k
	}
	for _, p := range strings.Split(s, ",") {
		k = append(k, h.ReadValue(p))
	}
	return k
}

type digest struct {
	n int
	h uint64
}

func (d *digest) add(s string) {
	f := fnv.New64a()
	f.Write([]byte(s))
	d.h = d.h*1099511628211 + f.Sum64()
	d.n++
}

func (d *digest) String(err error) string {
	return fmt.Sprintf("n=%d h=%016x err=%s", d.n, d.h, h.ErrKind(err))
}

func showRow(r []interface{}) string { return h.ShowRecord(r) }

func expandCols(db *sqlittle.DB, table string, cs []string) []string {
	var out []string
	for _, c := range cs {
		if c == "*" {
			all, err := db.Columns(table)
			if err != nil {
				return cs
			}
			out = append(out, all...)
		} else {
			out = append(out, c)
		}
	}
	return out
}

func nativeOp(g *gor, db **sqlittle.DB, w []string) string {
	var d digest
	cb := func(r sqlittle.Row) { d.add(showRow(r)) }
	var err error
	switch w[0] {
	case "select":
		err = (*db).Select(w[1], cb, expandCols(*db, w[1], cols(w[2]))...)
	case "selectdone":
		k, _ := strconv.Atoi(w[2])
		err = (*db).SelectDone(w[1], func(r sqlittle.Row) bool { cb(r); return d.n >= k }, expandCols(*db, w[1], cols(w[3]))...)
	case "rowid":
		n, _ := strconv.ParseInt(w[2], 10, 64)
		var r sqlittle.Row
		r, err = (*db).SelectRowid(w[1], n, expandCols(*db, w[1], cols(w[3]))...)
		if r != nil {
			cb(r)
		}
	case "iselect":
		err = (*db).IndexedSelect(w[1], w[2], cb, expandCols(*db, w[1], cols(w[3]))...)
	case "iselecteq":
		err = (*db).IndexedSelectEq(w[1], w[2], key(w[3]), cb, expandCols(*db, w[1], cols(w[4]))...)
	case "pkselect":
		err = (*db).PKSelect(w[1], key(w[2]), cb, expandCols(*db, w[1], cols(w[3]))...)
	case "columns":
		var cs []string
		cs, err = (*db).Columns(w[1])
		d.add(strings.Join(cs, ","))
	case "def":
		// the low level Table.Def() (the parsed CREATE TABLE statement) of a table
		ld := sqlittle.VerifDatabase(*db)
		if lerr := ld.RLock(); lerr != nil {
			err = lerr
			break
		}
		tb, terr := ld.Table(w[1])
		if terr == nil {
			st, derr := tb.Def()
			d.add(fmt.Sprintf("%#v", st))
			terr = derr
		}
		ld.RUnlock()
		err = terr
	case "parse":
		// sql.Parse on a statement given as hex: the same text parses to the same statement (or the same error) whatever
		// other goroutines parse at the same time and whatever was parsed before
		b, _ := hex.DecodeString(w[1])
		st, perr := sqlparse.Parse(string(b))
		d.add(fmt.Sprintf("%#v", st))
		err = perr
	case "reopen", "reopen2":
		(*db).Close()
		if w[0] == "reopen2" {
			// the usual `defer db.Close()` after an explicit, error checked Close(): a second Close of the SAME handle
			(*db).Close()
		}
		*db, err = sqlittle.Open(files[g.file])
		if err != nil {
			return "reopen-failed"
		}
	default:
		return "bad-op"
	}
	return d.String(err)
}

func scanRow(rows *sql.Rows) (string, error) {
	cn, err := rows.Columns()
	if err != nil {
		return "", err
	}
	vals := make([]interface{}, len(cn))
	ptrs := make([]interface{}, len(cn))
	for i := range vals {
		ptrs[i] = &vals[i]
	}
	if err := rows.Scan(ptrs...); err != nil {
		return "", err
	}
	return showRow(vals), nil
}

func sqlOp(g *gor, w []string) string {
	pool := pools[g.pool]
	var d digest
	read := func(rows *sql.Rows, k int) error {
		for (k < 0 || d.n < k) && rows.Next() {
			s, err := scanRow(rows)
			if err != nil {
				return err
			}
			d.add(s)
		}
		return nil
	}
	q := func(table, cs string) string { return "SELECT " + strings.Join(cols(cs), ", ") + " FROM " + table }
	switch w[0] {
	case "sqlq":
		k, _ := strconv.Atoi(w[3])
		ctx, cancel := context.WithCancel(context.Background())
		defer cancel()
		rows, err := pool.QueryContext(ctx, q(w[1], w[2]))
		if err != nil {
			return d.String(err)
		}
		err = read(rows, k)
		if w[4] == "cancel" {
			cancel()
		}
		cerr := rows.Close()
		if err == nil && w[4] == "drain" {
			err = rows.Err()
		}
		if err == nil && w[4] == "close" {
			err = cerr
		}
		return d.String(err)
	case "sqlqc":
		rows, err := pool.Query(q(w[1], w[2]))
		if err != nil {
			return d.String(err)
		}
		return d.String(rows.Close())
	case "psq":
		k, _ := strconv.Atoi(w[3])
		name := g.pool + "|" + q(w[1], w[2])
		prepM.Lock()
		st := preps[name]
		if st == nil {
			var err error
			st, err = pool.Prepare(q(w[1], w[2]))
			if err != nil {
				prepM.Unlock()
				return d.String(err)
			}
			preps[name] = st
		}
		prepM.Unlock()
		rows, err := st.Query()
		if err != nil {
			return d.String(err)
		}
		err = read(rows, k)
		cerr := rows.Close()
		if err == nil {
			err = cerr
		}
		return d.String(err)
	case "txnest":
		k, _ := strconv.Atoi(w[5])
		tx, err := pool.Begin()
		if err != nil {
			return d.String(err)
		}
		defer tx.Rollback()
		rows, err := tx.Query(q(w[1], w[2]))
		if err != nil {
			return "NESTED-MISMATCH outer query: " + err.Error()
		}
		n := 0
		for rows.Next() {
			s, err := scanRow(rows)
			if err != nil {
				rows.Close()
				return "NESTED-MISMATCH outer scan: " + err.Error()
			}
			d.add(s)
			if n < k {
				rows2, err := tx.Query(q(w[3], w[4]))
				if err != nil {
					rows.Close()
					return "NESTED-MISMATCH a query issued while another result set of the same transaction is open fails: " + err.Error()
				}
				for rows2.Next() {
					s2, err := scanRow(rows2)
					if err != nil {
						rows2.Close()
						rows.Close()
						return "NESTED-MISMATCH inner scan: " + err.Error()
					}
					d.add(s2)
				}
				if err := rows2.Err(); err != nil {
					rows2.Close()
					rows.Close()
					return "NESTED-MISMATCH inner rows.Err: " + err.Error()
				}
				rows2.Close()
			}
			n++
		}
		if err := rows.Err(); err != nil {
			rows.Close()
			return "NESTED-MISMATCH outer rows.Err: " + err.Error()
		}
		rows.Close()
		// the same loops through the native API on a handle of its own
		ndb, err := sqlittle.Open(files[pdefs[g.pool][0]])
		if err != nil {
			return d.String(err)
		}
		defer ndb.Close()
		var nd digest
		var outer []string
		if err := ndb.Select(w[1], func(r sqlittle.Row) { outer = append(outer, showRow(r)) }, expandCols(ndb, w[1], cols(w[2]))...); err != nil {
			return d.String(err)
		}
		for i, s := range outer {
			nd.add(s)
			if i < k {
				if err := ndb.Select(w[3], func(r sqlittle.Row) { nd.add(showRow(r)) }, expandCols(ndb, w[3], cols(w[4]))...); err != nil {
					return d.String(err)
				}
			}
		}
		if nd.String(nil) != d.String(nil) {
			return "NESTED-MISMATCH nested result sets in one transaction: " + d.String(nil) + " native " + nd.String(nil)
		}
		return d.String(nil)
	}
	return "bad-op"
}

func runGor(g *gor, rng *rand.Rand, jitter bool) {
	g.result = make([]string, len(g.ops))
	var db *sqlittle.DB
	if g.kind == "native" {
		var err error
		db, err = sqlittle.Open(files[g.file])
		if err != nil {
			for i := range g.result {
				g.result[i] = "open-failed"
			}
			return
		}
		defer func() { db.Close() }()
	}
	for i, w := range g.ops {
		if jitter {
			switch rng.Intn(6) {
			case 0:
				runtime.Gosched()
			case 1:
				time.Sleep(time.Duration(rng.Intn(200)) * time.Microsecond)
			}
		}
		func() {
			defer func() {
				if r := recover(); r != nil {
					g.result[i] = fmt.Sprintf("PANIC %v", r)
				}
			}()
			if g.kind == "native" {
				g.result[i] = nativeOp(g, &db, w)
			} else {
				g.result[i] = sqlOp(g, w)
			}
		}()
	}
}

func main() {
	out := bufio.NewWriter(os.Stdout)
	defer out.Flush()
	sc := bufio.NewScanner(os.Stdin)
	sc.Buffer(make([]byte, 1<<20), 1<<26)
	for sc.Scan() {
		w := strings.Fields(sc.Text())
		if len(w) == 0 || strings.HasPrefix(w[0], "#") {
			continue
		}
		switch w[0] {
		case "file":
			files[w[1]] = w[2]
		case "pool":
			pdefs[w[1]] = [2]string{w[2], w[3]}
		case "goroutine":
			g := &gor{id: w[1], kind: w[2]}
			if g.kind == "native" {
				g.file = w[3]
			} else {
				g.pool = w[3]
			}
			gors = append(gors, g)
			byID[g.id] = g
		case "op":
			byID[w[1]].ops = append(byID[w[1]].ops, w[2:])
		case "run":
			seed, _ := strconv.ParseInt(w[2], 10, 64)
			for name, d := range pdefs {
				p, err := sql.Open("sqlittle", files[d[0]])
				if err != nil {
					fmt.Fprintf(out, "pool-open-failed %s\n", name)
					return
				}
				n, _ := strconv.Atoi(d[1])
				p.SetMaxOpenConns(n)
				p.SetMaxIdleConns(n)
				pools[name] = p
			}
			if w[1] == "sequential" {
				for _, g := range gors {
					runGor(g, rand.New(rand.NewSource(seed)), false)
				}
			} else {
				var wg sync.WaitGroup
				start := make(chan struct{})
				for i, g := range gors {
					wg.Add(1)
					go func(i int, g *gor) {
						defer wg.Done()
						<-start
						runGor(g, rand.New(rand.NewSource(seed*1000+int64(i))), true)
					}(i, g)
				}
				close(start)
				wg.Wait()
			}
			prepM.Lock()
			for _, st := range preps {
				st.Close()
			}
			prepM.Unlock()
			for _, p := range pools {
				p.Close()
			}
			for _, g := range gors {
				for i, r := range g.result {
					fmt.Fprintf(out, "res %s %d %s\n", g.id, i, r)
				}
			}
			return
		}
	}
}
