// unitab prints, as maximal intervals over 0..0x10FFFF, the runes for which
// unicode.IsLetter / IsDigit / IsSpace hold in the Go toolchain that builds the
// harness (and therefore the library under test).  tools/regen.py turns the
// output into Gen/Lexer.v on every build.
package main

import (
	"fmt"
	"unicode"
)

func dump(name string, f func(rune) bool) {
	fmt.Printf("%s", name)
	start := rune(-1)
	for r := rune(0); r <= unicode.MaxRune+1; r++ {
		in := r <= unicode.MaxRune && f(r)
		if in && start < 0 {
			start = r
		}
		if !in && start >= 0 {
			fmt.Printf(" %d-%d", start, r-1)
			start = -1
		}
	}
	fmt.Println()
}

func main() {
	dump("letter", unicode.IsLetter)
	dump("digit", unicode.IsDigit)
	dump("space", unicode.IsSpace)
}
