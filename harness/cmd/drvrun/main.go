// drvrun drives sqlittle's database/sql driver next to the native API.
// Commands on stdin, one per line; answers on stdout.
//
//	open PATH                      database file for everything below
//	native TABLE COLS              native DB.Select: "native N fin=-|E:<kind>" (rows kept for comparison)
//	drv TABLE COLS PROG DELAY      driver level: Statement.QueryContext, then the consumer program
//	                               PROG (N = Rows.Next, X = cancel the context, C = Rows.Close), DELAY = jitter
//	                               between operations; "outcome <observations> | <exited|parked> <locked|unlocked> fds=.."
//	sql TABLE COLS K MODE DELAY    database/sql level: read K rows (-1: all) then MODE = close|cancel|drain
//	sqlerr HEXQUERY                where an error of a bad statement surfaces
//	prep TABLE COLS / pq / pclose  one prepared statement used repeatedly
//	probe PATH                     (separate process) does any other process hold a lock on the file?
//
// COLS is a comma separated list, "*" allowed.
package main

import (
	"bufio"
	"context"
	"database/sql"
	"database/sql/driver"
	"fmt"
	"io"
	"os"
	"os/exec"
	"runtime"
	"strings"
	"syscall"
	"time"

	"github.com/alicebob/sqlittle"
	sqdriver "github.com/alicebob/sqlittle/driver"

	h "verifharness/hcommon"
)

var (
	out      = bufio.NewWriter(os.Stdout)
	path     string
	nativeRs []string // the native result, one canonical string per row
	nativeE  error
)

func die(f string, a ...interface{}) {
	fmt.Fprintf(out, f+"\n", a...)
	out.Flush()
	os.Exit(3)
}

func cols(s string) []string { return strings.Split(s, ",") }

func showRow(r []interface{}) string { return h.ShowRecord(r) }

func expand(db *sqlittle.DB, table string, cs []string) ([]string, error) {
	var res []string
	for _, c := range cs {
		if c == "*" {
			all, err := db.Columns(table)
			if err != nil {
				return nil, err
			}
			res = append(res, all...)
			continue
		}
		res = append(res, c)
	}
	return res, nil
}

// the native API's answer, on a fresh handle
func native(table string, cs []string) ([]string, error) {
	db, err := sqlittle.Open(path)
	if err != nil {
		return nil, err
	}
	defer db.Close()
	ex, err := expand(db, table, cs)
	if err != nil {
		return nil, err
	}
	var rows []string
	err = db.Select(table, func(r sqlittle.Row) {
		cp := make([]interface{}, len(r))
		for i, v := range r {
			if b, ok := v.([]byte); ok {
				v = append([]byte(nil), b...)
			}
			cp[i] = v
		}
		rows = append(rows, showRow(cp))
	}, ex...)
	return rows, err
}

func jitter(d string) {
	switch d {
	case "1":
		runtime.Gosched()
	case "2":
		time.Sleep(50 * time.Microsecond)
	case "3":
		time.Sleep(2 * time.Millisecond)
	}
}

// F_GETLK from a separate process: POSIX locks of this process are invisible to itself
func probe() string {
	c := exec.Command(os.Args[0], "probe", path)
	b, err := c.Output()
	if err != nil {
		return "probe-failed"
	}
	return strings.TrimSpace(string(b))
}

func doProbe(p string) {
	f, err := os.Open(p)
	if err != nil {
		fmt.Println("probe-open-failed")
		return
	}
	defer f.Close()
	// the whole lock page: pending, reserved and the shared range
	lk := syscall.Flock_t{Type: syscall.F_WRLCK, Whence: 0, Start: 0x40000000, Len: 512}
	if err := syscall.FcntlFlock(f.Fd(), syscall.F_GETLK, &lk); err != nil {
		fmt.Println("probe-failed")
		return
	}
	if lk.Type == syscall.F_UNLCK {
		fmt.Println("unlocked")
	} else {
		fmt.Println("locked")
	}
}

func fdsOnFile() int {
	ents, err := os.ReadDir("/proc/self/fd")
	if err != nil {
		return -1
	}
	n := 0
	for _, e := range ents {
		t, err := os.Readlink("/proc/self/fd/" + e.Name())
		if err == nil && t == path {
			n++
		}
	}
	return n
}

// the goroutine count once it has stopped moving: helpers of the previous command
// (exec's copy goroutines, the watchdog of bounded) may still be on their way out
func quiesce() int {
	prev, stable := -1, 0
	deadline := time.Now().Add(2 * time.Second)
	for {
		n := runtime.NumGoroutine()
		if n == prev {
			stable++
		} else {
			stable = 0
		}
		prev = n
		if stable >= 4 || time.Now().After(deadline) {
			return n
		}
		time.Sleep(300 * time.Microsecond)
	}
}

// wait for the goroutine count to come back to base
func settled(base int, patience time.Duration) bool {
	deadline := time.Now().Add(patience)
	for {
		if runtime.NumGoroutine() <= base {
			return true
		}
		if time.Now().After(deadline) {
			return false
		}
		time.Sleep(200 * time.Microsecond)
	}
}

// run f, give up after 10 s (a hang is an answer too)
func bounded(what string, f func()) {
	done := make(chan struct{})
	go func() { f(); close(done) }()
	select {
	case <-done:
	case <-time.After(10 * time.Second):
		die("HANG %s", what)
	}
}

func obsRow(dest []driver.Value, k int) string {
	r := make([]interface{}, len(dest))
	for i, v := range dest {
		r[i] = v
	}
	s := showRow(r)
	if k < len(nativeRs) && nativeRs[k] == s {
		return fmt.Sprintf("r%d", k+1)
	}
	return "r?" + s
}

func errObs(err error) string {
	if err == nil {
		return "nil"
	}
	return "err"
}

func cmdDrv(table string, cs []string, prog, delay string) {
	base := quiesce()
	fd0 := fdsOnFile()
	conn, err := sqdriver.Open(path)
	if err != nil {
		fmt.Fprintf(out, "outcome open-err\n")
		return
	}
	q := "SELECT " + strings.Join(cs, ", ") + " FROM " + table
	st, err := conn.Prepare(q)
	if err != nil {
		fmt.Fprintf(out, "outcome prepare-err %s\n", h.ErrKind(err))
		return
	}
	ctx, cancel := context.WithCancel(context.Background())
	defer cancel()
	rows, err := st.(driver.StmtQueryContext).QueryContext(ctx, nil)
	if err != nil {
		st.Close()
		fmt.Fprintf(out, "outcome query-err %s\n", h.ErrKind(err))
		return
	}
	var obs []string
	got := 0
	dest := make([]driver.Value, len(rows.Columns()))
	for _, op := range prog {
		jitter(delay)
		switch op {
		case 'N':
			var e error
			bounded("Next", func() { e = rows.Next(dest) })
			switch {
			case e == nil:
				obs = append(obs, obsRow(dest, got))
				got++
			case e == io.EOF:
				obs = append(obs, "eof")
			default:
				if nativeE != nil && h.ErrKind(e) == h.ErrKind(nativeE) {
					obs = append(obs, "err")
				} else {
					obs = append(obs, "err?"+h.ErrKind(e))
				}
			}
		case 'X':
			cancel()
		case 'C':
			var e error
			bounded("Close", func() { e = rows.Close() })
			if e != nil && (nativeE == nil || h.ErrKind(e) != h.ErrKind(nativeE)) {
				obs = append(obs, "closed:err?"+h.ErrKind(e))
			} else {
				obs = append(obs, "closed:"+errObs(e))
			}
		}
	}
	// what is left of the producer
	prod := "exited"
	if !settled(base, 300*time.Millisecond) {
		prod = "parked"
	}
	lock := probe()
	fmt.Fprintf(out, "outcome %s | %s %s", strings.Join(obs, " "), prod, lock)
	// clean up whatever the program left behind, then look for leaks
	cancel()
	bounded("final Close", func() { rows.Close() })
	st.Close()
	conn.Close()
	leak := "ok"
	if !settled(base, 2*time.Second) {
		leak = "goroutine-leak"
	}
	if fdsOnFile() != fd0 {
		leak += ",fd-leak"
	}
	if p := probe(); p != "unlocked" {
		leak += ",lock-" + p
	}
	fmt.Fprintf(out, " after=%s\n", leak)
}

func scanAll(rows *sql.Rows) ([]interface{}, error) {
	cn, err := rows.Columns()
	if err != nil {
		return nil, err
	}
	vals := make([]interface{}, len(cn))
	ptrs := make([]interface{}, len(cn))
	for i := range vals {
		ptrs[i] = &vals[i]
	}
	if err := rows.Scan(ptrs...); err != nil {
		return nil, err
	}
	return vals, nil
}

func cmdSQL(dbh *sql.DB, table string, cs []string, k int, mode, delay string) {
	base := quiesce()
	fd0 := fdsOnFile()
	ctx, cancel := context.WithCancel(context.Background())
	defer cancel()
	q := "SELECT " + strings.Join(cs, ", ") + " FROM " + table
	rows, err := dbh.QueryContext(ctx, q)
	if err != nil {
		fmt.Fprintf(out, "sql query-err %s\n", h.ErrKind(err))
		return
	}
	n, match := 0, true
	scanErr := "nil"
	for (k < 0 || n < k) && rows.Next() {
		vals, err := scanAll(rows)
		if err != nil {
			scanErr = "scan"
			break
		}
		if n >= len(nativeRs) || nativeRs[n] != showRow(vals) {
			match = false
		}
		n++
		jitter(delay)
	}
	var closeErr error
	switch mode {
	case "cancel":
		cancel()
		jitter(delay)
		bounded("sql Close", func() { closeErr = rows.Close() })
	default:
		bounded("sql Close", func() { closeErr = rows.Close() })
	}
	rerr := rows.Err()
	kind := func(e error) string {
		switch {
		case e == nil:
			return "nil"
		case e == context.Canceled:
			return "canceled"
		case nativeE != nil && h.ErrKind(e) == h.ErrKind(nativeE):
			return "native"
		}
		return "other:" + h.ErrKind(e)
	}
	leak := "ok"
	if !settled(base, 2*time.Second) {
		leak = "goroutine-leak"
	}
	if fdsOnFile() != fd0 {
		leak += ",fd-leak"
	}
	if p := probe(); p != "unlocked" {
		leak += ",lock-" + p
	}
	fmt.Fprintf(out, "sql rows=%d match=%v scan=%s err=%s close=%s after=%s\n", n, match, scanErr, kind(rerr), kind(closeErr), leak)
}

func cmdSQLErr(dbh *sql.DB, q string) {
	rows, err := dbh.Query(q)
	if err != nil {
		fmt.Fprintf(out, "sqlerr query\n")
		return
	}
	defer rows.Close()
	n := 0
	for rows.Next() {
		if _, err := scanAll(rows); err != nil {
			fmt.Fprintf(out, "sqlerr scan rows=%d\n", n)
			return
		}
		n++
	}
	if rows.Err() != nil {
		fmt.Fprintf(out, "sqlerr rowserr rows=%d\n", n)
		return
	}
	fmt.Fprintf(out, "sqlerr none rows=%d\n", n)
}

func dumpRows(rows *sql.Rows) string {
	cn, _ := rows.Columns()
	var rs []string
	for rows.Next() {
		vals, err := scanAll(rows)
		if err != nil {
			return "scan-err"
		}
		rs = append(rs, showRow(vals))
	}
	if rows.Err() != nil {
		return "rows-err " + h.ErrKind(rows.Err())
	}
	return "cols=" + strings.Join(cn, ",") + " rows=" + strings.Join(rs, ";")
}

func main() {
	defer out.Flush()
	if len(os.Args) == 3 && os.Args[1] == "probe" {
		doProbe(os.Args[2])
		return
	}
	var dbh *sql.DB
	var prepared *sql.Stmt
	sc := bufio.NewScanner(os.Stdin)
	sc.Buffer(make([]byte, 1<<20), 1<<26)
	for sc.Scan() {
		line := sc.Text()
		w := strings.Fields(line)
		switch {
		case line == "":
		case line[0] == '#':
			fmt.Fprintln(out, line)
		case w[0] == "open" && len(w) == 2:
			if dbh != nil {
				dbh.Close()
			}
			path = w[1]
			var err error
			dbh, err = sql.Open("sqlittle", path)
			if err != nil {
				die("open failed %v", err)
			}
			dbh.Ping()
			time.Sleep(time.Millisecond)
		case w[0] == "native" && len(w) == 3:
			nativeRs, nativeE = native(w[1], cols(w[2]))
			if nativeE != nil {
				fmt.Fprintf(out, "native %d fin=E:%s\n", len(nativeRs), h.ErrKind(nativeE))
			} else {
				fmt.Fprintf(out, "native %d fin=-\n", len(nativeRs))
			}
		case w[0] == "drv" && len(w) == 5:
			cmdDrv(w[1], cols(w[2]), w[3], w[4])
		case w[0] == "sql" && len(w) == 6:
			k := 0
			fmt.Sscanf(w[3], "%d", &k)
			cmdSQL(dbh, w[1], cols(w[2]), k, w[4], w[5])
		case w[0] == "sqlerr" && len(w) == 2:
			if w[1] == "-" {
				cmdSQLErr(dbh, "")
			} else {
				cmdSQLErr(dbh, h.Unhex(w[1]))
			}
		case w[0] == "prep" && len(w) == 3:
			var err error
			prepared, err = dbh.Prepare("SELECT " + strings.Join(cols(w[2]), ", ") + " FROM " + w[1])
			if err != nil {
				fmt.Fprintf(out, "prep err %s\n", h.ErrKind(err))
			} else {
				fmt.Fprintf(out, "prep ok\n")
			}
		case w[0] == "pq":
			rows, err := prepared.Query()
			if err != nil {
				fmt.Fprintf(out, "pq query-err %s\n", h.ErrKind(err))
				break
			}
			fmt.Fprintf(out, "pq %s\n", dumpRows(rows))
			rows.Close()
		case w[0] == "fresh" && len(w) == 3:
			// the native answer on a brand new handle, with the column names
			db, err := sqlittle.Open(path)
			if err != nil {
				fmt.Fprintf(out, "fresh open-err\n")
				break
			}
			ex, err := expand(db, w[1], cols(w[2]))
			db.Close()
			if err != nil {
				fmt.Fprintf(out, "fresh err %s\n", h.ErrKind(err))
				break
			}
			rs, err := native(w[1], cols(w[2]))
			if err != nil {
				fmt.Fprintf(out, "fresh rows-err %s\n", h.ErrKind(err))
				break
			}
			fmt.Fprintf(out, "fresh cols=%s rows=%s\n", strings.Join(ex, ","), strings.Join(rs, ";"))
		case w[0] == "pclose":
			if prepared != nil {
				prepared.Close()
				prepared = nil
			}
		default:
			die("bad command %q", line)
		}
		out.Flush()
	}
}
