// implrun runs the same text commands as coq/extract/modelrun on the real
// sqlittle code (built from /repo with -tags verif) and prints its answers in
// the same canonical format.
package main

import (
	"bufio"
	"encoding/hex"
	"fmt"
	"math"
	"os"
	"strconv"
	"strings"
	"time"

	"github.com/alicebob/sqlittle"
	sdb "github.com/alicebob/sqlittle/db"
	"github.com/alicebob/sqlittle/sql"
	h "verifharness/hcommon"
)

var (
	lastClock = time.Now()
	out   = bufio.NewWriterSize(os.Stdout, 1<<20)
	pager *h.MemPager
	db    *sdb.Database
)

func cols(s string) []string {
	if s == "-" {
		return nil
	}
	return strings.Split(s, ",")
}

func hkey(s string) sqlittle.Key {
	k := sqlittle.Key{}
	if s == "-" {
		return k
	}
	for _, p := range strings.Split(s, ",") {
		k = append(k, h.ReadValue(p))
	}
	return k
}

// high level API over the same pager. Output: row lines, then end ok|stop|err KIND,
// then "locks <events since the call started>"
func highcmd(w []string) bool {
	if db == nil {
		return false
	}
	hd := wrapped(db)
	n, limit, stopped := 0, 0, false
	rowcb := func(r sqlittle.Row) {
		fmt.Fprintf(out, "row %s\n", h.ShowRecord([]interface{}(r)))
		n++
	}
	finish := func(err error) {
		if err != nil {
			fmt.Fprintf(out, "end err %s\n", h.ErrKind(err))
		} else if stopped {
			fmt.Fprintln(out, "end stop")
		} else {
			fmt.Fprintln(out, "end ok")
		}
		if pager != nil {
			fmt.Fprintf(out, "locks %s locked=%v\n", strings.Join(pager.Events, ","), pager.Locked)
		} else {
			fmt.Fprintf(out, "locks lock,unlock locked=false\n") // real pager: the OS level lock is probed by C06's check
		}
	}
	if pager != nil {
		pager.Events = nil
	}
	switch {
	case w[0] == "select" && len(w) == 4:
		limit = atoi(w[2])
		guard("end err ", func() {
			err := hd.SelectDone(w[1], func(r sqlittle.Row) bool {
				rowcb(r)
				if limit > 0 && n >= limit {
					stopped = true
				}
				return stopped
			}, cols(w[3])...)
			finish(err)
		})
	case w[0] == "selectrowid" && len(w) == 4:
		guard("end err ", func() {
			r, err := hd.SelectRowid(w[1], atoi64(w[2]), cols(w[3])...)
			if err == nil && r != nil {
				rowcb(r)
			}
			finish(err)
		})
	case w[0] == "iselect" && len(w) == 4:
		guard("end err ", func() { finish(hd.IndexedSelect(w[1], w[2], rowcb, cols(w[3])...)) })
	case w[0] == "iselecteq" && len(w) == 5:
		guard("end err ", func() { finish(hd.IndexedSelectEq(w[1], w[2], hkey(w[3]), rowcb, cols(w[4])...)) })
	case w[0] == "pkselect" && len(w) == 4:
		guard("end err ", func() { finish(hd.PKSelect(w[1], hkey(w[2]), rowcb, cols(w[3])...)) })
	case w[0] == "schema" && len(w) == 2:
		guard("schema err ", func() {
			if err := db.RLock(); err != nil {
				fmt.Fprintf(out, "schema err lock\n")
				return
			}
			defer db.RUnlock()
			sc, err := db.Schema(h.Unhex(w[1]))
			if err != nil {
				fmt.Fprintf(out, "schema err %s\n", h.ErrKind(err))
				return
			}
			d, plain := h.ShowSchema(sc)
			fmt.Fprintf(out, "schema %s plain=%v\n", d, plain)
		})
	case w[0] == "schemax" && len(w) == 2:
		// the dump plus what it does not carry: NOT NULL flags and collations of the table's columns
		guard("schema err ", func() {
			if err := db.RLock(); err != nil {
				fmt.Fprintf(out, "schema err lock\n")
				return
			}
			defer db.RUnlock()
			sc, err := db.Schema(h.Unhex(w[1]))
			if err != nil {
				fmt.Fprintf(out, "schema err %s\n", h.ErrKind(err))
				return
			}
			d, _ := h.ShowSchema(sc)
			var ex []string
			for _, c := range sc.Columns {
				n := "0"
				if c.Null {
					n = "1"
				}
				ex = append(ex, n+":"+hex.EncodeToString([]byte(strings.ToLower(c.Collate))))
			}
			fmt.Fprintf(out, "schema %s %s\n", d, strings.Join(ex, ","))
		})
	case w[0] == "hselect" && len(w) == 5:
		limit = atoi(w[3])
		guard("end err ", func() {
			err := hd.SelectDone(h.Unhex(w[2]), func(r sqlittle.Row) bool {
				rowcb(r)
				if limit > 0 && n >= limit {
					stopped = true
				}
				return stopped
			}, h.UnhexList(w[4])...)
			finish(err)
		})
	case w[0] == "hselectrowid" && len(w) == 5:
		guard("end err ", func() {
			r, err := hd.SelectRowid(h.Unhex(w[2]), atoi64(w[3]), h.UnhexList(w[4])...)
			if err == nil && r != nil {
				rowcb(r)
			}
			finish(err)
		})
	case w[0] == "hiselect" && len(w) == 5:
		guard("end err ", func() {
			finish(hd.IndexedSelect(h.Unhex(w[2]), h.Unhex(w[3]), rowcb, h.UnhexList(w[4])...))
		})
	case w[0] == "hiselecteq" && len(w) == 6:
		guard("end err ", func() {
			finish(hd.IndexedSelectEq(h.Unhex(w[2]), h.Unhex(w[3]), hkey(w[4]), rowcb, h.UnhexList(w[5])...))
		})
	case w[0] == "hpkselect" && len(w) == 5:
		guard("end err ", func() {
			finish(hd.PKSelect(h.Unhex(w[2]), hkey(w[3]), rowcb, h.UnhexList(w[4])...))
		})
	case w[0] == "scanmut" && len(w) == 3:
		// scan column w[2] of every row of table w[1] into []byte and string, scribble over the
		// bytes, read everything again through the same handle, close the handle, compare
		guard("scanmut PANIC ", func() {
			read := func() ([][]byte, []string, error) {
				var bs [][]byte
				var ss []string
				err := hd.Select(w[1], func(r sqlittle.Row) {
					var b []byte
					var s string
					if err := r.Scan(&b); err != nil {
						panic(err)
					}
					r.Scan(&s)
					bs = append(bs, b)
					ss = append(ss, s)
				}, w[2])
				return bs, ss, err
			}
			first, firstS, err := read()
			if err != nil {
				fmt.Fprintf(out, "scanmut err %v\n", err)
				return
			}
			keep := make([][]byte, len(first))
			for i, b := range first {
				keep[i] = append([]byte(nil), b...)
			}
			for _, b := range first {
				for i := range b {
					b[i] = 'X'
				}
			}
			second, _, err := read()
			if err != nil {
				fmt.Fprintf(out, "scanmut err %v\n", err)
				return
			}
			for i := range second {
				if string(second[i]) != string(keep[i]) {
					fmt.Fprintf(out, "scanmut row %d: a later read returns the bytes the caller wrote into the earlier scanned slice (len %d)\n", i, len(keep[i]))
					return
				}
			}
			// one destination variable used for every row (the usual loop): each value obtained must stay
			// what it was when later rows are scanned into the same variable, whatever its capacity
			var reused []byte
			var got [][]byte
			err = hd.Select(w[1], func(r sqlittle.Row) {
				if err := r.Scan(&reused); err != nil {
					panic(err)
				}
				got = append(got, reused)
			}, w[2])
			if err != nil {
				fmt.Fprintf(out, "scanmut err %v\n", err)
				return
			}
			for i := range got {
				if string(got[i]) != string(keep[i]) {
					fmt.Fprintf(out, "scanmut row %d: scanning a later row into the same variable changed the value obtained earlier (len %d)\n", i, len(keep[i]))
					return
				}
			}
			// ... also when the variable starts out with spare capacity
			reused = make([]byte, 0, 1<<16)
			got = nil
			err = hd.Select(w[1], func(r sqlittle.Row) {
				if err := r.Scan(&reused); err != nil {
					panic(err)
				}
				got = append(got, reused)
			}, w[2])
			for i := range got {
				if err != nil || string(got[i]) != string(keep[i]) {
					fmt.Fprintf(out, "scanmut row %d: scanning a later row into the same (roomy) variable changed the value obtained earlier (len %d)\n", i, len(keep[i]))
					return
				}
			}
			// one Row scanned twice: what the caller does to the first result must not show in the second
			// (Scan leaves the row unchanged), neither inside a callback nor on the Row SelectRowid returns
			idx := 0
			bad := ""
			err = hd.Select(w[1], func(r sqlittle.Row) {
				var b1, b2 []byte
				if err := r.Scan(&b1); err != nil {
					panic(err)
				}
				for i := range b1 {
					b1[i] = 'Y'
				}
				if err := r.Scan(&b2); err != nil {
					panic(err)
				}
				if idx < len(keep) && string(b2) != string(keep[idx]) && bad == "" {
					bad = fmt.Sprintf("scanmut row %d: the second Scan of one Row returns what the caller wrote into the first scanned slice (len %d)", idx, len(keep[idx]))
				}
				idx++
			}, w[2])
			if err != nil || bad != "" {
				fmt.Fprintf(out, "%s %v\n", bad, err)
				return
			}
			third, _, err := read()
			for i := range third {
				if err != nil || string(third[i]) != string(keep[i]) {
					fmt.Fprintf(out, "scanmut row %d: after a Row was scanned twice with a scribble in between, a later read differs (len %d)\n", i, len(keep[i]))
					return
				}
			}
			// Rows made from the records of the low level API (Row is db.Record): scan, scribble, read again
			if tb, err := db.Table(w[1]); err == nil {
				pass := func(scribble bool) ([][]byte, error) {
					var res [][]byte
					if err := db.RLock(); err != nil {
						return nil, err
					}
					defer db.RUnlock()
					err := tb.Scan(func(rowid int64, rec sdb.Record) bool {
						if len(rec) < 2 {
							return false
						}
						var b []byte
						if err := sqlittle.Row(rec[1:2]).Scan(&b); err != nil {
							panic(err)
						}
						res = append(res, append([]byte(nil), b...))
						if scribble {
							for i := range b {
								b[i] = 'Z'
							}
						}
						return false
					})
					return res, err
				}
				l1, err1 := pass(true)
				l2, err2 := pass(false)
				if err1 != nil || err2 != nil {
					fmt.Fprintf(out, "scanmut err low level %v %v\n", err1, err2)
					return
				}
				for i := range l1 {
					if i >= len(l2) || string(l1[i]) != string(l2[i]) {
						fmt.Fprintf(out, "scanmut row %d: a []byte scanned from a Row made of a low level Record is not a copy: a later Table.Scan returns the caller's bytes (len %d)\n", i, len(l1[i]))
						return
					}
				}
				fourth, _, err := read()
				for i := range fourth {
					if err != nil || string(fourth[i]) != string(keep[i]) {
						fmt.Fprintf(out, "scanmut row %d: a later Select returns bytes written into a slice scanned from a low level Record (len %d)\n", i, len(keep[i]))
						return
					}
				}
			}
			// the strings scanned in the very first pass were kept all along, through every later transaction on this handle
			// (which read the other rows, in other orders): they still are what they were
			for round := 0; round < 2; round++ {
				for i := len(keep) - 1; i >= 0; i-- {
					var s string
					hd.SelectDone(w[1], func(r sqlittle.Row) bool { r.Scan(&s); return true }, w[2])
					if r, err := hd.SelectRowid(w[1], int64(i+1), w[2]); err == nil && r != nil {
						r.Scan(&s)
					}
				}
				for i := range firstS {
					if firstS[i] != string(keep[i]) {
						fmt.Fprintf(out, "scanmut row %d: a string scanned earlier changed after later reads on the same handle (len %d)\n", i, len(keep[i]))
						return
					}
				}
			}
			db.Close()
			for i := range second {
				if string(second[i]) != string(keep[i]) || firstS[i] != string(keep[i]) {
					fmt.Fprintf(out, "scanmut row %d: a scanned value changed after Close\n", i)
					return
				}
			}
			db = nil
			fmt.Fprintln(out, "scanmut ok")
		})
	case w[0] == "columns" && len(w) == 2:
		guard("end err ", func() {
			cs, err := hd.Columns(w[1])
			if err == nil {
				fmt.Fprintf(out, "cols %s\n", strings.Join(cs, ","))
			}
			finish(err)
		})
	default:
		return false
	}
	return true
}

func atoi(s string) int   { n, _ := strconv.Atoi(s); return n }
func atoi64(s string) int64 { n, _ := strconv.ParseInt(s, 10, 64); return n }

// guard runs f; a panic becomes the single line `line` + PANIC
func guard(prefix string, f func()) {
	defer func() {
		if r := recover(); r != nil {
			fmt.Fprintf(out, "%sPANIC\n", prefix)
		}
	}()
	f()
}

func end(stopped bool, err error) string {
	if err != nil {
		return "end err " + h.ErrKind(err)
	}
	if stopped {
		return "end stop"
	}
	return "end ok"
}

func pure(w []string) bool {
	switch {
	case w[0] == "varint" && len(w) == 2:
		b, _ := hex.DecodeString(w[1])
		guard("", func() {
			v, n := sdb.VerifReadVarint(b)
			if n < 0 {
				fmt.Fprintln(out, "none")
			} else {
				fmt.Fprintf(out, "some %d %d\n", v, n)
			}
		})
	case w[0] == "record" && len(w) == 2:
		b, _ := hex.DecodeString(w[1])
		guard("err ", func() {
			r, err := sdb.VerifParseRecord(b)
			if err != nil {
				fmt.Fprintf(out, "err %s\n", h.ErrKind(err))
			} else {
				fmt.Fprintf(out, "ok %s\n", h.ShowRecord(r))
			}
		})
	case w[0] == "rowscan" && len(w) == 3:
		// rowscan DEST,DEST,... VALUE,VALUE,...: Row(values).Scan(dests...); prints the scanned values (or err)
		// and, per column, what strconv / time answer for it (the model takes those as given)
		guard("PANIC ", func() {
			var row sqlittle.Row
			if w[2] != "-" {
				for _, p := range strings.Split(w[2], ",") {
					row = append(row, h.ReadValue(p))
				}
			}
			before := h.ShowRecord([]interface{}(row))
			var args []interface{}
			kinds := strings.Split(w[1], ",")
			for _, k := range kinds {
				switch k {
				case "s":
					args = append(args, new(string))
				case "b":
					args = append(args, new([]byte))
				case "i64":
					args = append(args, new(int64))
				case "i32":
					args = append(args, new(int32))
				case "i":
					args = append(args, new(int))
				case "bool":
					args = append(args, new(bool))
				case "f":
					args = append(args, new(float64))
				case "t":
					args = append(args, new(time.Time))
				case "nil":
					args = append(args, nil)
				default:
					args = append(args, new(uint8))
				}
			}
			err := row.Scan(args...)
			var res []string
			for i, a := range args {
				switch v := a.(type) {
				case *string:
					res = append(res, "s"+hex.EncodeToString([]byte(*v)))
				case *[]byte:
					if *v == nil {
						res = append(res, "bnil")
					} else {
						res = append(res, "b"+hex.EncodeToString(*v))
					}
				case *int64:
					res = append(res, fmt.Sprintf("i%d", *v))
				case *int32:
					res = append(res, fmt.Sprintf("i%d", *v))
				case *int:
					res = append(res, fmt.Sprintf("i%d", *v))
				case *bool:
					res = append(res, fmt.Sprintf("%v", *v))
				case *float64:
					res = append(res, fmt.Sprintf("f%016x", math.Float64bits(*v)))
				case *time.Time:
					res = append(res, fmt.Sprintf("T%d:%d", v.Unix(), v.Nanosecond())) // the zero time is T-62135596800:0
				case nil:
					res = append(res, "skip")
				default:
					res = append(res, "unsupported")
				}
				_ = i
			}
			var orc []string
			for _, v := range row {
				ff, pf, pt := "-", "-", "-"
				switch t := v.(type) {
				case float64:
					ff = hex.EncodeToString([]byte(strconv.FormatFloat(t, 'g', -1, 64)))
				case string, []byte:
					var str string
					if b, ok := t.([]byte); ok {
						str = string(b)
					} else {
						str = t.(string)
					}
					if f, err := strconv.ParseFloat(str, 64); err == nil {
						pf = fmt.Sprintf("%016x", math.Float64bits(f))
					}
					if _, ok := t.(string); ok {
						if tm, err := time.Parse("2006-01-02 15:04:05", str); err == nil {
							pt = fmt.Sprintf("%d:%d", tm.Unix(), tm.Nanosecond())
						} else if tm, err := time.Parse("2006-01-02 15:04:05.000", str); err == nil {
							pt = fmt.Sprintf("%d:%d", tm.Unix(), tm.Nanosecond())
						}
					}
				}
				orc = append(orc, ff+"/"+pf+"/"+pt)
			}
			status := "ok"
			if err != nil {
				status = "err"
			}
			unchanged := before == h.ShowRecord([]interface{}(row))
			fmt.Fprintf(out, "%s %s rowunchanged=%v oracle=%s\n", status, strings.Join(res, ","), unchanged, strings.Join(orc, ";"))
		})
	case w[0] == "tokens" && len(w) == 2:
		b, _ := hex.DecodeString(w[1])
		guard("tokens PANIC ", func() {
			ts, err := sql.VerifTokenize(string(b))
			var el []string
			for _, t := range ts {
				el = append(el, fmt.Sprintf("%d:%s:%d:%016x", t.Typ, hex.EncodeToString([]byte(t.S)), t.N, math.Float64bits(t.F)))
			}
			if err != nil {
				fmt.Fprintf(out, "tokens err %s\n", strings.Join(el, ";"))
			} else {
				fmt.Fprintf(out, "tokens ok %s\n", strings.Join(el, ";"))
			}
		})
	case w[0] == "parse" && len(w) == 2:
		b, _ := hex.DecodeString(w[1])
		guard("PANIC ", func() {
			st, err := sql.Parse(string(b))
			if err != nil {
				fmt.Fprintf(out, "reject %s\n", h.DumpAST(st))
			} else {
				fmt.Fprintf(out, "accept %s\n", h.DumpAST(st))
			}
		})
	case w[0] == "header" && len(w) == 2:
		b, _ := hex.DecodeString(w[1])
		guard("err ", func() {
			ps, cc, ck, err := sdb.VerifParseHeader(b)
			if err != nil {
				fmt.Fprintf(out, "err %s\n", h.ErrKind(err))
			} else {
				fmt.Fprintf(out, "ok %d %d %d\n", ps, cc, ck)
			}
		})
	case w[0] == "journal" && len(w) == 2:
		b, _ := hex.DecodeString(w[1])
		guard("", func() {
			f, err := os.CreateTemp("", "vj")
			if err != nil {
				panic(err)
			}
			defer os.Remove(f.Name())
			f.Write(b)
			f.Close()
			ok, err := sdb.VerifValidJournal(f.Name())
			if err != nil {
				fmt.Fprintf(out, "err %s\n", h.ErrKind(err))
			} else {
				fmt.Fprintf(out, "%v\n", ok)
			}
		})
	case w[0] == "cellsize" && len(w) == 4:
		guard("", func() {
			fmt.Fprintf(out, "%d\n", sdb.VerifCellInPageBytes(atoi64(w[1]), atoi(w[2]), atoi(w[3])))
		})
	case w[0] == "page" && len(w) == 4 && len(w[3]) > 8:
		b, _ := hex.DecodeString(w[3])
		guard("end err ", func() {
			p, err := sdb.VerifParsePage(b, w[1] == "1", atoi(w[2]))
			if err != nil {
				fmt.Fprintf(out, "end err %s\n", h.ErrKind(err))
				return
			}
			for _, l := range h.ShowPage(p) {
				fmt.Fprintln(out, l)
			}
			fmt.Fprintln(out, "end ok")
		})
	case w[0] == "cmp" && len(w) == 4:
		coll := map[string]string{"n": "nocase", "r": "rtrim"}[w[1]]
		if coll == "" {
			coll = "binary"
		}
		guard("", func() {
			fmt.Fprintf(out, "%d\n", sdb.VerifCompare(h.ReadValue(w[2]), h.ReadValue(w[3]), coll))
		})
	case w[0] == "equals" && len(w) == 3:
		guard("", func() { fmt.Fprintf(out, "%v\n", sdb.Equals(h.ReadKey(w[1]), h.ReadRecord(w[2]))) })
	case w[0] == "search" && len(w) == 3:
		guard("", func() { fmt.Fprintf(out, "%v\n", sdb.Search(h.ReadKey(w[1]), h.ReadRecord(w[2]))) })
	case (w[0] == "equalsr" || w[0] == "searchr") && len(w) == 3:
		// the same db.Key object is used again when the next key has its shape (columns, collations, directions): only
		// the values are assigned, the way a caller that loops over lookups - or setKey() in the library - reuses a key
		guard("", func() {
			k := h.ReadKey(w[1])
			same := len(k) == len(reuseKey)
			for i := 0; same && i < len(k); i++ {
				same = k[i].Collate == reuseKey[i].Collate && k[i].Desc == reuseKey[i].Desc
			}
			if same {
				for i := range k {
					reuseKey[i].V = k[i].V
				}
			} else {
				reuseKey = k
			}
			if w[0] == "equalsr" {
				fmt.Fprintf(out, "%v\n", sdb.Equals(reuseKey, h.ReadRecord(w[2])))
			} else {
				fmt.Fprintf(out, "%v\n", sdb.Search(reuseKey, h.ReadRecord(w[2])))
			}
		})
	default:
		return false
	}
	return true
}

var reuseKey sdb.Key

// one sqlittle.DB per low level handle, kept for as long as the handle lives: whatever the high level API remembers between
// calls on a long-lived DB (parsed schemas, positions) is remembered here as well
var (
	hdb    *sqlittle.DB
	hdbFor *sdb.Database
)

func wrapped(d *sdb.Database) *sqlittle.DB {
	if hdb == nil || hdbFor != d {
		hdb, hdbFor = sqlittle.VerifWrap(d), d
	}
	return hdb
}

func dbcmd(w []string) {
	if db == nil {
		fmt.Fprintln(out, "unknown")
		return
	}
	switch {
	case w[0] == "master" && len(w) == 1:
		guard("end err ", func() {
			ms, err := sdb.VerifMaster(db)
			for _, m := range ms {
				fmt.Fprintf(out, "obj %s %s %s %d %s\n", hex.EncodeToString([]byte(m.Typ)),
					hex.EncodeToString([]byte(m.Name)), hex.EncodeToString([]byte(m.TblName)),
					m.RootPage, hex.EncodeToString([]byte(m.SQL)))
			}
			fmt.Fprintln(out, end(false, err))
		})
	case w[0] == "scan" && len(w) == 3:
		limit := atoi(w[2])
		guard("end err ", func() {
			n, stopped := 0, false
			err := sdb.VerifTable(db, atoi(w[1])).Scan(func(rowid int64, rec sdb.Record) bool {
				fmt.Fprintf(out, "row %d %s\n", rowid, h.ShowRecord(rec))
				n++
				if limit > 0 && n >= limit {
					stopped = true
				}
				return stopped
			})
			fmt.Fprintln(out, end(stopped, err))
		})
	case w[0] == "iscan" && len(w) == 3, w[0] == "imin" && len(w) == 4, w[0] == "ieq" && len(w) == 4, w[0] == "irange" && len(w) == 5:
		limit := atoi(w[2])
		guard("end err ", func() {
			n, stopped := 0, false
			cb := func(rec sdb.Record) bool {
				fmt.Fprintf(out, "row %s\n", h.ShowRecord(rec))
				n++
				if limit > 0 && n >= limit {
					stopped = true
				}
				return stopped
			}
			ind := sdb.VerifIndex(db, atoi(w[1]))
			var err error
			switch w[0] {
			case "iscan":
				err = ind.Scan(cb)
			case "imin":
				err = ind.ScanMin(h.ReadKey(w[3]), cb)
			case "ieq":
				err = ind.ScanEq(h.ReadKey(w[3]), cb)
			case "irange":
				err = ind.ScanRange(h.ReadKey(w[3]), h.ReadKey(w[4]), cb)
			}
			fmt.Fprintln(out, end(stopped, err))
		})
	case (w[0] == "nscan" || w[0] == "niscan") && len(w) == 3:
		// a scan whose callback, at every row, runs another scan on the SAME Table / Index value and ends it at its first row (the
		// usual "fetch one" lookup from inside a loop): the outer scan stops when ITS callback says so, after exactly `limit` rows
		limit := atoi(w[2])
		guard("end err ", func() {
			n, stopped := 0, false
			var err error
			if w[0] == "nscan" {
				tb := sdb.VerifTable(db, atoi(w[1]))
				err = tb.Scan(func(rowid int64, rec sdb.Record) bool {
					fmt.Fprintf(out, "row %d %s\n", rowid, h.ShowRecord(rec))
					tb.Scan(func(int64, sdb.Record) bool { return true })
					n++
					if limit > 0 && n >= limit {
						stopped = true
					}
					return stopped
				})
			} else {
				ind := sdb.VerifIndex(db, atoi(w[1]))
				err = ind.Scan(func(rec sdb.Record) bool {
					fmt.Fprintf(out, "row %s\n", h.ShowRecord(rec))
					ind.ScanMin(sdb.Key{}, func(sdb.Record) bool { return true })
					n++
					if limit > 0 && n >= limit {
						stopped = true
					}
					return stopped
				})
			}
			fmt.Fprintln(out, end(stopped, err))
		})
	case w[0] == "rowid" && len(w) == 3:
		guard("err ", func() {
			rec, err := sdb.VerifTable(db, atoi(w[1])).Rowid(atoi64(w[2]))
			switch {
			case err != nil:
				fmt.Fprintf(out, "err %s\n", h.ErrKind(err))
			case rec == nil:
				fmt.Fprintln(out, "notfound")
			default:
				fmt.Fprintf(out, "found %s\n", h.ShowRecord(rec))
			}
		})
	case w[0] == "page" && len(w) == 3:
		guard("end err ", func() {
			p, err := sdb.VerifOpenPage(db, atoi(w[1]))
			if err != nil {
				fmt.Fprintf(out, "end err %s\n", h.ErrKind(err))
				return
			}
			for _, l := range h.ShowPage(p) {
				fmt.Fprintln(out, l)
			}
			fmt.Fprintln(out, "end ok")
		})
	default:
		fmt.Fprintln(out, "unknown")
	}
}

var sc *bufio.Scanner
var db2 *sdb.Database

// a second handle on a file, in this same process
func second(l string) {
	switch {
	case strings.HasPrefix(l, "f2 open "):
		d, err := sdb.OpenFile(l[8:])
		if err != nil {
			// what sqlittle.Open does with a database it cannot use: the handle OpenFile made is closed, not left to the
			// garbage collector (whose finalizer would close the descriptor - and with it every lock of the process - at some later time)
			if d != nil {
				d.Close()
			}
			fmt.Fprintln(out, "f2 open err")
			return
		}
		db2 = d
		fmt.Fprintln(out, "f2 open ok")
	case l == "f2 rlock" && db2 != nil:
		fmt.Fprintf(out, "f2 rlock %v\n", db2.RLock() == nil)
	case l == "f2 runlock" && db2 != nil:
		fmt.Fprintf(out, "f2 runlock %v\n", db2.RUnlock() == nil)
	case l == "f2 close" && db2 != nil:
		fmt.Fprintf(out, "f2 close %v\n", db2.Close() == nil)
		db2 = nil
	case l == "nest" && db != nil:
		// a nested call on the SAME handle from inside its own callback
		_, err := wrapped(db).Columns("t")
		fmt.Fprintf(out, "f2 nest %v\n", err == nil)
	case strings.HasPrefix(l, "nest ") && db != nil:
		// ... through any entry point: nest select|selectrowid|iselect|iselecteq|pkselect|columns
		hd := wrapped(db)
		cb := func(sqlittle.Row) {}
		var err error
		func() {
			defer func() {
				if r := recover(); r != nil {
					err = fmt.Errorf("panic: %v", r)
				}
			}()
			switch strings.TrimPrefix(l, "nest ") {
			case "select":
				err = hd.Select("t", cb, "a")
			case "selectrowid":
				_, err = hd.SelectRowid("t", 1, "a")
			case "iselect":
				err = hd.IndexedSelect("t", "t_a", cb, "a")
			case "iselecteq":
				err = hd.IndexedSelectEq("t", "t_a", sqlittle.Key{int64(3)}, cb, "a")
			case "pkselect":
				err = hd.PKSelect("t", sqlittle.Key{int64(1)}, cb, "a")
			default:
				_, err = hd.Columns("t")
			}
		}()
		fmt.Fprintf(out, "f2 nest %v\n", err == nil)
	case strings.HasPrefix(l, "#"):
		fmt.Fprintln(out, l)
	default:
		fmt.Fprintln(out, "f2 unknown")
	}
}

// hold runs a high level call on the current handle; the row callback reports
// "paused" at the first row and waits for a line on stdin before it goes on
// (mode normal), asks to stop (mode stop) or panics (mode panic).
func hold(w []string) {
	if db == nil || len(w) < 4 {
		fmt.Fprintln(out, "hold unknown")
		return
	}
	hd := wrapped(db)
	mode, op := w[1], w[2]
	n := 0
	pause := func() {
		fmt.Fprintln(out, "paused")
		out.Flush()
		// while paused: a second handle of this same process can be driven; "resume" goes on
		for sc.Scan() {
			l := sc.Text()
			if l == "resume" {
				break
			}
			second(l)
			out.Flush()
		}
	}
	cbDone := func(r sqlittle.Row) bool {
		n++
		if n == 1 {
			pause()
			switch mode {
			case "stop":
				return true
			case "panic":
				panic("callback panics")
			}
		}
		return false
	}
	cb := func(r sqlittle.Row) { cbDone(r) }
	var err error
	func() {
		defer func() {
			if r := recover(); r != nil {
				fmt.Fprintf(out, "recovered %v\n", r)
			}
		}()
		switch op {
		case "select":
			err = hd.SelectDone(w[3], cbDone, cols(w[4])...)
		case "selectplain":
			err = hd.Select(w[3], cb, cols(w[4])...)
		case "iselect":
			err = hd.IndexedSelect(w[3], w[4], cb, cols(w[5])...)
		case "iselecteq":
			err = hd.IndexedSelectEq(w[3], w[4], hkey(w[5]), cb, cols(w[6])...)
		case "pkselect":
			err = hd.PKSelect(w[3], hkey(w[4]), cb, cols(w[5])...)
		case "selectrowid":
			var r sqlittle.Row
			r, err = hd.SelectRowid(w[3], atoi64(w[4]), cols(w[5])...)
			if r != nil {
				n++
			}
		case "columns":
			_, err = hd.Columns(w[3])
		}
	}()
	if err != nil {
		fmt.Fprintf(out, "held rows=%d err=%s\n", n, h.ErrKind(err))
	} else {
		fmt.Fprintf(out, "held rows=%d ok\n", n)
	}
	out.Flush()
}

func main() {
	defer out.Flush()
	sc = bufio.NewScanner(os.Stdin)
	sc.Buffer(make([]byte, 1<<20), 1<<28)
	for sc.Scan() {
		line := sc.Text()
		switch {
		case line == "":
		case line[0] == '#':
			fmt.Fprintln(out, line)
			out.Flush() // so that a fatal error or a kill leaves the id of the case it happened in
		case strings.HasPrefix(line, "db "):
			data, err := os.ReadFile(line[3:])
			if err != nil {
				panic(err)
			}
			pager = &h.MemPager{Data: data, FailPages: map[int]bool{}}
			db = nil
			guard("open err ", func() {
				d, err := sdb.VerifOpen(pager, "")
				if err != nil {
					fmt.Fprintf(out, "open err %s\n", h.ErrKind(err))
					return
				}
				db = d
				fmt.Fprintf(out, "open ok %d\n", sdb.VerifPageSize(d))
			})
		case strings.HasPrefix(line, "fail "):
			if pager != nil {
				pager.FailPages = map[int]bool{}
				if a := line[5:]; a != "-" {
					for _, x := range strings.Split(a, ",") {
						pager.FailPages[atoi(x)] = true
					}
				}
				// a fresh handle: the page cache must not hide the failing pages
				data := pager.Data
				fp := pager.FailPages
				pager = &h.MemPager{Data: data, FailPages: map[int]bool{}}
				db = nil
				if d, err := sdb.VerifOpen(pager, ""); err == nil {
					db = d
				}
				pager.FailPages = fp
			}
		case strings.HasPrefix(line, "zero "):
			// pages that read as zeroes, on a fresh handle
			if pager != nil {
				zp := map[int]bool{}
				if a := line[5:]; a != "-" {
					for _, x := range strings.Split(a, ",") {
						zp[atoi(x)] = true
					}
				}
				pager = &h.MemPager{Data: pager.Data, FailPages: map[int]bool{}}
				db = nil
				if d, err := sdb.VerifOpen(pager, ""); err == nil {
					db = d
				}
				pager.ZeroPages = zp
			}
		case strings.HasPrefix(line, "reload "):
			// the file changed under the open handle (a writer committed): same handle, new bytes
			if pager != nil {
				data, err := os.ReadFile(line[7:])
				if err != nil {
					panic(err)
				}
				pager.Data = data
			}
		case strings.HasPrefix(line, "f2 "):
			second(line)
		case strings.HasPrefix(line, "hold "):
			hold(strings.Fields(line))
		case line == "pid":
			fmt.Fprintf(out, "pid %d\n", os.Getpid())
		case strings.HasPrefix(line, "fopen "):
			// a handle on the real file, through the real pager (locks, journal check)
			pager = nil
			db = nil
			guard("open err ", func() {
				d, err := sdb.OpenFile(line[6:])
				if err != nil {
					if d != nil {
						d.Close()
					}
					fmt.Fprintf(out, "open err %s\n", h.ErrKind(err))
					return
				}
				db = d
				fmt.Fprintf(out, "open ok %d\n", sdb.VerifPageSize(d))
			})
		case line == "fclose":
			if db != nil {
				db.Close()
				db = nil
			}
		case strings.HasPrefix(line, "lockfail "):
			// the pager refuses the next read locks (another process holds PENDING / EXCLUSIVE): "lockfail on" / "lockfail off"
			if pager != nil {
				pager.LockFail = line == "lockfail on"
			}
		case strings.HasPrefix(line, "poke "):
			// poke OFFSET HEX: overwrite bytes of the image under the open handle
			if f := strings.Fields(line); pager != nil && len(f) == 3 {
				b, _ := hex.DecodeString(f[2])
				copy(pager.Data[atoi(f[1]):], b)
			}
		case line == "rlock":
			if db != nil {
				if err := db.RLock(); err != nil {
					fmt.Fprintf(out, "rlock err\n")
				} else {
					fmt.Fprintf(out, "rlock ok\n")
				}
			}
		case line == "runlock":
			if db != nil {
				if err := db.RUnlock(); err != nil {
					fmt.Fprintf(out, "runlock err\n")
				} else {
					fmt.Fprintf(out, "runlock ok\n")
				}
			}
		case line == "clock":
			now := time.Now()
			fmt.Fprintf(out, "clock %d\n", now.Sub(lastClock).Milliseconds())
			lastClock = now
		case line == "names":
			if db != nil {
				guard("names err ", func() {
					ts, err := db.Tables()
					is, err2 := db.Indexes()
					if err != nil || err2 != nil {
						fmt.Fprintf(out, "names err\n")
						return
					}
					fmt.Fprintf(out, "names %s | %s\n", strings.Join(ts, ","), strings.Join(is, ","))
				})
				guard("info err ", func() {
					_, err := db.Info()
					fmt.Fprintf(out, "info %v\n", err == nil)
				})
			}
		case line == "reads":
			if pager != nil {
				fmt.Fprintf(out, "reads %d\n", pager.Reads)
			}
		case line == "fresh" || strings.HasPrefix(line, "failat "):
			if pager != nil {
				pager = &h.MemPager{Data: pager.Data, FailPages: map[int]bool{}}
				db = nil
				if d, err := sdb.VerifOpen(pager, ""); err == nil {
					db = d
				}
				pager.Reads = 0
				if f := strings.Fields(line); len(f) >= 2 {
					pager.FailAt = atoi(f[1])
					pager.Short = len(f) >= 3 && f[2] == "short"
				}
			}
		default:
			w := strings.Fields(line)
			if !pure(w) && !highcmd(w) {
				dbcmd(w)
			}
		}
	}
}
