// footprint lists, for every package of the sqlittle module (non-test files of
// the default build: no `verif` tag), the package-level variables and every
// place outside package initialisation where one of them is written, has its
// address taken, is mutated through (index / field / pointer store, delete,
// copy, clear, append in place), is the receiver of a pointer method, or - when
// its type can be written through an alias (map, slice, pointer, channel) -
// is handed to something else.  Plain reads are counted only.
//
// Output: one JSON document on stdout.  Usage: footprint <module dir>
package main

import (
	"encoding/json"
	"fmt"
	"go/ast"
	"go/build"
	"go/importer"
	"go/parser"
	"go/token"
	"go/types"
	"os"
	"path/filepath"
	"sort"
	"strings"
)

type Use struct {
	Var  string `json:"var"`
	Kind string `json:"kind"`
	Func string `json:"func"`
	Pos  string `json:"pos"`
}

type GVar struct {
	Pkg     string `json:"pkg"`
	Name    string `json:"name"`
	Type    string `json:"type"`
	RefLike bool   `json:"reflike"`
	Reads   int    `json:"reads"`
	Uses    []Use  `json:"uses"`
}

type Extra struct {
	Pkg  string `json:"pkg"`
	Kind string `json:"kind"`
	Func string `json:"func"`
	Pos  string `json:"pos"`
}

var (
	fset   = token.NewFileSet()
	gvars  = map[*types.Var]*GVar{}
	extras []Extra
	root   string
)

func rel(p token.Pos) string {
	pp := fset.Position(p)
	r, err := filepath.Rel(root, pp.Filename)
	if err != nil {
		r = pp.Filename
	}
	return fmt.Sprintf("%s:%d", r, pp.Line)
}

func refLike(t types.Type) bool {
	switch u := t.Underlying().(type) {
	case *types.Map, *types.Slice, *types.Pointer, *types.Chan:
		return true
	case *types.Struct:
		for i := 0; i < u.NumFields(); i++ {
			if refLike(u.Field(i).Type()) {
				return true
			}
		}
	case *types.Array:
		return refLike(u.Elem())
	}
	return false
}

// the package-level variable an expression is rooted in: x, x.f, x[i], *x, (x)
func rootVar(info *types.Info, pkg *types.Package, e ast.Expr) *types.Var {
	for {
		switch t := e.(type) {
		case *ast.ParenExpr:
			e = t.X
		case *ast.SelectorExpr:
			if id, ok := t.X.(*ast.Ident); ok {
				if _, isPkg := info.Uses[id].(*types.PkgName); isPkg {
					if v, ok := info.Uses[t.Sel].(*types.Var); ok && v.Parent() == v.Pkg().Scope() {
						return v
					}
					return nil
				}
			}
			e = t.X
		case *ast.IndexExpr:
			e = t.X
		case *ast.SliceExpr:
			e = t.X
		case *ast.StarExpr:
			e = t.X
		case *ast.Ident:
			if v, ok := info.Uses[t].(*types.Var); ok && v.Pkg() != nil && v.Parent() == v.Pkg().Scope() {
				return v
			}
			return nil
		default:
			return nil
		}
	}
}

func analyse(dir, path string, imp types.Importer) error {
	bp, err := build.Default.ImportDir(dir, 0)
	if err != nil {
		if _, ok := err.(*build.NoGoError); ok {
			return nil
		}
		return err
	}
	var files []*ast.File
	for _, f := range bp.GoFiles {
		af, err := parser.ParseFile(fset, filepath.Join(dir, f), nil, 0)
		if err != nil {
			return err
		}
		files = append(files, af)
	}
	info := &types.Info{Uses: map[*ast.Ident]types.Object{}, Defs: map[*ast.Ident]types.Object{}, Types: map[ast.Expr]types.TypeAndValue{}, Selections: map[*ast.SelectorExpr]*types.Selection{}}
	conf := types.Config{Importer: imp}
	pkg, err := conf.Check(path, fset, files, info)
	if err != nil {
		return err
	}
	sc := pkg.Scope()
	for _, n := range sc.Names() {
		if v, ok := sc.Lookup(n).(*types.Var); ok {
			gvars[v] = &GVar{Pkg: path, Name: n, Type: types.TypeString(v.Type(), types.RelativeTo(pkg)), RefLike: refLike(v.Type())}
		}
	}
	note := func(v *types.Var, kind, fn string, pos token.Pos) {
		g := gvars[v]
		if g == nil {
			// a variable of another package of the module, or of a library
			g = &GVar{Pkg: v.Pkg().Path(), Name: v.Name(), Type: v.Type().String(), RefLike: refLike(v.Type())}
			gvars[v] = g
		}
		if kind == "read" {
			g.Reads++
			return
		}
		g.Uses = append(g.Uses, Use{Var: v.Name(), Kind: kind, Func: fn, Pos: rel(pos)})
	}
	walkBody := func(fn string, body ast.Node) {
		written := map[*ast.Ident]bool{}
		mark := func(e ast.Expr, direct, through string) {
			v := rootVar(info, pkg, e)
			if v == nil {
				return
			}
			kind := through
			if id, ok := stripParens(e).(*ast.Ident); ok {
				_ = id
				kind = direct
			} else if se, ok := stripParens(e).(*ast.SelectorExpr); ok {
				if id, ok := se.X.(*ast.Ident); ok {
					if _, isPkg := info.Uses[id].(*types.PkgName); isPkg {
						kind = direct
					}
				}
			}
			note(v, kind, fn, e.Pos())
			ast.Inspect(e, func(n ast.Node) bool {
				if id, ok := n.(*ast.Ident); ok {
					written[id] = true
				}
				return true
			})
		}
		ast.Inspect(body, func(n ast.Node) bool {
			switch t := n.(type) {
			case *ast.AssignStmt:
				if t.Tok != token.DEFINE {
					for _, l := range t.Lhs {
						mark(l, "assign", "store-through")
					}
				}
				// handing a reference-like global to a local name / field
				for _, r := range t.Rhs {
					if v := rootVar(info, pkg, r); v != nil {
						if tv, ok := info.Types[r]; ok && refLike(tv.Type) {
							note(v, "alias", fn, r.Pos())
						}
					}
				}
			case *ast.IncDecStmt:
				mark(t.X, "assign", "store-through")
			case *ast.RangeStmt:
				if t.Tok == token.ASSIGN {
					if t.Key != nil {
						mark(t.Key, "assign", "store-through")
					}
					if t.Value != nil {
						mark(t.Value, "assign", "store-through")
					}
				}
			case *ast.UnaryExpr:
				if t.Op == token.AND {
					mark(t.X, "address", "address")
				}
			case *ast.SendStmt:
				if v := rootVar(info, pkg, t.Chan); v != nil {
					note(v, "send", fn, t.Pos())
				}
			case *ast.GoStmt:
				// the library starting goroutines of its own is worth knowing about
				extras = append(extras, Extra{Pkg: path, Kind: "go", Func: fn, Pos: rel(t.Pos())})
			case *ast.CallExpr:
				if id, ok := t.Fun.(*ast.Ident); ok {
					if b, ok := info.Uses[id].(*types.Builtin); ok {
						switch b.Name() {
						case "delete", "clear", "copy":
							if len(t.Args) > 0 {
								mark(t.Args[0], b.Name(), b.Name())
							}
							return true
						case "append":
							if len(t.Args) > 0 {
								if v := rootVar(info, pkg, t.Args[0]); v != nil {
									note(v, "append", fn, t.Pos())
								}
							}
							return true
						case "len", "cap":
							return true
						}
					}
				}
				// pointer-receiver method on a global: x.M()
				if se, ok := t.Fun.(*ast.SelectorExpr); ok {
					if sel := info.Selections[se]; sel != nil && sel.Kind() == types.MethodVal {
						if v := rootVar(info, pkg, se.X); v != nil {
							if sig, ok := sel.Obj().Type().(*types.Signature); ok && sig.Recv() != nil {
								if _, isPtr := sig.Recv().Type().(*types.Pointer); isPtr {
									note(v, "ptr-method:"+sel.Obj().Name(), fn, t.Pos())
								}
							}
						}
					}
				}
				// reference-like globals passed on
				for _, a := range t.Args {
					if v := rootVar(info, pkg, a); v != nil {
						if tv, ok := info.Types[a]; ok && refLike(tv.Type) {
							note(v, "passed", fn, a.Pos())
						}
					}
				}
			case *ast.ReturnStmt:
				for _, r := range t.Results {
					if v := rootVar(info, pkg, r); v != nil {
						if tv, ok := info.Types[r]; ok && refLike(tv.Type) {
							note(v, "returned", fn, r.Pos())
						}
					}
				}
			}
			return true
		})
		// everything else is a read
		ast.Inspect(body, func(n ast.Node) bool {
			if id, ok := n.(*ast.Ident); ok && !written[id] {
				if v, ok := info.Uses[id].(*types.Var); ok && v.Pkg() != nil && v.Parent() == v.Pkg().Scope() {
					note(v, "read", fn, id.Pos())
				}
			}
			return true
		})
	}
	for _, f := range files {
		for _, d := range f.Decls {
			switch t := d.(type) {
			case *ast.FuncDecl:
				if t.Body == nil {
					continue
				}
				name := t.Name.Name
				if t.Recv != nil && len(t.Recv.List) > 0 {
					name = types.ExprString(t.Recv.List[0].Type) + "." + name
				}
				if t.Recv == nil && name == "init" {
					continue // runs before any handle exists
				}
				walkBody(path+"."+name, t.Body)
			case *ast.GenDecl:
				if t.Tok != token.VAR {
					continue
				}
				// function literals in initialisers run later, when called
				for _, s := range t.Specs {
					vs := s.(*ast.ValueSpec)
					for i, val := range vs.Values {
						ast.Inspect(val, func(n ast.Node) bool {
							if fl, ok := n.(*ast.FuncLit); ok {
								nm := "?"
								if i < len(vs.Names) {
									nm = vs.Names[i].Name
								}
								walkBody(path+".(initialiser of "+nm+")", fl.Body)
								return false
							}
							return true
						})
					}
				}
			}
		}
	}
	return nil
}

func stripParens(e ast.Expr) ast.Expr {
	for {
		p, ok := e.(*ast.ParenExpr)
		if !ok {
			return e
		}
		e = p.X
	}
}

func main() {
	if len(os.Args) != 2 {
		fmt.Fprintln(os.Stderr, "usage: footprint <module dir>")
		os.Exit(2)
	}
	root, _ = filepath.Abs(os.Args[1])
	if err := os.Chdir(root); err != nil {
		fmt.Fprintln(os.Stderr, err)
		os.Exit(2)
	}
	mod := "github.com/alicebob/sqlittle"
	imp := importer.ForCompiler(fset, "source", nil)
	var dirs []string
	filepath.Walk(root, func(p string, fi os.FileInfo, err error) error {
		if err != nil {
			return nil
		}
		if fi.IsDir() {
			b := filepath.Base(p)
			if p != root && (strings.HasPrefix(b, ".") || b == "testdata" || b == "vendor" || b == "cmd" || b == "_examples") {
				return filepath.SkipDir
			}
			dirs = append(dirs, p)
		}
		return nil
	})
	sort.Strings(dirs)
	var pkgs []string
	for _, d := range dirs {
		r, _ := filepath.Rel(root, d)
		path := mod
		if r != "." {
			path = mod + "/" + filepath.ToSlash(r)
		}
		if err := analyse(d, path, imp); err != nil {
			fmt.Fprintf(os.Stderr, "footprint: %s: %v\n", path, err)
			os.Exit(1)
		}
		pkgs = append(pkgs, path)
	}
	var res []*GVar
	for _, g := range gvars {
		res = append(res, g)
	}
	sort.Slice(res, func(i, j int) bool {
		if res[i].Pkg != res[j].Pkg {
			return res[i].Pkg < res[j].Pkg
		}
		return res[i].Name < res[j].Name
	})
	enc := json.NewEncoder(os.Stdout)
	enc.SetIndent("", " ")
	enc.Encode(map[string]interface{}{"packages": pkgs, "globals": res, "extras": extras})
}
