#!/usr/bin/env python3
"""seedmatrix.py: the rows of DESIGN I.6 for seeding rounds 3 and 4 from the raw result lines kept in seeded/round3_results.txt
and seeded/round4_results.txt (lines '<seed> <check> exit=<0|1> <first line printed>', in the order the runs were made: the first
line of a (seed, check) pair is the first pass, later ones are re-runs after the checks were strengthened)."""
import json, os, re, sys
S = os.path.join(os.path.dirname(os.path.dirname(os.path.abspath(__file__))), "seeded")
runs = {}
for f in ("round3_results.txt", "round4_results.txt", "round5_results.txt"):
    for l in open(os.path.join(S, f)):
        m = re.match(r"(C\d+[a-z]) (C\d+) exit=(\d) ?(.*)", l)
        if m:
            runs.setdefault(m.group(1), {}).setdefault(m.group(2), []).append((m.group(3) == "1", "no-failing-input-found" in m.group(4), m.group(4)[:160]))
rows = []
for sid in sorted(os.listdir(S)):
    if not re.fullmatch(r"C\d+[efghij]", sid):
        continue
    meta = json.load(open(os.path.join(S, sid, "meta.json")))
    what = (meta.get("summary") or "")[:150].replace("|", "/").replace("\n", " ")
    first, later = [], []
    for chk, rs in runs.get(sid, {}).items():
        hit, nofi, _ = rs[0]
        if hit and not nofi:
            first.append(chk)
        elif any(h and not n for h, n, _ in rs[1:]):
            later.append(chk + (" (first pass: only the broken tie, no input)" if hit else " (first pass: quiet)"))
        elif hit:
            first.append(chk + " (broken tie only, no-failing-input-found)")
        else:
            later.append(chk + " QUIET")
    rows.append("| %s | %s… | %s | %s |" % (sid, what, ", ".join(first) or "-", ", ".join(later) or ""))
print("| seed | what it breaks (start of the agent's summary) | caught at once by | caught after strengthening |")
print("|---|---|---|---|")
print("\n".join(rows))
