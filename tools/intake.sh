#!/bin/bash
# intake.sh <dir-with-seed-output> <seed-id> [props...]: confirm a sub-agent's seeded change in a scratch worktree (verify_seed.sh),
# keep it as /verif/seeded/<id>/ when confirmed, then run the named quick checks (default: its own property) against it (parmut.sh).
src=$1; id=$2; shift 2
props="$@"; [ -z "$props" ] && props=${id:0:3}
line=$(bash /verif/tools/verify_seed.sh $src 2>&1 | tail -1)
echo "$line" | tee -a /tmp/pm/intake.txt
if echo "$line" | grep -q "APPLY=ok BUILD=ok TESTFAILS=0 DEMO_PATCHED=[1-9][0-9]* DEMO_CLEAN=0"; then
  rm -rf /verif/seeded/$id; mkdir -p /verif/seeded/$id; cp -r $src/. /verif/seeded/$id/
  /verif/tools/parmut.sh $id $props
else
  echo "$id NOT-CONFIRMED" | tee -a /tmp/pm/results.txt
fi
