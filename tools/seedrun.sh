#!/bin/bash
# seedrun.sh <seed-dir> <property...> : apply the seeded patch to /repo, run the quick checks, undo
d=$1; shift
cd /repo && git diff --quiet || { echo "/repo not clean"; exit 2; }
p=$d/patch.rebased.diff; [ -f $p ] || p=$d/patch.diff
git -C /repo apply $p || { echo "apply failed"; exit 2; }
for c in "$@"; do
  (cd /verif && timeout 3000 ./check $c quick 2>&1 | grep -v "^WARNING" | head -8)
  echo "== $c exit=${PIPESTATUS[0]}"
done
git -C /repo checkout -- . 
git -C /repo status --short | head -3
