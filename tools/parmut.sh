#!/bin/bash
# parmut.sh <seed-id> <property...> : run the quick checks against a seeded change WITHOUT touching /repo or /verif:
# a scratch worktree of /repo HEAD gets the patch, a scratch copy of /verif (build output included) is pointed at it
# (VERIF_REPO + the harness' replace directive).  Several of these can run side by side.  Everything is removed afterwards.
# Output: one line per check "<seed> <prop> exit=<rc> <first VIOLATION/OK line>" appended to /tmp/pm/results.txt as well.
s=$1; shift
d=/verif/seeded/$s
base=/tmp/pm/$s
rm -rf $base; mkdir -p $base
wt=$base/repo; vc=$base/verif
git -C /repo worktree remove --force $wt >/dev/null 2>&1
git -C /repo worktree add -q --detach $wt HEAD || { echo "$s WORKTREE-FAIL"; exit 2; }
p=$d/patch.rebased.diff; [ -f $p ] || p=$d/patch.diff
if [ "$s" != "CLEAN" ]; then
  git -C $wt apply $p 2>/dev/null || git -C $wt apply $d/patch.diff || { echo "$s APPLY-FAIL" | tee -a /tmp/pm/results.txt; git -C /repo worktree remove --force $wt; rm -rf $base; exit 2; }
fi
mkdir -p $vc
(cd /verif && tar cf - --exclude=.git --exclude=seeded --exclude=replays --exclude=work .) | (cd $vc && tar xf -)
sed -i "s#=> /repo#=> $wt#" $vc/harness/go.mod
for c in "$@"; do
  out=$(cd $vc && VERIF_REPO=$wt timeout 3000 ./check $c quick 2>&1 | grep -v "^WARNING"); rc=$?
  first=$(echo "$out" | grep -m1 -A1 "^VIOLATION" | tr '\n' ' ' | cut -c1-330)
  [ -z "$first" ] && first=$(echo "$out" | grep -m1 "^OK\|^KNOWN" | cut -c1-330)
  rc=$(echo "$out" | grep -q "^VIOLATION" && echo 1 || echo 0)
  echo "$s $c exit=$rc $first" | tee -a /tmp/pm/results.txt
done
git -C /repo worktree remove --force $wt
rm -rf $base
