#!/usr/bin/env python3
"""Writes MANIFEST.json from the table below (kept in one place so the manifest
stays valid while checks are added)."""
import json, os, subprocess
V = os.path.dirname(os.path.dirname(os.path.abspath(__file__)))

BASE_NOTE = ("Trusted base: Coq 8.16.1 kernel (vm_compute for finite checks, no native_compute), no axioms (Print Assumptions "
             "closed for every theorem), extraction with ExtrOcamlBasic only + OCaml driver, the Go harness and verif-tagged hooks, "
             "python3 sqlite3 (SQLite 3.40.1) as oracle. The Go code is modelled by hand (coq/theories/Model) and tied to /repo by "
             "running model and implementation on the same inputs on every run. ")

CHECKS = {
 "C14": dict(
   text="Coq theorems over the executable model: readVarint inverts sqlite3PutVarint for all 2^64 values (all nine lengths), parseRecord inverts the record "
        "format for every column list / every admissible serial type / any header size, the local-payload size equals the X/M/K rule for every payload "
        "length and legal page size (table and index), parsePayload decodes inline and spilled cells, addOverflow returns the payload for overflow chains "
        "of any length. The model is run against the real decoders (function level, exhaustive on small spaces) and against SQLite-written files at every "
        "spill threshold on every run.",
   note="Page layout (cell pointer array -> cells) is covered by correspondence only in this property; the page-level round trip is part of C01.",
   technique="Coq proof (round-trip theorems by induction) + differential execution of the extracted model vs the Go code vs independent oracle",
   design="DESIGN.md section 6, C14"),
}

NOT_YET = {}

def main():
    props = [json.loads(l) for l in open(os.path.join(V, "properties.jsonl"))]
    commits = subprocess.run(["git", "-C", "/repo", "log", "--format=%H %s", "--grep=^verif:"], stdout=subprocess.PIPE).stdout.decode().strip().split("\n")
    m = {
        "version": 1,
        "setup_cmd": "cd /verif && python3 -c 'import sys; sys.path.insert(0, \".\"); from vlib import core; core.build()'",
        "hooks": {
            "guard": "verif",
            "enable": "go build -tags verif (the harness module /verif/harness replaces github.com/alicebob/sqlittle with /repo)",
            "baseline_off_cmd": "cd /repo && GOFLAGS=-mod=mod GOPROXY=off GOSUMDB=off GOTOOLCHAIN=local go test -vet=off -count=1 -json ./...",
            "source_commits": [c.split()[0] for c in commits if c],
            "add_only": True,
        },
        "engines": [
            {"name": "coq-model", "path": "coq/", "serves_properties": sorted(CHECKS), "kind_free_text": "Coq 8.16.1 development: executable model, specifications, proofs, property theorems; extracted to OCaml (coq/extract/modelrun)"},
            {"name": "go-harness", "path": "harness/", "serves_properties": sorted(CHECKS), "kind_free_text": "Go harness built against /repo with -tags verif; runs the same cases as the extracted model"},
        ],
        "checks": [],
        "not_applicable": [],
        "notes": "Entry point ./check <id> <quick|thorough>. Known findings: known_findings.json. Seeded breaking changes used to test the checks: seeded/.",
    }
    for p in props:
        pid = p["id"]
        if pid in CHECKS:
            c = CHECKS[pid]
            m["checks"].append({
                "property_id": pid,
                "quick_cmd": "./check %s quick" % pid,
                "thorough_cmd": "./check %s thorough" % pid,
                "evidence_file": "evidence/%s.json" % pid,
                "replay_cmd_template": "./check %s --replay {path}" % pid,
                "engine": "coq-model",
                "level_claimed": {"category": "proof", "text": c["text"], "design_ref": c["design"]},
                "level_note": BASE_NOTE + c["note"],
                "technique": c["technique"],
            })
        else:
            m["not_applicable"].append({"property_id": pid, "reason": NOT_YET.get(pid, "check not built yet in this session (work in progress; see DESIGN.md section 6 for the plan)")})
    json.dump(m, open(os.path.join(V, "MANIFEST.json"), "w"), indent=1)

if __name__ == "__main__":
    main()
