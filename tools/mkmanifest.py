#!/usr/bin/env python3
"""Writes MANIFEST.json from the table below (kept in one place so the manifest
stays valid while checks are added)."""
import json, os, subprocess
V = os.path.dirname(os.path.dirname(os.path.abspath(__file__)))

BASE_NOTE = ("Trusted base: Coq 8.16.1 kernel (vm_compute for finite checks, no native_compute), no axioms (Print Assumptions "
             "closed for every theorem), extraction with ExtrOcamlBasic only + OCaml driver, the Go harness and verif-tagged hooks, "
             "python3 sqlite3 (SQLite 3.40.1) as oracle. The Go code is modelled by hand (coq/theories/Model) and tied to /repo by "
             "running model and implementation on the same inputs on every run. ")

CHECKS = {
 "C14": dict(
   text="Coq theorems over the executable model: readVarint inverts sqlite3PutVarint for all 2^64 values (all nine lengths), parseRecord inverts the record "
        "format for every column list / every admissible serial type / any header size, the local-payload size equals the X/M/K rule for every payload "
        "length and legal page size (table and index), parsePayload decodes inline and spilled cells, addOverflow returns the payload for overflow chains "
        "of any length; the four cell formats (table leaf / interior, index leaf / interior) decode from their encodings, the cell pointer array decodes to the offsets it encodes, and a page of "
        "each of the four kinds laid out as the format says - page 1 with its 100-byte file header included - decodes to exactly its cells in pointer-array order (C14_table_leaf_cell ... C14_table_leaf_page, "
        "C14_index_leaf_page, C14_table_interior_page, C14_index_interior_page, C14_first_page_table_leaf, C14_first_page_table_interior). readVarint's loop body is translated from db/bits.go on every build (Go's wrapping uint64 arithmetic) and "
        "proved to compute the model's read_varint on every byte string, ending within nine iterations (C14_source_varint); parseRecord's switch over the serial types is translated case by case (labels, bytes required, bytes consumed, value expression, the default case's length expressions) and "
        "proved to decode every serial type from every body as the model does (C14_source_record_switch). The local-payload arithmetic of the model is "
        "tied to the source by translation as well: calculateCellInPageBytes and the three threshold expressions are translated from db/btree.go on every build (Go's truncated / and %) and "
        "proved equal to the model's for every page size >= 12, payload length and threshold (C14_source_arithmetic). The model is run against the real decoders (function level, exhaustive on small spaces) and against SQLite-written files at every "
        "spill threshold on every run.",
   note="Page-level theorems take the well-formedness of each cell at its offset as a hypothesis (discharged by the cell theorems); that SQLite lays pages out this way is the file format, "
        "validated by the correspondence run on every page of the corpus.",
   technique="Coq proof (round-trip theorems by induction) + differential execution of the extracted model vs the Go code vs independent oracle",
   design="DESIGN.md section 6, C14"),
 "C01": dict(
   text="Coq: the table b-tree traversal equals 'deliver the in-order flattening of the tree to the callback' for every tree shape, depth (<= 31, the code's limit) "
        "and callback (C01_iter_flat), Table.Scan delivers the decoded rows of that flattening, each once, in tree order (C01_scan_rows, C01_scan_all); the decoding of "
        "each row is C14's round trip. The row mapping of the high level API (rowid aliases, defaults for short rows, WITHOUT ROWID store order) is part of the executable "
        "model (Model/High.v) and is tied to the code and to real SQLite on every run: Select on every table of a SQLite-written corpus x many column lists, compared with "
        "SQLite's own SELECT ... ORDER BY rowid|pk and with the extracted model.",
   note="The statement 'the flattening of a SQLite-written tree is the table's content in rowid order' rests on SQLite's b-tree invariants, validated by the oracle comparison, not proved. "
        "Schema interpretation is C10's subject: the model takes the Schema sqlittle computed as an input. Known findings (DEFAULT affinity, INTEGER(n) PRIMARY KEY) are replayed separately.",
   technique="Coq proof (traversal = flattening, by induction on the depth budget) + differential execution model vs Go vs SQLite",
   design="DESIGN.md section 6, C01"),
 "C02": dict(
   text="Coq: the index b-tree traversal, including entries stored in interior pages, equals 'deliver the in-order flattening' for every tree and callback (C02_iter_flat, "
        "C02_scan_rows, C02_scan_all). IndexedSelect on rowid and WITHOUT ROWID tables (row lookup per entry, key-column positions by name and collation) is in the executable "
        "model and is compared on every run with SQLite's ORDER BY <index key columns with collations/directions>, rowid|pk over every index of a SQLite-written corpus "
        "(partial, expression, unique, automatic, DESC, NOCASE/RTRIM/explicit BINARY, depth 3, interior entries, overflowing keys), twice per handle.",
   note="Index consistency (one entry per covered row, sorted) is SQLite's invariant, validated by the oracle comparison.",
   technique="Coq proof (index traversal = flattening) + differential execution model vs Go vs SQLite ORDER BY",
   design="DESIGN.md section 6, C02"),
 "C03": dict(
   text="Coq: Index.ScanEq delivers take_while (Equals key) of the suffix starting at the first entry not less than the key (C03_scan_eq, with Go's sort.Search modelled "
        "exactly), and that segment is exactly filter (Equals key) of the whole index when the index is laid out less*/equal*/greater* for the key (C03_eq_is_filter). "
        "IndexedSelectEq / PKSelect with asDbKey (collation and direction per index column) are in the executable model and are compared on every run with SQLite's "
        "WHERE (+expr COLLATE c) IS ? ... ORDER BY index order, for stored keys, every prefix length and neighbour keys.",
   note="The layout hypothesis is derived in Coq from C11 (Proofs/SortedP.v): an index whose entries are sorted entry to entry by the index's own order (per column SQLite's order under the "
        "column's collation, DESC reversed, lexicographic; transitivity from the total preorder) is less*/equal*/greater* for every key carrying the index's collations and directions on a "
        "prefix of its columns (C03_sorted_layout), hence ScanEq returns exactly filter (Equals key) of the index (C03_scan_eq_sorted). That a SQLite-written index IS sorted that way is "
        "SQLite's invariant, validated by the oracle comparison on every run.",
   technique="Coq proof (ScanEq = filter on a sorted index) + differential execution model vs Go vs SQLite",
   design="DESIGN.md section 6, C03"),
 "C04": dict(
   text="Coq: Table.Rowid on a table tree whose rowids ascend and whose interior keys bound their left subtrees is the lookup among the tree's rows - the stored record if "
        "present, 'not found' without error if absent - for every rowid in Z (hence all of int64), every depth the code accepts, with Go's sort.Search bisection modelled "
        "exactly (C04_lookup, C04_descent); the high level SelectRowid is that lookup with the row mapped (C04_select_rowid). Every run: every present rowid (sample in quick), both neighbours, every interior separator key, first/last rowid of every leaf, "
        "int64 min/max on SQLite-written trees of depth 1-3(4), through Table.Rowid, SelectRowid and PKSelect, against SQLite and against the extracted model.",
   note="Well-formedness of SQLite-written trees (sep_ok, sortedness) is SQLite's invariant; validated by the oracle comparison.",
   technique="Coq proof (from-key descent = lookup in the sorted flattening) + differential execution model vs Go vs SQLite",
   design="DESIGN.md section 6, C04"),
 "C12": dict(
   text="Coq: the table and index traversals deliver the rows up to the first failing page / cell and then report that failure (C12_table_iter, C12_index_iter: iter = deliver the "
        "flattening, where the flattening stops at the first error); for ANY set of page reads turned into failures the rows a scan sees are the fault-free rows or a prefix of them "
        "followed by an error (C12_table_rows, C12_index_rows, C12_table_scan, C12_index_scan, C12_store; overflow pages included); the same for the from-key scans and Table.Rowid (C12_scan_min, C12_scan_range, C12_scan_eq, C12_rowid) and for the HIGH LEVEL API - "
        "Select, SelectRowid, IndexedSelect, IndexedSelectEq, PKSelect with the sqlite_master read, the nested rowid / primary key lookup per index entry and the row mapping all through the faulty pager, "
        "any schema record, any callback whose state only grows (C12_select, C12_select_rowid, C12_indexed_select, C12_indexed_select_eq, C12_pk_select; Proofs/FaultHighP.v), and the same end to end with the schema record itself computed from the file through the faulty pager (C12_e2e_*). Every run: the k-th physical read of every "
        "operation (low level and high level, incl. the nested lookups of the indexed selects) fails, for every k up to the fault-free read count, as I/O error and as short read; "
        "the verdict is the property predicate itself; the same call repeated on the same handle after the fault must not silently differ; always-failing pages are run through the extracted model and the implementation.",
   note="The from-key operations have their own simulation proof (Proofs/FaultMinP.v): Index.ScanMin / ScanRange / ScanEq with any callback whose collected rows only grow (C12_scan_min, "
        "C12_scan_range, C12_scan_eq, C12_collectors_grow) and Table.Rowid (C12_rowid: the fault-free answer or an error) under any set of failing reads, the error-remembering bisection "
        "included. The high level theorems are a simulation with two callbacks (the faulty run's nested lookup may itself fail earlier than the fault-free run's): "
        "FaultMinP is stated for a pair of callbacks related by out_le. RLock failure is covered by C06/C07; Row.Scan conversions by C18.",
   technique="Coq proof (fault monotonicity of the tree flattening) + exhaustive k-th-read fault injection on the Go code + model/implementation differential under faults",
   design="DESIGN.md section 6, C12"),
 "C13": dict(
   text="Coq: for every index tree the code accepts and every predicate that is false*true* along the full scan, the from-key traversal - Go's sort.Search bisection at every page, "
        "first child searched, later children iterated, interior entries emitted in between - delivers exactly the suffix starting at the first entry not less than the key "
        "(C13_itermin, C13_scan_min); ScanRange / ScanEq deliver the take_while segments of it (C13_scan_range, C13_scan_eq), which are the filters 'not less than' / 'equal' when "
        "the scan is ordered for the key (C13_min_is_filter, C13_eq_is_filter). Every run: cut points at every interior-page entry, its neighbours, first/last/random entries, every "
        "prefix length, neighbour values, over-long keys, against the reference filter of the implementation's own full scan (independent comparator) and the extracted model.",
   note="Monotonicity of Search(key) along an index sorted entry to entry by its own order is derived from C11 in Coq (C13_sorted_mono, C13_scan_min_sorted: ScanMin = the filter 'not less than "
        "the key' of the full scan). That a SQLite-written index is sorted that way is SQLite's invariant; the check verifies on every run that the full scan is sorted by the index order.",
   technique="Coq proof (bisection lemma + induction over the depth budget) + differential execution model vs Go vs reference filter",
   design="DESIGN.md section 6, C13"),
 "C17": dict(
   text="Coq: for any list of rows and any k in 1..n the stopping callback receives exactly the first k rows, in order, exactly k invocations, result 'stopped' and no error (C17_prefix, "
        "C17_calls); for every callback, once it says done it is never invoked again (C17_never_again); lifted to Table.Scan, Index.Scan, ScanMin, ScanRange, ScanEq over every tree "
        "the code accepts through traversal = flattening (C17_table_scan ... C17_scan_eq). Every run: every k on small results, and on deep trees the rows around interior-page entries, "
        "every row of leaves under right-most pointers, leaf ends; SelectDone incl. lock release; from-key scans for every k up to 40.",
   note="Lock release after the call is observed through the harness pager (lock/unlock events); the OS-level lock is C06's subject.",
   technique="Coq proof (early stop = firstn, by induction) + differential execution for structural stop positions",
   design="DESIGN.md section 6, C17"),
 "C11": dict(
   text="Coq: SQLite's comparison rules are written as a denotation into an ordered domain (Spec/Order.v: class order, numbers as exact dyadic rationals m*2^e plus the infinities with "
        "IEEE-754 binary64 decoded arithmetically in Z, text by collation key, blobs bytewise) and proved a total preorder on all storable values (C11_refl, C11_total, C11_trans); "
        "compare() of db/cmp.go computes it for EVERY pair of storable values, integer-against-real included (C11_compare_spec; C11_int_real: truncate, compare, tie-break through float64(i) = the exact "
        "comparison with the real's dyadic value, for all int64 x non-NaN binary64, via exactness of float64() on integers of <= 53 significant bits); Equals / Search are its lexicographic lifting to keys with "
        "ASC/DESC and per-column collations (C11_equals, C11_search, C11_equals_search); NOCASE's loop is the bytewise order of the keys 'A-Z folded bytes before the first NUL, then the total length' - "
        "SQLite's nocaseCollatingFunc (C11_nocase_order); cmpIntFloat / cmpFloat64 are also translated statement by statement from db/cmp.go on every build and proved to compute the model's functions (C11_source_int_real, C11_source_float). Every run: all ordered pairs of a 108-value boundary grid x collations against SQLite's own "
        "DENSE_RANK() OVER (ORDER BY v COLLATE c) and the extracted model; random multi-column keys through Equals / Search.",
   note="Go's float64(int64) (round to nearest even), int64(float64) (truncation) and float comparison are written arithmetically in Model/Float.v (IEEE-754 assumed of the hardware). "
        "NOCASE with embedded NUL bytes was a recorded finding and is repaired (fix 998447a: byte loop, stop at a NUL in both texts, then lengths); the same repair made NOCASE bytewise on invalid UTF-8.",
   technique="Coq proof (total preorder via denotation; lexicographic lifting) + exhaustive grid differential vs SQLite ranks",
   design="DESIGN.md section 6, C11"),
 "C15": dict(
   text="Coq: parseHeader accepts exactly the headers of plain UTF-8, rollback-journal, no-reserved-space databases of a legal page size in schema format 2..4 and returns the declared page "
        "size (1 meaning 65536) (C15_accept, C15_only_accept); each must-reject class of the property is decided by one field whatever all other bytes hold (C15_reject_wal, _read_version, "
        "_utf16, _reserved, _schema_format, _magic, _pagesize); the fields that do not affect reading may hold any value (C15_dont_care, over bytes 24..43, 48..55, 60..71, 92..99); the offsets, widths and byte order the model reads "
        "the fields with are those of the struct parseHeader decodes the 100 bytes into, translated from db/database.go on every build (C15_source_layout, C15_source_fields_modelled). "
        "Every run: every header byte x every value on SQLite-written headers, all 65536 page-size field values, real files of every legal page size end to end, real WAL (unmerged "
        "content) / UTF-16 files, and the header rewritten under an open handle between transactions and between open and the handle's first transaction (every call of the transaction must fail). Also after a transaction whose read lock was refused.",
   note="Schema format 1 and 0, fractions other than 64/32/32, non-zero expansion bytes and text encodings other than 1..3 are left open by the property: sqlittle refuses them, the check does not judge them. "
        "Re-validation at every transaction is checked on the code (harness sequences); its model (resolveDirty) is part of C08's state machine.",
   technique="Coq proof (characterisation of the accepted headers) + exhaustive single-byte sweep differential",
   design="DESIGN.md section 6, C15"),
 "C05": dict(
   text="Coq: in the model a Go run-time panic is the result Err EPanic (slice bounds incl. the capacity rule, index out of range, nil) and an unbounded loop is fuel; proved for EVERY byte string "
        "presented as a database file and every legal page size: parseRecord, newBtree and the four cell parsers, addOverflow (cyclic / short / long chains; each page read at most once), "
        "Table.Scan, Index.Scan, ScanMin, ScanEq, ScanRange, Table.Rowid and the reading of sqlite_master never panic and never run out of fuel, for every root page, key and callback "
        "(C05_record, C05_page, C05_overflow, C05_table_scan ... C05_master); and the high level API - Select, SelectRowid, IndexedSelect, IndexedSelectEq, PKSelect with their column mapping, "
        "WITHOUT ROWID store order, primary-key positions inside index entries and key building - for every byte string as file AND every schema record, fitting the file or not "
        "(C05_select, C05_select_rowid, C05_indexed_select, C05_indexed_select_eq, C05_pk_select). Every run: structure-aware and blind corruptions of SQLite-written files, directed pointer corruptions of "
        "every interior page, hostile sqlite_master texts, the repository's fuzz files and earlier failures: every public operation with panic recovery and a time limit; low level "
        "operations also through the extracted model. Found and repaired in this work: 7 panics / unbounded loops (see known_findings.json 'fixed').",
   note="PARTIAL: the totality theorems cover the low level API, schema reading (sqlite_master rows) and the high level API given a schema record; turning sqlite_master's SQL text into that "
        "record (sql.Parse + newCreateTable) and Row.Scan are covered by the mutation run on the code and by C16's range theorems for the parser driver, not by a theorem here. On corrupted "
        "files the high level operations are run through the extracted model too whenever the damaged file still yields the intact file's schema (rows and ok/err must agree). "
        "'Hang' is judged by a generous per-operation wall-clock limit (8 s for operations that normally take < 50 ms). Known finding: exponential re-traversal of fan-in DAGs below the "
        "depth limit. The pager contract (whole pages of the validated page size or an error) is a hypothesis of the theorems, met by the file pager and the harness pager.",
   technique="Coq proof (panic-freedom and bounded fuel for all byte strings, by induction over the depth budget) + structure-aware mutation differential",
   design="DESIGN.md section 6, C05"),
 "C08": dict(
   text="Coq: the handle's state machine (Model/DbState.v: dirty flag set by RLock, resolveDirty with the change-counter / schema-cookie comparisons, the page cache with its "
        "drop-everything-at-100-pages rule, the object cache, openPage, master) is proved coherent over EVERY history (commit | read transaction)* from open: each transaction's page "
        "requests - any sequence, hence any operation - are answered exactly as an uncached reader of the then-current committed image would answer them (C08_coherent, C08_txn, "
        "C08_from_open), repeated reads are identical (C08_idempotent), the cached sqlite_master is the current one (C08_master); an unacceptable header or a hot journal fails every "
        "call (C08_bad_header, C08_hot_journal). Hypothesis 'protocol': committed images with equal change counters are equal, with equal cookies have equal sqlite_master. "
        "Every run: random histories on one long-lived handle against real SQLite writers (DML, DDL, growth, page reuse, root reuse, VACUUM incl. page-size change, dropped columns, indexes re-created under their names, single-row updates; the handle's first calls after each commit are point lookups / indexed selects on the table just written; before the first "
        "read too), each read twice, databases below and above the cache size, in-memory pager (with the extracted state machine serving the model's pages) and real file pager.",
   note="The 2^32 wrap of the counters is outside the hypothesis (fewer than 2^32 commits between two reads). Which pages a traversal requests is determined by the answers, so per-request "
        "transparency gives per-operation equality; operations themselves are the pure functions of C01-C04. The file not changing during a transaction is C06.",
   technique="Coq proof (cache-coherence invariant by induction over histories) + history differential vs real SQLite",
   design="DESIGN.md section 6, C08"),
 "C06": dict(
   text="Coq: a transition system of the kernel's record-lock table for SQLite's three lock regions, any number of sqlittle handles stepping through filePager.RLock's three fcntl calls / "
        "page reads / RUnlock / Close and any number of SQLite connections stepping through unixLock / unixUnlock, one system call per step, EVERY interleaving (C06_invariant): what "
        "each process holds is determined by its actor's state (C06_holds_and_releases: exactly the shared range between RLock and RUnlock; nothing after RUnlock, a failed RLock or "
        "Close), and while a handle can read pages no connection of another process is in EXCLUSIVE, the only state in which the file is written (C06_no_writer_while_reading). The lock "
        "byte offsets and the order of RLock's calls are regenerated from db/pager.go / pager_unix.go on every run and proved equal to SQLite's (C06_lock_bytes). Every run, on a real "
        "file with real POSIX locks: every entry point x exit path (end, early stop, callback panic, errors) with another process probing (F_GETLK) and a real SQLite writer trying to "
        "COMMIT during the callback and after the return; expected rows from the extracted model.",
   note="PARTIAL by nature: the kernel's lock semantics (per-process ownership, close drops all, F_SETLK never blocks) are the model's transition rules, validated by the probes, not proved; "
        "NFS and the Windows pager are not modelled. The theorems assume one actor per process; that this is necessary is proved (C06_same_process_*_refuted) and is the known finding "
        "(two handles of one process).",
   technique="Coq proof (invariant over all interleavings of the lock protocol LTS) + translated constants + real-process lock probes",
   design="DESIGN.md section 6, C06"),
 "C07": dict(
   text="Coq (same transition system): a connection in PENDING or EXCLUSIVE makes RLock fail at its first system call - the handle stays idle, reads no page (C07_pending_excl); connections "
        "holding at most RESERVED do not keep the reader out (C07_reserved_admits) and the file cannot be written while it reads (C07_no_writer_while_reading); a journal that looks hot "
        "while RESERVED is live does not stop the read (C07_reserved_journal_ok, on the handle state machine of C08); the pending byte is requested before the shared range "
        "(C07_order, from the translated source). Every run: a real SQLite connection parked in UNLOCKED, SHARED, RESERVED, RESERVED with the journal header on disk, PENDING, EXCLUSIVE, "
        "EXCLUSIVE with spilled pages - the lock table confirmed by a third process and predicted by the extracted model - and every read operation on a fresh and on a long-lived handle "
        "with stale caches; plus a writer that starts and tries to spill while a read is inside its callback.",
   note="PARTIAL: SQLite's unix VFS lock ladder is transcribed into the model's connection steps and validated in every state, not proved; CheckReservedLock cannot see a RESERVED lock of the reader's own process.",
   technique="Coq proof (lock protocol LTS) + real SQLite connections parked in every lock state",
   design="DESIGN.md section 6, C07"),
 "C09": dict(
   text="Coq: SQLite's rollback-journal commit as a sequence of file operations (Model/Crash.v: journal created with a ZEROED magic, records appended, synced, then the magic and record "
        "count, synced, only then database pages incl. spills, later headers patched beyond the first 28 bytes, one commit operation: unlink / truncate / zero the header). For EVERY "
        "transaction of that shape, EVERY crash point and EVERY torn last write: a database file that has been touched and whose transaction has not reached its commit point lies next "
        "to a journal that validJournal accepts (C09_crash), and such a journal without a live RESERVED lock makes every page request of every transaction fail (C09_hot_journal_refuses); "
        "journals shorter than a header are not hot (C09_benign); once the commit operation has taken effect, even partly, what is left is not hot at any later crash point (C09_committed); "
        "so every crash state is one of: hot journal, untouched file, committed file without a hot journal (C09_every_crash_state); the journal header fields the model reads are the struct validJournal decodes, "
        "translated from db/journal.go on every build, and valid_journal is exactly validJournal's translated tests (C09_source_journal_layout, C09_source_journal_tests). Every run: a real SQLite writer that spills is killed on entering every pwrite64 / fdatasync / ftruncate / unlink on the "
        "two files (strace injection), torn writes are synthesised, DELETE / TRUNCATE / PERSIST, several page sizes, 512- and 4096-byte sectors; sqlittle must fail or return exactly what "
        "real SQLite returns after recovering a copy; one handle across the crash; the refused states re-read while another process holds a SHARED lock (still refused); after a crash met by a long-lived handle SQLite recovers in place and commits once more, the handle then reads SQLite's content; benign journals. The real writer's operation order is checked against the theorem's protocol automaton.",
   note="PARTIAL: process-kill semantics (completed writes persist in order); power-loss reordering is outside the property. That SQLite's recovery of a pair whose journal is not hot returns the "
        "file as it is, and that the file then is the pre- or post-image, is validated by the oracle on every crash state, not proved (the model's cmod / cdone flags stand for it).",
   technique="Coq proof (protocol automaton invariant over all crash prefixes and torn writes) + strace kill-at-every-syscall differential vs SQLite recovery",
   design="DESIGN.md section 6, C09"),
 "C10": dict(
   text="The CREATE TABLE / CREATE INDEX parser is not modelled by hand: its LALR tables, token numbers, keyword table and all semantic actions are TRANSLATED from sql/parser.go (and "
        "the grammar from parser.go.y, cross-checked against the tables) into Coq on every run, and goyacc's driver loop is transcribed once over them (Model/SqlParse.v); Coq proves on "
        "the translated text that every value an action reads is defined by the grammar symbol it reads it from (C10_actions_read_defined_values). db/schema.go's interpretation of the "
        "parsed statement is an executable Coq function over those statements (Model/Schema.v: constraints in textual order, rowid alias rule, merging of redundant UNIQUE / PRIMARY KEY, "
        "autoindex numbering, the late INTEGER PRIMARY KEY index of WITHOUT ROWID tables, DEFAULT with column affinity), proved for every statement value: SQLite's redundancy relation is an "
        "equivalence (C10_redundancy_is_equivalence); a WITHOUT ROWID table has no rowid alias, a rowid table no primary key column list, constraint indexes are pairwise non-redundant "
        "(C10_create_table_invariants); the automatic indexes are named sqlite_autoindex_<table>_<k> with k >= 1 strictly increasing along the list - no number twice, none backwards, whatever is merged, skipped or built late - and a rowid table's primary key index is one of them (C10_autoindex_numbering); a WITHOUT ROWID key keeps each (name, collation) once, represents every written column and invents none (C10_primary_key_columns_once). Agreement with SQLite is decided against the real thing on every run: grammar-generated definitions (constraints in any order, duplicated / "
        "overlapping / named, quoted identifiers, COLLATE, ASC/DESC, WITHOUT ROWID, DEFAULT forms, expression and partial indexes) are executed by SQLite and what it accepts is read through "
        "sqlittle and compared with PRAGMA table_xinfo / index_list / index_xinfo and a behavioural rowid-alias test; and the same definitions - sqlite_master's texts, tokenized by the "
        "implementation, parsed by the translated parser, interpreted by Model/Schema.v - must give db.Schema()'s answer (columns, defaults, alias, NOT NULL, collations, every index).",
   note="PARTIAL: that the rules of Model/Schema.v ARE SQLite's is decided by the oracle comparison on generated definitions, not by a theorem (SQLite's build.c is not modelled). ASCII "
        "identifiers only in the model (Go folds case with Unicode tables); DEFAULTs that need strconv.ParseFloat are compared as 'unknown'. This work found and repaired 10 disagreements "
        "of those rules with SQLite (known_findings.json 'fixed'); three more are recorded as known findings.",
   technique="translated parser tables and actions + hand model of schema.go tied by differential (proofs of its invariants in Coq) + differential vs SQLite's PRAGMA schema introspection",
   design="DESIGN.md section 6, C10"),
 "C16": dict(
   text="The parser is not modelled by hand: on every run the 11 LALR tables, the token numbers, the tokenizer's keyword table, all 107 semantic actions (sql/parser.go) and the grammar with its "
        "%type declarations (sql/parser.go.y, cross-checked against the tables' production lengths) are TRANSLATED into Coq, and goyacc's driver loop is transcribed once over them with a "
        "freshness bit per value-stack field. Coq then proves on that text: every state x lookahead stays in range in yynewstate / yydefault / the exception table (C16_decisions_in_range) "
        "and every goto yields a state (C16_gotos_in_range); lifted by a loop invariant to EVERY token list and any step budget: no out-of-range access to any of the ten tables, no shift "
        "without a lookahead, every pushed state is a state (C16_no_table_panic); and every semantic value an action reads is assigned by every production of the "
        "symbol it is read from (C16_local) - the obligation the empty productions violated before the repair. Every run: tokenize / Parse never panic on generated and malformed text; the "
        "translated parser run on the implementation's token lists gives the same statement (canonical dump) and never reads a stale slot; every string parsed three times in different "
        "orders gives one result; each column of SQLite-valid statements is reported identically in context, alone and rotated.",
   note="PARTIAL: termination of the driver is a step budget in the model (never exhausted), not a theorem; that the value stack is deep enough for every reduction and that actions apply "
        "functions to values of the right shape (the model's BadTable \"eval\") is goyacc's construction and Go's typing, assumed; the tokenizer is not modelled (its token lists are the implementation's; its totality "
        "is checked by the malformed stream); that the LR stack slot k holds grammar symbol k is goyacc's construction, assumed. The translator (tools/regen.py) is in the trusted base; a "
        "source it cannot read is a hard error.",
   technique="translation of the parser's tables and actions into Coq with finite proofs by vm_compute, re-checked every run + differential of the translated parser vs sql.Parse",
   design="DESIGN.md section 6, C16"),
 "C18": dict(
   text="Coq: Row.Scan as a total function of (stored value | missing column) x destination kind (Model/RowScan.v) - every combination yields a value or an error, there is no third outcome; "
        "the conversion table is proved entry by entry: NULL and missing columns give the zero value (C18_null, C18_missing), integers and reals convert by Go's rules incl. int32 wrap, "
        "bool = (n != 0), amd64 float-to-int truncation (C18_integers, C18_reals), integer text is taken exactly over all of int64 and refused text is an error (C18_text_int, C18_text_bad), "
        "unsupported destinations are errors (C18_unsupported); and a scanned []byte is a fresh buffer: writing to it changes no buffer that existed before (C18_copy, heap model). "
        "Every run: every (value, destination) pair of a boundary grid and random argument lists against the extracted table; the row must stay unchanged; scan-overwrite-reread-close "
        "histories on 512..65536-byte pages for blobs of every placement.",
   note="strconv.FormatFloat / ParseFloat and time.Parse are parameters of the model: the harness records the real answers per case and hands them to the model (library behaviour is assumed, "
        "not modelled). The decimal reader / writer of the model (ParseInt / FormatInt) is tested inside Coq on the int64 boundaries (a test), not proved inverse for all values.",
   technique="Coq proof (conversion table by case analysis; copy semantics on a heap model) + exhaustive grid differential",
   design="DESIGN.md section 6, C18"),
 "C19": dict(
   text="Coq: driver.go's QueryContext goroutine and Rows.Next / Close / context cancellation as a transition system with one atomic action per step (Model/Driver.v); [reach] is every "
        "interleaving of the producer with ANY consumer program of Next / cancel / Close, for any native result (rows, final error). Proved for all of them: the consumer always holds a "
        "prefix of the native rows in order (C19_prefix); EOF without a cancel means all rows were delivered and the scan ended cleanly - never a silently short result (C19_eof_complete); "
        "an error Next reports is the scan's (C19_error_is_scans: the error is published before the channel closes); Close returns only after the producer is past the scan with the lock "
        "released (C19_close_unlocked); every step decreases a measure so executions are finite (C19_finite), the producer cannot spin (C19_producer_bounded), a cancelled producer runs to "
        "its exit (C19_cancelled_producer_exits), and an execution that saw a cancel or Close can only end with the producer exited, channel closed, lock dropped (C19_clean_end; no "
        "deadlock otherwise: C19_terminal); '*' expansion (C19_star, C19_names). Every run: the driver's Statement/Rows are called directly with consumer programs (close or cancel after "
        "every k, Next after cancel / Close, abandoned result sets, random programs) on rowid and WITHOUT ROWID tables, clean and with a damaged leaf, several delays each; the observation "
        "(rows by native position, EOF/error, Close's result, producer parked/exited, lock seen by another process) must be one of the model's outcomes over all interleavings; then "
        "goroutine, descriptor and lock leak checks. Through database/sql: rows equal DB.Select's, close/cancel at every k, rows.Err on damaged files, refused statements, one prepared "
        "statement across schema changes made by SQLite.",
   note="The native scan is a parameter of the model (that it returns the table's rows is C01, that it stops when told is C17); Go's channel, select, WaitGroup and context semantics are "
        "written into the step relation (assumed, as documented by the Go memory model), database/sql's own goroutines are not modelled. The implementation's runs sample the interleavings "
        "the Go scheduler produces; the theorems cover all of them.",
   technique="Coq proof (invariants over all interleavings of a producer/consumer transition system; termination measure) + outcome-set conformance of the real driver against the extracted model",
   design="DESIGN.md section 6, C19"),
 "C20": dict(
   text="Coq: any number of goroutines, each with its own handle, any operations - functions of (package-level state, files, the own handle's state) - under any interleaving "
        "(Model/Conc.v). Proved: every goroutine's results and its handle's final state are those of its own operations run alone (C20_isolation, C20_independent_of_others; instance for "
        "the handle state machine of Model/DbState.v: C20_dbstate_handles); no two accesses of different goroutines to one location include a write (C20_race_free); the one cell the "
        "driver's producer and consumer share, rows.err, is read only after its write and the synchronising event (C20_driver_err_cell_ordered, over Model/Driver.v). The code's side of "
        "the frame condition is a proof obligation over Gen/Footprint.v, regenerated from the sources on every build by a go/types analysis (harness/cmd/footprint): the list of uses of "
        "package-level variables outside init that are not plain reads (assignment, store through index/field/pointer, delete/clear/copy/append, address-of, pointer-receiver method, "
        "handing a map/slice/pointer on) must be empty (C20_shared_state_is_read_only), and the only go statement is the modelled producer (C20_library_goroutines). Every run: scenarios "
        "of N goroutines x M operations on own handles (same file, two files), database/sql pools with shared prepared statements, Query+Close at once, close/cancel after k; each run "
        "sequentially and several times concurrently under the race detector with varying GOMAXPROCS and random yields; every operation's digest must equal the sequential one and the "
        "race detector must stay silent. A race or a differing result is the replay; a broken footprint obligation without one is reported with no-failing-input-found.",
   note="That the code's operations have the footprint the model assumes rests on the syntactic analysis plus the race detector (writes through unsafe / reflection are invisible to the "
        "former; the module uses neither outside the pager's mmap). POSIX fcntl locks are per process: two handles of one process on the same file share them (C06 known findings "
        "same-process-unlock / same-process-close) - this does not change any result while no writer is active, which is what C20 states; with a concurrent writer it is the C06 finding. "
        "Callers writing the exported db.CollateFuncs / db.DefaultCollate while handles are in use are outside the property.",
   technique="Coq proof (isolation / non-interference over all schedules; frame obligation over a footprint regenerated from source) + race-detector differential against sequential execution",
   design="DESIGN.md section 6, C20"),
}

NOT_YET = {}

def main():
    props = [json.loads(l) for l in open(os.path.join(V, "properties.jsonl"))]
    commits = subprocess.run(["git", "-C", "/repo", "log", "--format=%H %s", "--grep=^verif:"], stdout=subprocess.PIPE).stdout.decode().strip().split("\n")
    m = {
        "version": 1,
        "setup_cmd": "cd /verif && python3 -c 'import sys; sys.path.insert(0, \".\"); from vlib import core; core.build()'",
        "hooks": {
            "guard": "verif",
            "enable": "go build -tags verif (the harness module /verif/harness replaces github.com/alicebob/sqlittle with /repo)",
            "baseline_off_cmd": "cd /repo && GOFLAGS=-mod=mod GOPROXY=off GOSUMDB=off GOTOOLCHAIN=local go test -vet=off -count=1 -json ./...",
            "source_commits": [c.split()[0] for c in commits if c],
            "add_only": True,
        },
        "engines": [
            {"name": "coq-model", "path": "coq/", "serves_properties": sorted(CHECKS), "kind_free_text": "Coq 8.16.1 development: executable model, specifications, proofs, property theorems; extracted to OCaml (coq/extract/modelrun)"},
            {"name": "go-harness", "path": "harness/", "serves_properties": sorted(CHECKS), "kind_free_text": "Go harness built against /repo with -tags verif; runs the same cases as the extracted model"},
        ],
        "checks": [],
        "not_applicable": [],
        "notes": "Entry point ./check <id> <quick|thorough>. Known findings: known_findings.json. Seeded breaking changes used to test the checks: seeded/.",
    }
    for p in props:
        pid = p["id"]
        if pid in CHECKS:
            c = CHECKS[pid]
            m["checks"].append({
                "property_id": pid,
                "quick_cmd": "./check %s quick" % pid,
                "thorough_cmd": "./check %s thorough" % pid,
                "evidence_file": "evidence/%s.json" % pid,
                "replay_cmd_template": "./check %s --replay {path}" % pid,
                "engine": "coq-model",
                "level_claimed": {"category": "proof", "text": c["text"], "design_ref": c["design"]},
                "level_note": BASE_NOTE + c["note"],
                "technique": c["technique"],
            })
        else:
            m["not_applicable"].append({"property_id": pid, "reason": NOT_YET.get(pid, "check not built yet in this session (work in progress; see DESIGN.md section 6 for the plan)")})
    json.dump(m, open(os.path.join(V, "MANIFEST.json"), "w"), indent=1)

if __name__ == "__main__":
    main()
