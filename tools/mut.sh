#!/bin/bash
# mut.sh <patch.diff> <property...> : apply a patch to /repo, run the quick checks, undo.
# Evidence files are saved and put back: evidence must only come from the unchanged tree.
p=$1; shift
cd /repo && git diff --quiet || { echo "/repo not clean"; exit 2; }
git -C /repo apply $p || { echo "apply failed"; exit 2; }
bak=$(mktemp -d /tmp/evbak.XXXX); cp -r /verif/evidence/. $bak/
for c in "$@"; do
  (cd /verif && timeout 3000 ./check $c quick 2>&1 | grep -v "^WARNING" | cut -c1-300 | head -5)
done
git -C /repo checkout -- .
rm -rf /verif/evidence; mkdir -p /verif/evidence; cp -r $bak/. /verif/evidence/; rm -rf $bak
git -C /repo status --short | head -3
