#!/bin/bash
# mut.sh <patch.diff> <property...> : apply a patch to /repo, run the quick checks, undo
p=$1; shift
cd /repo && git diff --quiet || { echo "/repo not clean"; exit 2; }
git -C /repo apply $p || { echo "apply failed"; exit 2; }
for c in "$@"; do
  (cd /verif && timeout 3000 ./check $c quick 2>&1 | grep -v "^WARNING" | cut -c1-300 | head -5)
done
git -C /repo checkout -- .
git -C /repo status --short | head -3
