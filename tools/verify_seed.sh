#!/bin/bash
# verify_seed.sh <seed-out-dir> : confirm a seeded change (a)-(c) in a scratch worktree of /repo HEAD
# prints one line: <dir> APPLY=.. BUILD=.. TESTS=.. DEMO_PATCHED=.. DEMO_CLEAN=..
export GOFLAGS=-mod=mod GOPROXY=off GOSUMDB=off GOTOOLCHAIN=local
d=$1
name=$(echo "$d" | tr '/.' '__')
wt=/tmp/sv/$name
mkdir -p /tmp/sv
git -C /repo worktree remove --force $wt >/dev/null 2>&1
git -C /repo worktree add -q --detach $wt HEAD || { echo "$d WORKTREE-FAIL"; exit 1; }
res="$d"
# the agent's patch, or - when a later fix: commit touched the same lines - the hand-rebased one kept beside it
if git -C $wt apply $d/patch.diff 2>/dev/null || git -C $wt apply --3way $d/patch.diff 2>/dev/null; then res="$res APPLY=ok"; git -C $wt diff HEAD > $d/patch.rebased.diff
elif [ -f $d/patch.rebased.diff ] && git -C $wt reset -q --hard HEAD && git -C $wt apply $d/patch.rebased.diff 2>/dev/null; then res="$res APPLY=ok"
else res="$res APPLY=FAIL"; echo "$res"; git -C /repo worktree remove --force $wt; exit 1; fi
if (cd $wt && go build ./... >/dev/null 2>&1); then res="$res BUILD=ok"; else res="$res BUILD=FAIL"; fi
fails=$(cd $wt && go test -vet=off -count=1 ./... 2>&1 | grep -- "^--- FAIL" | grep -v TestIOZero | wc -l)
res="$res TESTFAILS=$fails"
timeout 900 bash $d/demo/run.sh $wt > $d/demo.patched.log 2>&1; res="$res DEMO_PATCHED=$?"
git -C $wt reset -q --hard HEAD; git -C $wt clean -fdq
timeout 900 bash $d/demo/run.sh $wt > $d/demo.clean.log 2>&1; res="$res DEMO_CLEAN=$?"
git -C /repo worktree remove --force $wt
echo "$res"
