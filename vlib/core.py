"""Shared machinery of the checks: build (Coq model + proofs, extraction, Go
harness against /repo's working tree), differential runs, proof-obligation
accounting, evidence, known findings, replays."""
import fcntl, hashlib, json, os, re, shutil, subprocess, sys, time

VERIF = os.path.dirname(os.path.dirname(os.path.abspath(__file__)))
REPO = os.environ.get("VERIF_REPO", "/repo")
COQ = os.path.join(VERIF, "coq")
WORK = os.path.join(VERIF, "work")
GOENV = dict(os.environ, GOFLAGS="-mod=mod", GOPROXY="off", GOSUMDB="off", GOTOOLCHAIN="local",
             CGO_ENABLED=os.environ.get("CGO_ENABLED", "1"))
MODELRUN = os.path.join(COQ, "extract", "modelrun")
IMPLRUN = os.path.join(VERIF, "harness", "bin", "implrun")

TRUSTED_BASE = [
    "Coq 8.16.1 kernel (coqc); vm_compute used for finite checks and witnesses; native_compute not used",
    "axioms: none (every Print Assumptions in Properties/ reports 'Closed under the global context')",
    "extraction: Require Extraction + ExtrOcamlBasic only (bool, option, unit, list, prod, sumbool, sumor); Z/N/positive/nat/byte stay extracted inductives; OCaml 4.13.1; driver coq/extract/modelrun.ml",
    "correspondence harness: /verif/harness (Go, built from /repo's working tree with -tags verif) and the hook files db/verif_hooks.go, verif_hooks.go, sql/verif_hooks.go",
    "hand-written model coq/theories/Model/*.v (the Go code is modelled, not verified); specifications coq/theories/Spec/*.v transcribed from SQLite's documentation and validated against SQLite 3.40.1 (python3 sqlite3)",
]


class BuildError(Exception):
    def __init__(self, stage, log):
        super().__init__(stage)
        self.stage, self.log = stage, log


def sh(cmd, cwd=None, env=None, timeout=1800, inp=None):
    p = subprocess.run(cmd, cwd=cwd, env=env, shell=isinstance(cmd, str), stdout=subprocess.PIPE,
                       stderr=subprocess.STDOUT, timeout=timeout, input=inp)
    return p.returncode, p.stdout.decode("utf-8", "replace")


def _hash_files(paths):
    h = hashlib.sha256()
    for p in sorted(paths):
        h.update(p.encode())
        with open(p, "rb") as f:
            h.update(f.read())
    return h.hexdigest()


def _model_sources():
    out = []
    for d in ("Model", "Gen"):
        dd = os.path.join(COQ, "theories", d)
        if os.path.isdir(dd):
            out += [os.path.join(dd, f) for f in os.listdir(dd) if f.endswith(".v")]
    ex = os.path.join(COQ, "extract")
    out += [os.path.join(ex, f) for f in ("Extract.v", "modelrun.ml")]
    return out


def regen():
    """Regenerate coq/theories/Gen/*.v from /repo (translators)."""
    gen = os.path.join(VERIF, "tools", "regen.py")
    if os.path.exists(gen):
        rc, out = sh([sys.executable, gen, REPO], cwd=VERIF, timeout=300)
        if rc != 0:
            raise BuildError("translator", out)


def build(clean=False):
    """Build everything the checks need.  Serialised by a lock file; incremental."""
    os.makedirs(WORK, exist_ok=True)
    with open(os.path.join(WORK, ".buildlock"), "w") as lk:
        fcntl.flock(lk, fcntl.LOCK_EX)
        t0 = time.time()
        regen()
        if clean:
            sh("make clean >/dev/null 2>&1; rm -f Makefile Makefile.conf", cwd=COQ)
        mk, cp = os.path.join(COQ, "Makefile"), os.path.join(COQ, "_CoqProject")
        if not os.path.exists(mk) or os.path.getmtime(mk) < os.path.getmtime(cp):
            rc, out = sh("coq_makefile -f _CoqProject -o Makefile", cwd=COQ)
            if rc != 0:
                raise BuildError("coq_makefile", out)
        rc, out = sh("make -k -j16", cwd=COQ, timeout=3000)      # -k: one broken proof file must not keep the others (and the model) from being built
        coq_log = out
        if rc != 0:
            # keep going with whatever compiled: the model may still be runnable
            pass
        # extraction + OCaml driver, only when the model changed
        stamp = os.path.join(COQ, "extract", ".stamp")
        hv = _hash_files(_model_sources())
        old = open(stamp).read() if os.path.exists(stamp) else ""
        if old != hv or not os.path.exists(MODELRUN):
            ex = os.path.join(COQ, "extract")
            rc2, out2 = sh("coqc -Q ../theories SQ Extract.v", cwd=ex, timeout=900)
            if rc2 != 0:
                raise BuildError("extraction", out2 + "\n" + coq_log[-3000:])
            if not os.path.exists(os.path.join(ex, "bytetab.ml")):
                raise BuildError("extraction", "bytetab.ml missing")
            rc2, out2 = sh("ocamlfind ocamlopt -O2 -package unix -linkpkg model.mli model.ml bytetab.ml modelrun.ml -o modelrun",
                           cwd=ex, timeout=900)
            if rc2 != 0:
                raise BuildError("ocaml", out2)
            open(stamp, "w").write(hv)
        # Go harness against /repo's working tree
        hdir = os.path.join(VERIF, "harness")
        shutil.copyfile(os.path.join(REPO, "go.sum"), os.path.join(hdir, "go.sum"))
        rc3, out3 = sh("go build -tags verif -o bin/ ./cmd/...", cwd=hdir, env=GOENV, timeout=900)
        if rc3 != 0:
            raise BuildError("go-harness", out3)
        return {"coq_rc": rc, "coq_log": coq_log, "build_s": round(time.time() - t0, 1)}


def proof_obligations(prop):
    """Compile Properties/<prop>.v (dependencies are built already) and read the
    Print Assumptions output: (theorem names, closed ones, axioms found, log)."""
    f = os.path.join(COQ, "theories", "Properties", prop + ".v")
    src = open(f).read()
    names = re.findall(r"^Print Assumptions (\w+)\.", src, re.M)
    rc, out = sh("coqc -Q theories SQ -w -notation-overridden theories/Properties/%s.v" % prop, cwd=COQ, timeout=1800)
    if rc != 0:
        return names, [], [], out, False
    chunks = re.split(r"(?m)^(?=Closed under the global context|Axioms:)", out)
    verdicts = [c for c in chunks if c.startswith("Closed under") or c.startswith("Axioms:")]
    closed, axioms = [], []
    for n, v in zip(names, verdicts):
        if v.startswith("Closed under"):
            closed.append(n)
        else:
            axioms.append((n, v.strip()))
    return names, closed, axioms, out, True


def run_pair(cases_text, tag, timeout=600, mem_kb=8000000, sides=("impl", "model")):
    """Run the same command file through implrun and modelrun; return the two
    outputs split per '# <id>' marker."""
    os.makedirs(WORK, exist_ok=True)
    cf = os.path.join(WORK, tag + ".cases")
    open(cf, "w").write(cases_text)
    res = {}

    def one(name, exe):
        if name not in sides:
            return name, (0, "", "")
        # the output goes to a file of bounded size: an operation that never stops delivering rows (a cycle the depth
        # limit misses) must end as "died in case X" (SIGXFSZ / timeout), not as an out-of-memory kill of the check itself
        outf = os.path.join(WORK, "%s.%s.out" % (tag, name))
        # (62 GB of memory here; the thorough tier's batches are several times larger than the quick tier's)
        cap_kb = int(os.environ.get("VERIF_OUT_CAP_KB", "600000" if os.environ.get("VERIF_TIER", "") != "thorough" and "thorough" not in sys.argv else "2500000"))
        cmd = "ulimit -v %d; ulimit -s unlimited 2>/dev/null; exec %s < %s > %s" % (mem_kb, exe, cf, outf)
        def slurp():
            try:
                with open(outf, "rb") as f:
                    data = f.read(cap_kb * 1024)
            except OSError:
                data = b""
            try:
                os.remove(outf)
            except OSError:
                pass
            return data.decode("utf-8", "replace")
        p = subprocess.Popen(["bash", "-c", cmd], stdout=subprocess.DEVNULL, stderr=subprocess.PIPE)
        import threading
        errbuf = []
        th = threading.Thread(target=lambda: errbuf.append(p.stderr.read()), daemon=True)
        th.start()
        deadline, why = time.time() + timeout, None
        while p.poll() is None:
            time.sleep(0.05 if time.time() - deadline + timeout < 2 else 0.5)
            if time.time() > deadline:
                why = "TIMEOUT"
            else:
                try:
                    if os.path.getsize(outf) > cap_kb * 1024:
                        why = "OUTPUT LIMIT (%d kB) exceeded: the operation does not stop delivering" % cap_kb
                except OSError:
                    pass
            if why:
                p.kill()
                p.wait()
                break
        th.join(timeout=5)
        err = (errbuf[0] if errbuf else b"").decode("utf-8", "replace")[-2000:]
        if why:
            return name, (-9, slurp(), (err + "\n" + why).strip())
        return name, (p.returncode, slurp(), err)

    # the two sides are independent processes reading the same command file: run them side by side
    from concurrent.futures import ThreadPoolExecutor
    with ThreadPoolExecutor(max_workers=2) as ex:
        for name, r in ex.map(lambda a: one(*a), (("impl", IMPLRUN), ("model", MODELRUN))):
            res[name] = r
    return res


def split_cases(out):
    cases, cur, key = {}, None, None
    for line in out.split("\n"):
        if line.startswith("# "):
            key = line[2:]
            cases[key] = []
        elif key is not None and line != "":
            cases[key].append(line)
    return cases


def load_known(prop):
    p = os.path.join(VERIF, "known_findings.json")
    if not os.path.exists(p):
        return []
    return [k for k in json.load(open(p)).get("findings", []) if k["property"] == prop]


def write_replay(prop, obj):
    os.makedirs(os.path.join(VERIF, "replays"), exist_ok=True)
    h = hashlib.sha256(json.dumps(obj, sort_keys=True, default=str).encode()).hexdigest()[:12]
    path = os.path.join(VERIF, "replays", "%s-%s.json" % (prop, h))
    json.dump(obj, open(path, "w"), indent=1, default=str)
    return path


class Run:
    """One check run: collects coverage, violations, known findings; writes the
    evidence file and produces the exit code."""

    def __init__(self, prop, tier, seed):
        self.prop, self.tier, self.seed = prop, tier, seed
        self.t0 = time.time()
        self.cov = {"evaluations": 0, "distinct_nontrivial": 0, "samples": [], "rule": "",
                    "obligations": 0, "discharged": 0, "checker_cmd": "", "trusted_base": list(TRUSTED_BASE),
                    "traces_validated_against_impl": 0}
        self.assumptions = []
        self.violations = []        # (description, replay object)
        self.known_hits = []
        self.notes = []
        self.distinct = set()

    def count(self, n=1):
        self.cov["evaluations"] += n

    def nontrivial(self, key):
        self.distinct.add(key if isinstance(key, (str, bytes, int)) else json.dumps(key, sort_keys=True, default=str))

    def sample(self, obj, cap=6):
        if len(self.cov["samples"]) < cap:
            self.cov["samples"].append(obj)

    def obligations(self, prop=None):
        names, closed, axioms, log, ok = proof_obligations(prop or self.prop)
        self.cov["obligations"] += len(names)
        self.cov["discharged"] += len(closed)
        self.cov.setdefault("theorems", []).extend(names)
        self.cov["checker_cmd"] = "make -j16 (coq_makefile, full .vo build) in /verif/coq; coqc theories/Properties/%s.v with Print Assumptions under every theorem" % (prop or self.prop)
        if axioms:
            self.cov["axioms_found"] = axioms
        return names, closed, axioms, log, ok

    def violation(self, what, replay):
        self.violations.append((what, replay))

    def finish(self):
        self.cov["distinct_nontrivial"] = len(self.distinct)
        ev = {"property_id": self.prop, "tier": self.tier, "seed": self.seed, "level": "proof",
              "coverage": self.cov, "assumptions": self.assumptions,
              "wall_s": round(time.time() - self.t0, 2), "violations": len(self.violations)}
        if self.notes:
            ev["coverage"]["notes"] = self.notes
        if self.known_hits:
            ev["coverage"]["known_findings_replayed"] = self.known_hits
        os.makedirs(os.path.join(VERIF, "evidence"), exist_ok=True)
        json.dump(ev, open(os.path.join(VERIF, "evidence", self.prop + ".json"), "w"), indent=1, default=str)
        for k in self.known_hits:
            print("KNOWN-FINDING: property=%s %s" % (self.prop, k))
        if self.violations:
            self.violations.sort(key=lambda v: 1 if v[1].get("no_failing_input_found") else 0)
            for what, rep in self.violations[:5]:
                path = write_replay(self.prop, rep)
                tail = " no-failing-input-found" if rep.get("no_failing_input_found") else ""
                print("VIOLATION property=%s replay=%s%s" % (self.prop, path, tail))
                print("  " + what[:400])
            return 1
        print("OK property=%s tier=%s evaluations=%d distinct_nontrivial=%d obligations=%d/%d wall=%.1fs" % (
            self.prop, self.tier, self.cov["evaluations"], self.cov["distinct_nontrivial"],
            self.cov["discharged"], self.cov["obligations"], time.time() - self.t0))
        return 0


class Session:
    """an interactive implrun / modelrun process: send one command, get its output lines"""

    def __init__(self, exe, mem_kb=8000000):
        cmd = "ulimit -v %d; ulimit -s unlimited 2>/dev/null; exec %s" % (mem_kb, exe)
        self.p = subprocess.Popen(["bash", "-c", cmd], stdin=subprocess.PIPE, stdout=subprocess.PIPE, stderr=subprocess.PIPE)
        self.n = 0
        self.log = []

    def cmd(self, line, timeout=120):
        import select
        self.n += 1
        mark = "# m%d" % self.n
        self.log.append(line)
        try:
            self.p.stdin.write((line + "\n" + mark + "\n").encode())
            self.p.stdin.flush()
        except BrokenPipeError:
            return ["DEAD"]
        out, buf, deadline = [], getattr(self, "_buf", b""), time.time() + timeout
        self._buf = b""
        fd = self.p.stdout.fileno()
        while True:
            if time.time() > deadline:
                return out + ["TIMEOUT"]
            r, _, _ = select.select([fd], [], [], 1.0)
            if not r:
                if self.p.poll() is not None:
                    return out + ["DEAD"]
                continue
            chunk = os.read(fd, 1 << 16)
            if not chunk:
                return out + ["DEAD"]
            buf += chunk
            while b"\n" in buf:
                l, buf = buf.split(b"\n", 1)
                l = l.decode("utf-8", "replace")
                if l == mark:
                    self._buf = buf
                    return out
                out.append(l)

    def close(self):
        try:
            self.p.stdin.close()
            self.p.wait(timeout=10)
        except Exception:
            self.p.kill()


def session_send(sess, line):
    """send a raw line to a Session without waiting"""
    sess.p.stdin.write((line + "\n").encode())
    sess.p.stdin.flush()


def session_read_until(sess, pred, timeout=60):
    """read output lines of a Session until pred(line); returns the lines (incl. the matching one) or ends with TIMEOUT/DEAD"""
    import select
    out, deadline = [], time.time() + timeout
    fd = sess.p.stdout.fileno()
    buf = getattr(sess, "_buf", b"")
    while True:
        while b"\n" in buf:
            l, buf = buf.split(b"\n", 1)
            l = l.decode("utf-8", "replace")
            out.append(l)
            if pred(l):
                sess._buf = buf
                return out
        if time.time() > deadline:
            sess._buf = buf
            return out + ["TIMEOUT"]
        r, _, _ = select.select([fd], [], [], 1.0)
        if not r:
            if sess.p.poll() is not None:
                return out + ["DEAD"]
            continue
        chunk = os.read(fd, 1 << 16)
        if not chunk:
            return out + ["DEAD"]
        buf += chunk
