"""SQLite's comparison rules, written independently in Python (datatype3.html
section 4; collations BINARY / NOCASE / RTRIM)."""
from fractions import Fraction
import math, struct


def parse(v):
    """canonical text -> python value; text is kept as bytes tagged ('t', b)"""
    if v == "n":
        return None
    c, r = v[0], v[1:]
    if c == "i":
        return int(r)
    if c == "f":
        return struct.unpack(">d", bytes.fromhex(r))[0]
    if c == "t":
        return ("t", bytes.fromhex(r))
    return ("b", bytes.fromhex(r))


def parse_rec(s):
    return [] if s == "-" else [parse(x) for x in s.split(",")]


def cls(v):
    if v is None:
        return 0
    if isinstance(v, (int, float)):
        return 1
    return 2 if v[0] == "t" else 3


def num_cmp(a, b):
    if isinstance(a, int) and isinstance(b, int):
        return (a > b) - (a < b)
    def key(x):
        if isinstance(x, float):
            if math.isinf(x):
                return (1 if x > 0 else -1, 0)
            return (0, Fraction(x))
        return (0, Fraction(x))
    ka, kb = key(a), key(b)
    return (ka > kb) - (ka < kb)


def coll_key(b, coll):
    if coll == "nocase":
        # SQLite's nocaseCollatingFunc: sqlite3StrNICmp over the common length stops at a NUL, then the lengths decide
        p = b.split(b"\0", 1)[0]
        return (bytes(c + 32 if 65 <= c <= 90 else c for c in p), len(b))
    if coll == "rtrim":
        return b.rstrip(b" ")
    return b


def cmp_val(a, b, coll="binary"):
    ca, cb = cls(a), cls(b)
    if ca != cb:
        return (ca > cb) - (ca < cb)
    if ca == 0:
        return 0
    if ca == 1:
        return num_cmp(a, b)
    if ca == 2:
        x, y = coll_key(a[1], coll), coll_key(b[1], coll)
        return (x > y) - (x < y)
    return (a[1] > b[1]) - (a[1] < b[1])


def cmp_key_rec(key, rec):
    """compare a key [(value, coll, desc)] with an index entry on the key's
    columns, in index order: <0 the entry sorts before the key ... returns the
    sign of (entry - key); an entry shorter than the key sorts before it"""
    for i, (kv, coll, desc) in enumerate(key):
        if i >= len(rec):
            return -1
        c = cmp_val(rec[i], kv, coll or "binary")
        if c:
            return -c if desc else c
    return 0


def not_less(key, rec):
    return cmp_key_rec(key, rec) >= 0


def equal(key, rec):
    return cmp_key_rec(key, rec) == 0


def show_key(key):
    if not key:
        return "-"
    def sv(v):
        if v is None:
            return "n"
        if isinstance(v, int):
            return "i%d" % v
        if isinstance(v, float):
            return "f%016x" % struct.unpack(">Q", struct.pack(">d", v))[0]
        return v[0] + v[1].hex()
    return ",".join("%s/%s/%s" % (sv(v), {"nocase": "n", "rtrim": "r"}.get(c, "b"), "d" if d else "a") for v, c, d in key)
