"""Structure-aware corruption of valid SQLite files (plus blind flips and
truncation).  Every choice comes from the rng given."""
import struct
from vlib import sqlfmt

NEG9 = b"\xff" * 8 + b"\xfe"          # 9-byte varint: a negative int64
BIG9 = b"\xff" * 9
PTRS = lambda n, self_, parent: [0, 1, self_, parent, n, n + 1, 2 ** 31 - 1, 2 ** 31, 2 ** 32 - 1]


def btree_pages(data, u):
    """[(pageno, type, parent)] of pages reachable from sqlite_master's trees (page 1 walk + roots found in it)"""
    out, seen = [], set()
    def walk(n, parent, d):
        if n in seen or d > 40 or n < 1 or n * u > len(data):
            return
        seen.add(n)
        try:
            t, nc, rm, cells = sqlfmt.page_info(data, n, u)
        except Exception:
            return
        if t not in (2, 5, 10, 13):
            return
        out.append((n, t, parent))
        if t in (2, 5):
            pg = sqlfmt.read_page(data, n, u)
            for c in cells:
                if c + 4 <= u:
                    walk(struct.unpack(">I", pg[c:c + 4])[0], n, d + 1)
            walk(rm, n, d + 1)
    walk(1, 0, 0)
    return out, seen


def all_btree_pages(data, u):
    """every page that looks like a b-tree page"""
    res = []
    for n in range(1, len(data) // u + 1):
        off = 100 if n == 1 else 0
        if data[(n - 1) * u + off] in (2, 5, 10, 13):
            res.append(n)
    return res


# over-long (non-canonical) varints: small values written in more bytes than they need
NONCANON = [b"\x80\x01", b"\x80\x00", b"\x80\x02", b"\x80\x05", b"\x80\x80\x01", b"\x80\x80\x80\x03", b"\x80" * 8 + b"\x02"]


def mutate(rng, data, u):
    """one mutant: (bytes, description)"""
    b = bytearray(data)
    npages = len(b) // u
    kind = rng.choice(["ptr", "ptr", "cellptr", "count", "paylen", "rowid", "ovf", "hdrsize", "serial", "type", "header", "trunc", "flip", "flip", "rightmost", "master"])
    pages = all_btree_pages(data, u)
    if not pages:
        kind = "flip"
    def put(off, bs):
        b[off:off + len(bs)] = bs
    if kind in ("ptr", "rightmost", "cellptr", "count", "paylen", "rowid", "ovf", "hdrsize", "serial", "type"):
        n = rng.choice(pages)
        base = (n - 1) * u
        hoff = base + (100 if n == 1 else 0)
        t, nc, rm, cells = sqlfmt.page_info(data, n, u)
        if kind == "type":
            put(hoff, bytes([rng.choice([0, 1, 2, 5, 10, 13, 0x77, 255])]))
            return bytes(b), "page %d type byte" % n
        if kind == "count":
            put(hoff + 3, struct.pack(">H", rng.choice([0, 1, nc + 1, nc * 2 + 3, 255, 256, 65535, max(0, nc - 1)])))
            return bytes(b), "page %d cell count" % n
        if kind == "rightmost" and t in (2, 5):
            put(hoff + 8, struct.pack(">I", rng.choice(PTRS(npages, n, 1))))
            return bytes(b), "page %d right-most pointer" % n
        if not cells:
            put(hoff + 3, struct.pack(">H", 3))
            return bytes(b), "page %d cell count on empty page" % n
        ci = rng.randrange(len(cells))
        c = cells[ci]
        ptroff = hoff + (12 if t in (2, 5) else 8) + 2 * ci
        if kind == "cellptr":
            put(ptroff, struct.pack(">H", rng.choice([0, 1, 7, u - 1, u - 2, u - 4, u - 9, 65535, c + 1, max(0, c - 1), cells[0]])))
            return bytes(b), "page %d cell pointer %d" % (n, ci)
        if kind == "ptr" and t in (2, 5):
            if rng.random() < .3:       # many pointers at once: fan-in
                tgt = rng.choice(PTRS(npages, n, 1) + pages)
                for cc in cells:
                    if cc + 4 <= u:
                        put(base + cc, struct.pack(">I", tgt))
                return bytes(b), "page %d all child pointers -> %d" % (n, tgt)
            put(base + c, struct.pack(">I", rng.choice(PTRS(npages, n, 1) + pages)))
            return bytes(b), "page %d child pointer %d" % (n, ci)
        pos = base + c + (4 if t in (2, 5) else 0)
        if t == 5:
            put(pos, rng.choice([NEG9, BIG9, b"\x00", b"\x80" * 8 + b"\x01"]))
            return bytes(b), "page %d interior key %d" % (n, ci)
        # cells with payload: [left] paylen [rowid] payload
        pl = sqlfmt.get_varint(bytes(b[pos:pos + 9])) or (0, 1)
        if kind == "paylen" or kind == "ptr":
            put(pos, rng.choice([NEG9, BIG9, b"\x00", b"\x7f", b"\x81\x00", b"\xff\x7f", sqlfmt.put_varint(pl[0] + 1), sqlfmt.put_varint(max(0, pl[0] - 1)),
                                 sqlfmt.put_varint(u), sqlfmt.put_varint(u * 3), sqlfmt.put_varint(2 ** 31)] + NONCANON))
            return bytes(b), "page %d cell %d payload length" % (n, ci)
        pos2 = pos + pl[1]
        if t == 13:
            rl = sqlfmt.get_varint(bytes(b[pos2:pos2 + 9])) or (0, 1)
            if kind == "rowid":
                put(pos2, rng.choice([NEG9, BIG9, b"\x00", b"\x7f"] + NONCANON))
                return bytes(b), "page %d cell %d rowid" % (n, ci)
            pos2 += rl[1]
        local = sqlfmt.local_size(pl[0], u, t != 13) if pl[0] >= 0 else 0
        if kind == "ovf":
            if local < pl[0] and pos2 + local + 4 <= base + u:
                put(pos2 + local, struct.pack(">I", rng.choice(PTRS(npages, n, 1) + sqlfmt.overflow_pages(data, u)[:3])))
                return bytes(b), "page %d cell %d overflow pointer" % (n, ci)
            # no overflow here: corrupt an overflow page's next pointer instead
            ov = sqlfmt.overflow_pages(data, u)
            if ov:
                o = rng.choice(ov)
                put((o - 1) * u, struct.pack(">I", rng.choice(PTRS(npages, o, o) + ov[:3])))
                return bytes(b), "overflow page %d next pointer" % o
            kind = "hdrsize"
        if kind == "hdrsize":
            put(pos2, rng.choice([NEG9, BIG9, b"\x00", b"\x01", b"\x7f", b"\xff\x7f", b"\x81\x00"] + NONCANON))
            return bytes(b), "page %d cell %d record header size" % (n, ci)
        if kind in ("serial", "rowid"):
            hs = sqlfmt.get_varint(bytes(b[pos2:pos2 + 9])) or (1, 1)
            where = pos2 + hs[1] + rng.randrange(max(1, min(6, hs[0] - hs[1])))
            put(where, rng.choice([NEG9, BIG9, b"\x0a", b"\x0b", b"\x07", b"\x06", b"\x7f", b"\xff\x7f", b"\x00", b"\x0c", b"\x0d"] + NONCANON))
            return bytes(b), "page %d cell %d serial type" % (n, ci)
    if kind == "header":
        off = rng.choice([16, 17, 18, 19, 20, 21, 28, 29, 30, 31, 44, 47, 56, 59] + list(range(0, 100, 7)))
        b[off] = rng.randrange(256)
        return bytes(b), "header byte %d" % off
    if kind == "trunc":
        cut = rng.choice([rng.randrange(1, npages + 1) * u, rng.randrange(1, npages + 1) * u - rng.randrange(1, u), rng.randrange(0, 200), len(b) - 1])
        return bytes(b[:max(0, cut)]), "truncated to %d bytes" % cut
    if kind == "master":
        # blind damage inside page 1's cell area (sqlite_master records and their SQL text)
        for _ in range(rng.randint(1, 6)):
            off = rng.randrange(100, u)
            b[off] = rng.choice([0, 0x20, 0x28, 0x29, 0x2c, 0x22, 0x27, rng.randrange(256)])
        return bytes(b), "bytes in sqlite_master's page"
    for _ in range(rng.randint(1, 8)):
        b[rng.randrange(len(b))] = rng.randrange(256)
    return bytes(b), "random byte flips"


def dag(u=512, depth=5, fan=24):
    """a file whose single table is a chain of interior pages, every one of whose `fan` child pointers
    (and the right-most one) point to the next page: depth levels, one leaf: fan^depth leaf visits"""
    import sqlite3, os, tempfile
    fd, path = tempfile.mkstemp(suffix=".db")
    os.close(fd)
    os.remove(path)
    c = sqlite3.connect(path, isolation_level=None)
    c.execute("PRAGMA page_size=%d" % u)
    c.execute("CREATE TABLE t(a)")
    c.execute("INSERT INTO t VALUES('x')")
    c.close()
    data = bytearray(open(path, "rb").read())
    os.remove(path)
    root = 2
    leaf = bytes(data[(root - 1) * u:root * u])
    npages = len(data) // u
    first_new = npages + 1
    pages = []
    for lvl in range(depth):
        nxt = first_new + lvl if lvl < depth - 1 else first_new + depth - 1
        pg = bytearray(u)
        pg[0] = 5
        pg[3:5] = struct.pack(">H", fan)
        content = u
        ptrs = []
        for i in range(fan):
            cell = struct.pack(">I", nxt) + sqlfmt.put_varint(i + 1)
            content -= len(cell)
            pg[content:content + len(cell)] = cell
            ptrs.append(content)
        pg[5:7] = struct.pack(">H", content)
        pg[8:12] = struct.pack(">I", nxt)
        for i, p in enumerate(ptrs):
            pg[12 + 2 * i:14 + 2 * i] = struct.pack(">H", p)
        pages.append(bytes(pg))
    # root page (2) becomes the first interior page; new pages follow; the leaf goes last
    data[(root - 1) * u:root * u] = pages[0]
    for pg in pages[1:]:
        data += pg
    data += leaf
    # fix pointers: level l lives at: root for l=0, first_new + l - 1 for l>=1; leaf at first_new + depth - 1
    def addr(l):
        return root if l == 0 else first_new + l - 1
    leafno = first_new + depth - 1
    for l in range(depth):
        nxt = addr(l + 1) if l + 1 < depth else leafno
        base = (addr(l) - 1) * u
        pg = data[base:base + u]
        nc = struct.unpack(">H", pg[3:5])[0]
        for i in range(nc):
            c = struct.unpack(">H", pg[12 + 2 * i:14 + 2 * i])[0]
            data[base + c:base + c + 4] = struct.pack(">I", nxt)
        data[base + 8:base + 12] = struct.pack(">I", nxt)
    data[28:32] = struct.pack(">I", len(data) // u)
    return bytes(data)


def directed_pointers(data, u):
    """deterministic pointer corruptions: for every interior b-tree page, its right-most pointer and its
    first / last child pointer set to {self, root (page 1's trees: the page's tree root), 0, last+1, a sibling leaf},
    and all child pointers of the page set to itself / to its first child: [(bytes, description)]"""
    out = []
    npages = len(data) // u
    parent, reach = {}, []
    for n in all_btree_pages(data, u):
        t, nc, rm, cells = sqlfmt.page_info(data, n, u)
        reach.append((n, t, 0))
        if t in (2, 5) and n != 1:
            pg = sqlfmt.read_page(data, n, u)
            for c in cells:
                if c + 4 <= u:
                    parent[struct.unpack(">I", pg[c:c + 4])[0]] = n
            parent[rm] = n
    def root_of(n):
        seen = set()
        while parent.get(n, 0) != 0 and n not in seen:
            seen.add(n); n = parent[n]
        return n
    for n, t, par in reach:
        if t not in (2, 5) or n == 1:
            continue
        base = (n - 1) * u
        _, nc, rm, cells = sqlfmt.page_info(data, n, u)
        targets = [("self", n), ("tree root", root_of(n)), ("zero", 0), ("beyond", npages + 1), ("first child", struct.unpack(">I", data[base + cells[0]:base + cells[0] + 4])[0] if cells else rm)]
        for tn, tv in targets:
            b = bytearray(data); b[base + 8:base + 12] = struct.pack(">I", tv)
            out.append((bytes(b), "page %d right-most pointer -> %s" % (n, tn)))
            for which, c in (("first", cells[0] if cells else None), ("last", cells[-1] if cells else None)):
                if c is not None and c + 4 <= u:
                    b = bytearray(data); b[base + c:base + c + 4] = struct.pack(">I", tv)
                    out.append((bytes(b), "page %d %s child pointer -> %s" % (n, which, tn)))
        for tn, tv in targets[:2] + targets[4:]:
            b = bytearray(data)
            for c in cells:
                if c + 4 <= u:
                    b[base + c:base + c + 4] = struct.pack(">I", tv)
            b[base + 8:base + 12] = struct.pack(">I", tv)
            out.append((bytes(b), "page %d all pointers -> %s" % (n, tn)))
    return out


def directed_lengths(data, u):
    """deterministic corruptions of the payload-length varint of cells that spill into overflow pages: the declared
    length becomes far larger than what the chain holds (2^31 .. 2^63-1, and the unsigned 2^64-1), the cell is
    rewritten so that it still spills and still points at its first overflow page.  [(bytes, description)]"""
    out = []
    for n in all_btree_pages(data, u):
        t, nc, rm, cells = sqlfmt.page_info(data, n, u)
        if t not in (13, 10, 2):
            continue
        index = t != 13
        base = (n - 1) * u
        x = ((u - 12) * 64 // 255) - 23 if index else u - 35
        done = 0
        for c in cells:
            pos = c + (4 if t == 2 else 0)
            v = sqlfmt.get_varint(data[base + pos:base + pos + 9])
            if v is None:
                continue
            p, lp = v
            if p <= x:
                continue
            hdr_rest = b""
            if t == 13:
                r = sqlfmt.get_varint(data[base + pos + lp:base + pos + lp + 9])
                if r is None:
                    continue
                hdr_rest = data[base + pos + lp:base + pos + lp + r[1]]
            old_local = sqlfmt.local_size(p, u, index)
            ovf_at = pos + lp + len(hdr_rest) + old_local
            if ovf_at + 4 > u:
                continue
            first_ovf = data[base + ovf_at:base + ovf_at + 4]
            local_bytes = data[base + pos + lp + len(hdr_rest):base + ovf_at]
            for np_ in (2 ** 31 + 7, 2 ** 40 + 1, 2 ** 62, 2 ** 63 - 1, 2 ** 64 - 1):
                nl = sqlfmt.local_size(np_ if np_ < 2 ** 63 else np_, u, index)
                cell = sqlfmt.put_varint(np_) + hdr_rest
                body = (local_bytes * (nl // max(1, len(local_bytes)) + 1))[:nl]
                cell += body + first_ovf
                if pos + len(cell) > u:
                    continue
                b = bytearray(data)
                b[base + pos:base + pos + len(cell)] = cell
                out.append((bytes(b), "page %d (type %d) cell at %d: payload length %d -> %d, still spilling to page %d" % (n, t, c, p, np_, struct.unpack(">I", first_ovf)[0])))
            done += 1
            if done >= 2:
                break
    return out


def shared_chains(data, u):
    """two spilling cells of one b-tree made to share an overflow chain: the first overflow page of cell A is written into cell B,
    both declared lengths as SQLite wrote them (a chain that is too short, or too long, for one of its two users).  Every pair of
    spilling cells of a page, both directions; and pairs across the first two pages that have any.  [(bytes, description)]"""
    spills = []      # (page, type, offset of the 4-byte pointer in the file, declared length, first overflow page)
    for n in all_btree_pages(data, u):
        t, nc, rm, cells = sqlfmt.page_info(data, n, u)
        if t not in (13, 10, 2):
            continue
        index = t != 13
        base = (n - 1) * u
        x = ((u - 12) * 64 // 255) - 23 if index else u - 35
        for c in cells:
            pos = c + (4 if t == 2 else 0)
            v = sqlfmt.get_varint(data[base + pos:base + pos + 9])
            if v is None:
                continue
            p, lp = v
            if p <= x:
                continue
            skip = 0
            if t == 13:
                r = sqlfmt.get_varint(data[base + pos + lp:base + pos + lp + 9])
                if r is None:
                    continue
                skip = r[1]
            at = pos + lp + skip + sqlfmt.local_size(p, u, index)
            if at + 4 > u:
                continue
            spills.append((n, t, base + at, p, struct.unpack(">I", data[base + at:base + at + 4])[0]))
    out = []
    for i, a in enumerate(spills):
        for b in spills[i + 1:i + 4]:
            if a[3] == b[3] or a[4] == b[4]:
                continue
            for src, dst in ((a, b), (b, a)):
                d = bytearray(data)
                d[dst[2]:dst[2] + 4] = struct.pack(">I", src[4])
                out.append((bytes(d), "page %d (type %d): the cell with payload length %d now continues in overflow page %d, the chain of a cell of page %d with payload length %d" % (dst[0], dst[1], dst[3], src[4], src[0], src[3])))
    return out
