"""SQLite-written database corpora (python3 sqlite3 = real SQLite is the writer).
Every random choice derives from the seed given."""
import os, random, sqlite3
from vlib import core, sqlfmt

WORDS = ["aap", "Aap", "AAP", "noot", "Noot", "mies", "wim", "zus", "jet", "teun", "vuur", "gijs", "lam", "kees", "bok",
         "weide", "does", "hok", "duif", "schapen", "", "a", "A", "a ", "a  ", "a\t", "b", "é", "É", "z", "Zeta", "zeta",
         # the ASCII characters around and between the two letter ranges: where folding to upper and folding to lower case order differently
         "aa_b", "aaZb", "AAzb", "aa[b", "AA]b", "aa^b", "aa`b", "aa\\b", "aa@b", "aa{b", "aaab"]


# the extremes of every integer serial type width (1, 2, 3, 4, 6, 8 bytes) and their neighbours
WIDTH_EDGES = [s * (2 ** (8 * w - 1)) + d for w in (1, 2, 3, 4, 6) for s in (1, -1) for d in (-1, 0, 1)]


def rand_value(rng, kinds="nirtb"):
    k = rng.choice(kinds)
    if k == "n":
        return None
    if k == "i":
        return rng.choice([0, 1, -1, 2, 127, 128, -129, 32768, 2 ** 31, -2 ** 31 - 1, 2 ** 53, 2 ** 53 + 1, 2 ** 63 - 1, -2 ** 63,
                           rng.randint(-1000, 1000), rng.randint(-2 ** 40, 2 ** 40), rng.choice(WIDTH_EDGES), rng.choice(WIDTH_EDGES)])
    if k == "r":
        return rng.choice([0.5, -0.5, 1.5, 2.0 ** 53, 2.0 ** 63, -2.0 ** 63, 1e100, -1e100, 1e-10, float(rng.randint(-50, 50)) + 0.25,
                           rng.random() * 1000])
    if k == "t":
        w = rng.choice(WORDS)
        return w if rng.random() < .7 else w + rng.choice(WORDS) + ("x" * rng.choice([0, 0, 3, 40]))
    return bytes(rng.randrange(256) for _ in range(rng.choice([0, 1, 2, 5, 30])))


class DB:
    def __init__(self, path, page_size, desc):
        self.path, self.page_size, self.desc = path, page_size, desc
        self.tables = {}      # name -> dict(root, kind, cols)
        self.indexes = {}     # name -> dict(root, table, cols=[(expr, collate, desc)])

    def conn(self):
        return sqlite3.connect(self.path, isolation_level=None)

    def refresh(self):
        c = self.conn()
        for typ, name, tbl, root, sql in sqlfmt.master(c):
            for n in self.tables:
                if typ == "table" and n.lower() == name.lower():
                    self.tables[n]["root"] = root
            for n in self.indexes:
                if typ == "index" and n.lower() == name.lower():
                    self.indexes[n]["root"] = root
        c.close()
        self.data = open(self.path, "rb").read()


def _mk(path, page_size, **kw):
    return sqlfmt.new_db(path, page_size, **kw)


def deep(wd, rng, page_size=512, rows=1500, tag="deep", churn=True, auto_vacuum=None):
    """rowid table with secondary indexes, several levels deep on small pages"""
    path = os.path.join(wd, "%s-%d.db" % (tag, page_size))
    c = _mk(path, page_size, auto_vacuum=auto_vacuum)
    c.execute("CREATE TABLE t(a INTEGER, b TEXT, c, d)")
    c.execute("CREATE INDEX t_b ON t(b)")
    c.execute("CREATE INDEX t_ab ON t(a, b)")
    c.execute("CREATE INDEX t_c_desc ON t(c DESC)")
    c.execute("CREATE INDEX t_bn_a ON t(b COLLATE NOCASE, a DESC)")
    c.execute("CREATE INDEX t_br ON t(b COLLATE RTRIM)")
    c.execute("CREATE INDEX t_bn_b ON t(b COLLATE NOCASE, b)")
    c.execute("CREATE INDEX t_br_d ON t(b COLLATE RTRIM DESC, d)")
    c.execute("BEGIN")
    ids = list(range(1, rows + 1))
    rng.shuffle(ids)
    for n in ids:
        rid = n * 3 - rows
        c.execute("INSERT INTO t(rowid, a, b, c, d) VALUES(?,?,?,?,?)",
                  (rid, n % 37, rng.choice(WORDS) + ("%d" % (n % 11) if n % 3 else ""), rand_value(rng), "pad" * (n % 13)))
    for rid in (-2 ** 63, -2 ** 62, 2 ** 62, 2 ** 63 - 1, 0):
        c.execute("INSERT OR REPLACE INTO t(rowid, a, b, c, d) VALUES(?,?,?,?,?)", (rid, 5, "edge", rid, None))
    c.execute("COMMIT")
    if churn:
        c.execute("DELETE FROM t WHERE (a % 3) = 0 AND rowid > 100")
        c.execute("BEGIN")
        for n in range(40):
            c.execute("INSERT INTO t(a, b, c, d) VALUES(?,?,?,?)", (n, "re" + rng.choice(WORDS), rand_value(rng), None))
        c.execute("COMMIT")
    c.close()
    db = DB(path, page_size, tag)
    db.tables["t"] = dict(kind="rowid", cols=["a", "b", "c", "d"])
    db.indexes["t_b"] = dict(table="t", cols=[("b", "", False)])
    db.indexes["t_ab"] = dict(table="t", cols=[("a", "", False), ("b", "", False)])
    db.indexes["t_c_desc"] = dict(table="t", cols=[("c", "", True)])
    db.indexes["t_bn_a"] = dict(table="t", cols=[("b", "nocase", False), ("a", "", True)])
    db.indexes["t_br"] = dict(table="t", cols=[("b", "rtrim", False)])
    db.indexes["t_bn_b"] = dict(table="t", cols=[("b", "nocase", False), ("b", "", False)])
    db.indexes["t_br_d"] = dict(table="t", cols=[("b", "rtrim", True), ("d", "", False)])
    db.refresh()
    return db


def norowid(wd, rng, page_size=512, rows=600, tag="wr"):
    path = os.path.join(wd, "%s-%d.db" % (tag, page_size))
    c = _mk(path, page_size)
    c.execute("CREATE TABLE w(x TEXT, a TEXT, b INT, y, PRIMARY KEY(a, b DESC)) WITHOUT ROWID")
    c.execute("CREATE INDEX w_y ON w(y)")
    c.execute("CREATE INDEX w_xa ON w(x, a COLLATE NOCASE)")
    c.execute("CREATE INDEX w_yb ON w(y, a COLLATE BINARY)")
    c.execute("BEGIN")
    seen = set()
    for n in range(rows):
        a, b = rng.choice(WORDS) + str(n % 7), rng.randint(-50, 50)
        if (a, b) in seen:
            continue
        seen.add((a, b))
        c.execute("INSERT INTO w VALUES(?,?,?,?)", ("x%d" % (n % 23), a, b, rand_value(rng, "nirt")))
    # a primary key of large BLOB / TEXT values: the rows of the table AND the entries of its secondary index continue in
    # overflow pages, and the nested primary key lookup of an indexed select compares key values taken from one
    # overflowing entry against other overflowing entries
    c.execute("CREATE TABLE wb(k BLOB, t TEXT, n INT, PRIMARY KEY(k, t)) WITHOUT ROWID")
    c.execute("CREATE INDEX wb_n ON wb(n)")
    for n in range(36):
        k = bytes([7] * (page_size // 4)) + bytes([(n * 37 + j) % 256 for j in range(20 + (n % 5) * page_size // 8)])
        c.execute("INSERT INTO wb VALUES(?,?,?)", (k, "t" * (n % 3) * (page_size // 3) + str(n), n % 9))
    # the primary key declared LAST: the stored order (key columns first) is a rotation of the declared order, and the long column
    # that is declared first is stored last, beyond the part of the row kept in the page
    c.execute("CREATE TABLE wd(body TEXT, title TEXT, extra, id INT, PRIMARY KEY(id, title)) WITHOUT ROWID")
    for n in range(24):
        c.execute("INSERT INTO wd VALUES(?,?,?,?)", ("body%d " % n + "b" * ((n % 4) * page_size // 2), "title%d" % (n % 5), n * 1.5 if n % 3 else None, n))
    # a text primary key under NOCASE and a second key column under RTRIM: the primary key values an indexed select copies from
    # each index entry into its lookup key are compared under those collations, entry after entry, through one key object
    c.execute("CREATE TABLE wn(k TEXT COLLATE NOCASE, r TEXT COLLATE RTRIM, n INT, t, PRIMARY KEY(k, r)) WITHOUT ROWID")
    c.execute("CREATE INDEX wn_n ON wn(n)")
    seen_n = set()
    for n in range(120):
        k = rng.choice(WORDS) + rng.choice(["", "x", "Y", "_1", "zz"]); r = rng.choice(["p", "p ", "q", "Q  ", ""]) 
        if (k.lower(), r.rstrip(" ")) in seen_n:
            continue
        seen_n.add((k.lower(), r.rstrip(" ")))
        c.execute("INSERT INTO wn VALUES(?,?,?,?)", (k, r, n % 11, "t%d" % n))
    c.execute("COMMIT")
    c.close()
    db = DB(path, page_size, tag)
    db.tables["wd"] = dict(kind="norowid", cols=["body", "title", "extra", "id"], pk=[("id", "", False), ("title", "", False)])
    db.tables["wn"] = dict(kind="norowid", cols=["k", "r", "n", "t"], pk=[("k", "nocase", False), ("r", "rtrim", False)])
    db.indexes["wn_n"] = dict(table="wn", cols=[("n", "", False)])
    db.tables["wb"] = dict(kind="norowid", cols=["k", "t", "n"], pk=[("k", "", False), ("t", "", False)])
    db.indexes["wb_n"] = dict(table="wb", cols=[("n", "", False)])
    db.tables["w"] = dict(kind="norowid", cols=["x", "a", "b", "y"], pk=[("a", "", False), ("b", "", True)])
    db.indexes["w_y"] = dict(table="w", cols=[("y", "", False)])
    db.indexes["w_xa"] = dict(table="w", cols=[("x", "", False), ("a", "nocase", False)])
    db.indexes["w_yb"] = dict(table="w", cols=[("y", "", False), ("a", "binary", False)])
    db.refresh()
    return db


def ipk(wd, rng, page_size=1024, rows=800, tag="ipk"):
    path = os.path.join(wd, "%s-%d.db" % (tag, page_size))
    c = _mk(path, page_size)
    c.execute("CREATE TABLE p(id INTEGER PRIMARY KEY, v, w TEXT UNIQUE)")
    c.execute("BEGIN")
    for n in range(rows):
        c.execute("INSERT INTO p VALUES(?,?,?)", (n * 7 - 2000, rand_value(rng), "w%05d" % rng.randint(0, 10 ** 9)) if n % 50 else (n * 7 - 2000, None, None))
    for rid in (-2 ** 63, 2 ** 63 - 1):
        c.execute("INSERT INTO p VALUES(?,?,?)", (rid, "edge", "edge%d" % rid))
    c.execute("COMMIT")
    c.execute("ALTER TABLE p ADD COLUMN extra DEFAULT 'dflt'")
    c.execute("INSERT INTO p VALUES(5, 'five', 'wfive', 'given')")
    c.close()
    db = DB(path, page_size, tag)
    db.tables["p"] = dict(kind="ipk", cols=["id", "v", "w", "extra"])
    db.indexes["sqlite_autoindex_p_1"] = dict(table="p", cols=[("w", "", False)])
    db.refresh()
    return db


def overflow(wd, rng, page_size=512, tag="ovf"):
    path = os.path.join(wd, "%s-%d.db" % (tag, page_size))
    c = _mk(path, page_size)
    c.execute("CREATE TABLE o(k TEXT, v, a)")
    c.execute("CREATE INDEX o_k ON o(k)")
    # entries whose first column is stored in the page and whose second, deciding, column continues in overflow pages
    c.execute("CREATE INDEX o_ak ON o(a, k)")
    c.execute("BEGIN")
    u = page_size
    for i, l in enumerate([0, 10, u - 40, u - 35, u - 30, u, 2 * u, 3 * u + 17, 10 * u, 40 * u + 3]):
        c.execute("INSERT INTO o VALUES(?,?,?)", ("key%03d" % i + "k" * (l // 2), bytes([(i + j) % 251 for j in range(l)]), i % 3))
    # long texts that share a long prefix and differ only near the end (beyond what an index cell keeps in the page)
    for i in range(12):
        c.execute("INSERT INTO o VALUES(?,?,?)", ("same" + "s" * (u // 2) + "%02d" % i, i, i % 2))
    for i in range(60):
        c.execute("INSERT INTO o VALUES(?,?,?)", ("dup" + "z" * 150, i, i % 2))
    # the same long texts under the other orders an index can have: descending, RTRIM, NOCASE (a comparison that is decided by
    # what lies beyond the part of the entry kept in the page, where "longer" does not mean "later"), with a second column behind
    c.execute("CREATE INDEX o_kd ON o(k DESC, a)")
    c.execute("CREATE INDEX o_kr ON o(k COLLATE RTRIM, a DESC)")
    c.execute("CREATE INDEX o_kn ON o(k COLLATE NOCASE DESC, v)")
    for i in range(12):
        # the text proper ends before, around and after the part of the entry that stays in the page
        base = "pad" + "p" * [2, u // 16, u // 4][i % 3] + str(i % 2)
        # the text, the text followed by spaces beyond the in-page part, the text followed by spaces and a letter, in other case
        c.execute("INSERT INTO o VALUES(?,?,?)", (base, 1000 + i, i))
        # (equal to the one above under RTRIM: the second column decides, both ways)
        c.execute("INSERT INTO o VALUES(?,?,?)", (base + " " * (u + i), 2000 + i, i + 5))
        c.execute("INSERT INTO o VALUES(?,?,?)", (base + " " * (u + i + 20), 2500 + i, i - 5))
        c.execute("INSERT INTO o VALUES(?,?,?)", (base + " " * u + "x", 3000 + i, i % 3))
        c.execute("INSERT INTO o VALUES(?,?,?)", (base.upper() + " " * (u // 2), 4000 + i, i % 2))
    c.execute("COMMIT")
    c.close()
    db = DB(path, page_size, tag)
    db.tables["o"] = dict(kind="rowid", cols=["k", "v", "a"])
    db.indexes["o_k"] = dict(table="o", cols=[("k", "", False)])
    db.indexes["o_ak"] = dict(table="o", cols=[("a", "", False), ("k", "", False)])
    db.indexes["o_kd"] = dict(table="o", cols=[("k", "", True), ("a", "", False)])
    db.indexes["o_kr"] = dict(table="o", cols=[("k", "rtrim", False), ("a", "", True)])
    db.indexes["o_kn"] = dict(table="o", cols=[("k", "nocase", True), ("v", "", False)])
    db.refresh()
    return db


def alias_db(wd, rng, page_size=512, tag="alias"):
    """leaves on which the cell of a row that spills into ONE overflow page lies physically in front of a large in-page
    cell: the bytes behind the spilled cell's local part are as many as the overflow page's share of the payload (the
    layout on which assembling a payload in place would write over the neighbouring cell).  Two rows per table, the
    large one inserted first; sizes swept around the point where both still share a leaf."""
    path = os.path.join(wd, "%s-%d.db" % (tag, page_size))
    c = _mk(path, page_size)
    db = DB(path, page_size, tag)
    u = page_size
    x = u - 35
    m = ((u - 12) * 32 // 255) - 23
    n = 0
    c.execute("BEGIN")
    for big in range(x - m - 24, x - m + 8, 4):
        for spill in (x + 1, x + 2, x + 9):
            name = "al%d" % n
            n += 1
            c.execute("CREATE TABLE %s(v)" % name)
            c.execute("INSERT INTO %s(rowid, v) VALUES(1, ?)" % name, (bytes([(7 * j + n) % 251 for j in range(big)]),))
            c.execute("INSERT INTO %s(rowid, v) VALUES(2, ?)" % name, (bytes([(3 * j + n) % 253 for j in range(spill - 4)]),))
            db.tables[name] = dict(kind="rowid", cols=["v"])
    # the same on index leaves (a WITHOUT ROWID table and an ordinary index): thresholds of index cells
    xi = ((u - 12) * 64 // 255) - 23
    for big in range(max(8, u - 60 - 2 * m - xi), u - 60 - m, max(4, (xi) // 6))[:6]:
        name = "aw%d" % n
        n += 1
        c.execute("CREATE TABLE %s(k PRIMARY KEY, v) WITHOUT ROWID" % name)
        c.execute("INSERT INTO %s VALUES(?, ?)" % name, ("b" + "k" * 6, bytes([(5 * j + n) % 251 for j in range(big)])))
        c.execute("INSERT INTO %s VALUES(?, ?)" % name, ("a" + "k" * 6, bytes([(11 * j + n) % 241 for j in range(xi + 2)])))
        db.tables[name] = dict(kind="norowid", cols=["k", "v"], pk=[("k", "", False)])
    c.execute("COMMIT")
    c.close()
    db.refresh()
    return db


def mixed(wd, rng, page_size=512, rows=700, tag="mix"):
    """mixed storage classes, NULLs and long duplicate runs in indexed columns"""
    path = os.path.join(wd, "%s-%d.db" % (tag, page_size))
    c = _mk(path, page_size)
    c.execute("CREATE TABLE m(u, v, w)")
    c.execute("CREATE INDEX m_u ON m(u)")
    c.execute("CREATE INDEX m_uv ON m(u DESC, v)")
    c.execute("CREATE INDEX m_un ON m(u COLLATE NOCASE)")
    c.execute("BEGIN")
    for n in range(rows):
        u = rand_value(rng) if n % 4 else rng.choice([None, 7, 7.0, "dup", "DUP", b"dup", 2 ** 53, float(2 ** 53)])
        c.execute("INSERT INTO m VALUES(?,?,?)", (u, rand_value(rng, "nit"), n))
    c.execute("COMMIT")
    c.close()
    db = DB(path, page_size, tag)
    db.tables["m"] = dict(kind="rowid", cols=["u", "v", "w"])
    db.indexes["m_u"] = dict(table="m", cols=[("u", "", False)])
    db.indexes["m_uv"] = dict(table="m", cols=[("u", "", True), ("v", "", False)])
    db.indexes["m_un"] = dict(table="m", cols=[("u", "nocase", False)])
    db.refresh()
    return db


def tiny(wd, rng, page_size=1024, tag="tiny"):
    """single-leaf tables whose rowids are more than 2^63 apart"""
    path = os.path.join(wd, "%s-%d.db" % (tag, page_size))
    c = _mk(path, page_size)
    sets = {"e1": [-2 ** 63, 1, 2, 3, 4, 5], "e2": [-10, -1, 0, 1, 5, 2 ** 63 - 1], "e3": [-2 ** 63, 2 ** 63 - 1],
            "e4": [-2 ** 63, -2 ** 62, 0, 2 ** 62, 2 ** 63 - 1], "e5": [-2 ** 63 + 1, -5, 2 ** 63 - 2, 7], "e6": []}
    db = DB(path, page_size, tag)
    for n, ids in sets.items():
        c.execute("CREATE TABLE %s(v)" % n)
        for i in ids:
            c.execute("INSERT INTO %s(rowid, v) VALUES(?, ?)" % n, (i, "v%d" % i))
        db.tables[n] = dict(kind="rowid", cols=["v"])
    c.close()
    db.refresh()
    return db


DFLT_TYPES = ["", "TEXT", "VARCHAR(10)", "CLOB", "INTEGER", "INT", "BIGINT", "REAL", "DOUBLE", "FLOAT", "NUMERIC", "DECIMAL(10,2)", "BLOB",
              "DATETIME", "BOOLEAN", "CHARINT", "STRING", "XBLOBY", "REALTEXT"]
DFLT_VALUES = ["5", "-3", "0", "9223372036854775807", "'7'", "'7.0'", "'7.5'", "'abc'", "' 12 '", "'1e3'", "'-0'", "'0x10'", "'9223372036854775808'",
               "''", "'1.'", "'.5'", "'1e'", "'+4'", "NULL", "'12abc'", "'1e400'", "true", "false", "'true'", "abc", "TRUE",
               "010", "-007", "00", "+5", "0x10", "-0"]


def defaults_db(wd, rng, page_size=1024, tag="dflt"):
    """columns added by ALTER TABLE with a DEFAULT: rows written before the column existed take the
    default with the column's affinity applied (every declared-type class x every literal form)"""
    path = os.path.join(wd, "%s-%d.db" % (tag, page_size))
    c = _mk(path, page_size)
    db = DB(path, page_size, tag)
    pairs = [(t, v) for t in DFLT_TYPES for v in DFLT_VALUES]
    rng.shuffle(pairs)
    ntab = 6
    for ti in range(ntab):
        name = "d%d" % ti
        wr = ti % 3 == 2
        c.execute("CREATE TABLE %s(id INTEGER PRIMARY KEY, x)%s" % (name, " WITHOUT ROWID" if wr else ""))
        for i in range(8):
            c.execute("INSERT INTO %s VALUES(?,?)" % name, (i * 3 + 1, "old%d" % i))
        cols = ["id", "x"]
        for n, (t, v) in enumerate(pairs[ti::ntab]):
            col = "c%d" % n
            c.execute("ALTER TABLE %s ADD COLUMN %s %s DEFAULT %s" % (name, col, t, v))
            cols.append(col)
            if n % 7 == 3:
                # a row written in between: later columns are missing from it, earlier ones are stored
                c.execute("INSERT INTO %s(id, x) VALUES(?,?)" % name, (1000 + n, "mid%d" % n))
        c.execute("INSERT INTO %s(id, x) VALUES(5000, 'new')" % name)
        db.tables[name] = dict(kind="norowid" if wr else "ipk", cols=cols, pk=[("id", "", False)])
    c.close()
    db.refresh()
    return db


def corpus(run, name, which=("deep", "wr", "ipk", "ovf", "mix", "tiny", "misc", "thr", "dflt"), deep_rows=None):
    rng = random.Random(run.seed * 7919 + 13)
    wd = os.path.join(core.WORK, name)
    os.makedirs(wd, exist_ok=True)
    dbs = []
    quick = run.tier == "quick"
    if "deep" in which:
        dbs.append(deep(wd, rng, 512, deep_rows or (4000 if quick else 20000)))
        if not quick:
            dbs.append(deep(wd, rng, 1024, 3000, tag="deep1k"))
            dbs.append(deep(wd, rng, 512, 1500, tag="deepav", auto_vacuum="FULL"))
            dbs.append(deep(wd, rng, 65536, 1500, tag="deep64k", churn=False))
    if "wr" in which:
        dbs.append(norowid(wd, rng, 512, 400 if quick else 3000))
    if "ipk" in which:
        dbs.append(ipk(wd, rng, 1024 if quick else 512, 500 if quick else 3000))
    if "ovf" in which:
        dbs.append(overflow(wd, rng, 512))
        if not quick:
            dbs.append(overflow(wd, rng, 4096, tag="ovf4k"))
    if "alias" in which:
        dbs.append(alias_db(wd, rng, 512))
        dbs.append(alias_db(wd, rng, 4096, tag="alias4k"))
        if not quick:
            dbs.append(alias_db(wd, rng, 1024, tag="alias1k"))
    if "mix" in which:
        dbs.append(mixed(wd, rng, 512, 500 if quick else 3000))
    if "tiny" in which:
        dbs.append(tiny(wd, rng))
    if "thr" in which:
        dbs.append(thresholds_db(wd, rng, 512))
        if not quick:
            for u in (1024, 4096, 65536):
                dbs.append(thresholds_db(wd, rng, u, tag="thr"))
    if "dflt" in which:
        dbs.append(defaults_db(wd, rng))
    if "misc" in which:
        dbs.append(misc(wd, rng, 512, 300 if quick else 2500))
        if not quick:
            dbs.append(misc(wd, rng, 4096, 1500, tag="misc4k"))
    return dbs


def describe(dbs):
    out = []
    for db in dbs:
        d = {"db": os.path.basename(db.path), "page_size": db.page_size, "pages": len(db.data) // db.page_size, "trees": {}}
        for n, t in list(db.tables.items()) + list(db.indexes.items()):
            sh = sqlfmt.tree_shape(db.data, t["root"], db.page_size)
            d["trees"][n] = {"depth": sh["depth"], "pages": len(sh["pages"]), "interior": len(sh["interior"])}
        out.append(d)
    return out


def misc(wd, rng, page_size=512, rows=300, tag="misc"):
    """schema features: partial / expression / unique indexes, ALTER ADD COLUMN defaults, quoted and
    mixed-case names, WITHOUT ROWID with the PK not first and spelled in another case, text PKs"""
    path = os.path.join(wd, "%s-%d.db" % (tag, page_size))
    c = _mk(path, page_size)
    c.execute('CREATE TABLE Mc(Id INTEGER PRIMARY KEY, Name TEXT COLLATE NOCASE, val REAL, n INT DEFAULT 7, "we ird" TEXT DEFAULT \'dd\')')
    c.execute("CREATE INDEX mc_part ON Mc(val) WHERE n > 3")
    c.execute("CREATE INDEX mc_expr ON Mc(n + 1, Name)")
    c.execute("CREATE UNIQUE INDEX mc_u ON Mc(Name, Id)")
    c.execute("CREATE TABLE Wc(Name TEXT, Val INTEGER, x, PRIMARY KEY (val, name)) WITHOUT ROWID")
    c.execute("CREATE INDEX wc_x ON Wc(x DESC)")
    c.execute("CREATE TABLE tp(k TEXT PRIMARY KEY, v)")
    c.execute("CREATE TABLE tn(k TEXT COLLATE NOCASE PRIMARY KEY, v) WITHOUT ROWID")
    # ordinary columns that carry the names of the rowid pseudo columns: the column wins
    c.execute('CREATE TABLE shadow(oid TEXT, "rowid" INTEGER, _rowid_, v)')
    c.execute("CREATE TABLE shadow2(a INTEGER PRIMARY KEY, OID, v)")
    for n in range(15):
        c.execute("INSERT INTO shadow VALUES(?,?,?,?)", ("o%d" % n, n * 100, None if n % 3 else n, n))
        c.execute("INSERT INTO shadow2 VALUES(?,?,?)", (n * 7 + 1, "x%d" % n, n))
    # identifiers that differ only in the case of a non-ASCII letter are different identifiers
    c.execute("CREATE TABLE uc(É, é, ÜBER, über, b)")
    c.execute("CREATE TABLE ucw(É, é, v, PRIMARY KEY(é, É)) WITHOUT ROWID")
    for n in range(20):
        c.execute("INSERT INTO uc VALUES(?,?,?,?,?)", ("upper%d" % n, "lower%d" % n, n, -n, n % 3))
        c.execute("INSERT INTO ucw VALUES(?,?,?)", ("U%d" % (n % 5), "l%d" % n, n))
    # a primary key naming a column twice with different collations: both occurrences are stored
    c.execute("CREATE TABLE dk(a TEXT, b, c, d, PRIMARY KEY(a COLLATE nocase, b, a COLLATE binary)) WITHOUT ROWID")
    c.execute("CREATE INDEX dk_c ON dk(c)")
    for n in range(30):
        c.execute("INSERT OR IGNORE INTO dk VALUES(?,?,?,?)", (rng.choice(["k", "K", "kk", "Kk"]) + str(n % 4), n % 6, "c%d" % (n % 5), n))
    c.execute("BEGIN")
    for n in range(rows):
        c.execute("INSERT INTO Mc VALUES(?,?,?,?,?)", (n * 5 - 300, rng.choice(WORDS) + str(n % 9), rng.choice([float(n % 17), n / 4.0, None, 2.0 ** 53]),
                                                      n % 8, rng.choice(WORDS)))
        c.execute("INSERT OR IGNORE INTO Wc VALUES(?,?,?)", (rng.choice(WORDS) + str(n % 5), rng.randint(-20, 20), rand_value(rng)))
        c.execute("INSERT OR IGNORE INTO tp VALUES(?,?)", (rng.choice(WORDS) + str(n % 13), n))
        c.execute("INSERT OR IGNORE INTO tn VALUES(?,?)", (rng.choice(WORDS) + str(n % 13), n))
    c.execute("COMMIT")
    # a rowid table's PRIMARY KEY column may hold NULL, any number of times; zero-length values are keys too
    for n in range(4):
        c.execute("INSERT INTO tp VALUES(NULL, ?)", ("null%d" % n,))
    c.execute("INSERT INTO tp VALUES('', 'empty text')")
    c.execute("INSERT INTO tp VALUES(x'', 'empty blob')")
    c.execute("INSERT INTO tn VALUES('', 'empty text')")
    c.execute("INSERT INTO tn VALUES(x'', 'empty blob')")
    c.execute("ALTER TABLE Mc ADD COLUMN late TEXT DEFAULT 'x'")
    c.execute("ALTER TABLE Wc ADD COLUMN late2 DEFAULT 12")
    c.execute("INSERT INTO Mc VALUES(100001, 'tail', 1.5, 2, 'w', 'given')")
    c.execute("INSERT INTO Wc VALUES('tailname', 999, 'x', 'given2')")
    c.close()
    db = DB(path, page_size, tag)
    db.tables["Mc"] = dict(kind="ipk", cols=["Id", "Name", "val", "n", '"we ird"', "late"])
    db.tables["Wc"] = dict(kind="norowid", cols=["Name", "Val", "x", "late2"], pk=[("Val", "", False), ("Name", "", False)])
    db.tables["tp"] = dict(kind="rowid", cols=["k", "v"], pkindex="sqlite_autoindex_tp_1")
    db.tables["tn"] = dict(kind="norowid", cols=["k", "v"], pk=[("k", "nocase", False)])
    db.tables["uc"] = dict(kind="rowid", cols=["É", "é", "ÜBER", "über", "b"])
    db.tables["shadow"] = dict(kind="rowid", cols=["oid", "rowid", "_rowid_", "v"])
    db.tables["shadow2"] = dict(kind="ipk", cols=["a", "OID", "v"])
    db.tables["ucw"] = dict(kind="norowid", cols=["É", "é", "v"], pk=[("é", "", False), ("É", "", False)])
    db.tables["dk"] = dict(kind="norowid", cols=["a", "b", "c", "d"], pk=[("a", "nocase", False), ("b", "", False), ("a", "", False)])
    db.indexes["dk_c"] = dict(table="dk", cols=[("c", "", False)])
    db.indexes["mc_part"] = dict(table="Mc", cols=[("val", "", False)], where="n > 3")
    db.indexes["mc_expr"] = dict(table="Mc", cols=[("n + 1", "", False), ("Name", "nocase", False)])
    db.indexes["mc_u"] = dict(table="Mc", cols=[("Name", "nocase", False), ("Id", "", False)])
    db.indexes["wc_x"] = dict(table="Wc", cols=[("x", "", True)])
    db.indexes["sqlite_autoindex_tp_1"] = dict(table="tp", cols=[("k", "", False)])
    db.refresh()
    return db


def thresholds_db(wd, rng, page_size=512, tag="thr"):
    """one row per payload length in a dense window around every local/overflow
    threshold (X, M, X + n(U-4)) for table and index cells"""
    path = os.path.join(wd, "%s-%d.db" % (tag, page_size))
    c = _mk(path, page_size)
    c.execute("CREATE TABLE th(a, b)")
    c.execute("CREATE TABLE thw(k INT, v, PRIMARY KEY(k)) WITHOUT ROWID")
    lens = set()
    for idx in (False, True):
        for t in sqlfmt.thresholds(page_size, idx):
            # on 64 KiB pages one row is up to a quarter of a megabyte: a narrow window, two overflow multiples
            for d in (range(-9, 3) if page_size <= 4096 else range(-1, 2)):
                if 0 <= t + d <= (4 if page_size <= 4096 else 2) * page_size + 40:
                    lens.add(t + d)
    c.execute("BEGIN")
    for n, l in enumerate(sorted(lens)):
        blob = bytes([(n + i) % 253 for i in range(l)])
        c.execute("INSERT INTO th VALUES(?, ?)", (blob, n))
        c.execute("INSERT INTO thw VALUES(?, ?)", (n, blob))
    c.execute("COMMIT")
    c.close()
    db = DB(path, page_size, tag)
    db.tables["th"] = dict(kind="rowid", cols=["a", "b"])
    db.tables["thw"] = dict(kind="norowid", cols=["k", "v"], pk=[("k", "", False)])
    db.refresh()
    return db
