"""An independent (Python) reading of the SQLite file format and helpers around
python's sqlite3 module (real SQLite, the oracle)."""
import os, random, sqlite3, struct

LEGAL_PAGE_SIZES = [512, 1024, 2048, 4096, 8192, 16384, 32768, 65536]


def put_varint(v):
    v &= (1 << 64) - 1
    if v >= 1 << 56:
        out = [v & 0xff]
        v >>= 8
        for _ in range(8):
            out.append((v & 0x7f) | 0x80)
            v >>= 7
        return bytes(reversed(out))
    out = [v & 0x7f]
    v >>= 7
    while v:
        out.append((v & 0x7f) | 0x80)
        v >>= 7
    return bytes(reversed(out))


def get_varint(b):
    """(signed value, n) or None"""
    n = 0
    for i in range(9):
        if i >= len(b):
            return None
        c = b[i]
        if i == 8:
            n = (n << 8) | c
            break
        n = (n << 7) | (c & 0x7f)
        if c < 0x80:
            break
    n &= (1 << 64) - 1
    if n >= 1 << 63:
        n -= 1 << 64
    return n, i + 1


def canon(v):
    """canonical text of a Python/SQLite value (same as Run.v / hcommon)"""
    if v is None:
        return "n"
    if isinstance(v, bool):
        return "i%d" % int(v)
    if isinstance(v, int):
        return "i%d" % v
    if isinstance(v, float):
        return "f%016x" % struct.unpack(">Q", struct.pack(">d", v))[0]
    if isinstance(v, str):
        return "t" + v.encode("utf-8", "surrogateescape").hex()
    if isinstance(v, (bytes, bytearray, memoryview)):
        return "b" + bytes(v).hex()
    raise ValueError(v)


def canon_rec(vals):
    return ",".join(canon(v) for v in vals) if len(vals) else "-"


INT_WIDTHS = {1: 1, 2: 2, 3: 3, 4: 4, 5: 6, 6: 8}


def enc_col(v, serial=None):
    """(serial type, body) for a value; serial forces the integer width / 8 / 9"""
    if v is None:
        return 0, b""
    if isinstance(v, int):
        if serial in (8, 9):
            return serial, b""
        if serial is None:
            for st, w in INT_WIDTHS.items():
                if -(1 << (8 * w - 1)) <= v < (1 << (8 * w - 1)):
                    serial = st
                    break
        w = INT_WIDTHS[serial]
        return serial, (v & ((1 << (8 * w)) - 1)).to_bytes(w, "big")
    if isinstance(v, float):
        return 7, struct.pack(">d", v)
    if isinstance(v, str):
        b = v.encode("utf-8", "surrogateescape")
        return 13 + 2 * len(b), b
    b = bytes(v)
    return 12 + 2 * len(b), b


def enc_record(vals, serials=None):
    cols = [enc_col(v, serials[i] if serials else None) for i, v in enumerate(vals)]
    types = b"".join(put_varint(st) for st, _ in cols)
    h = len(types) + 1
    if h > 127:
        h = len(types) + 2
        if h > 16383:
            h = len(types) + 3
    return put_varint(h) + types + b"".join(b for _, b in cols)


def local_size(p, u, index):
    x = ((u - 12) * 64 // 255) - 23 if index else u - 35
    m = ((u - 12) * 32 // 255) - 23
    k = m + ((p - m) % (u - 4))
    if p <= x:
        return p
    return k if k <= x else m


def thresholds(u, index):
    x = ((u - 12) * 64 // 255) - 23 if index else u - 35
    m = ((u - 12) * 32 // 255) - 23
    pts = set()
    for base in (0, 1, m - 1, m, m + 1, x - 1, x, x + 1, x + 2):
        pts.add(base)
    for n in range(1, 4):
        for d in (-1, 0, 1):
            pts.add(x + n * (u - 4) + d)
            pts.add(m + n * (u - 4) + d)
            pts.add(n * (u - 4) + d)
    return sorted(p for p in pts if p >= 0)


def new_db(path, page_size=4096, auto_vacuum=None, extra_pragmas=()):
    for suf in ("", "-journal", "-wal", "-shm"):
        if os.path.exists(path + suf):
            os.remove(path + suf)
    c = sqlite3.connect(path, isolation_level=None)
    c.execute("PRAGMA page_size=%d" % page_size)
    if auto_vacuum is not None:
        c.execute("PRAGMA auto_vacuum=%s" % auto_vacuum)
    for p in extra_pragmas:
        c.execute(p)
    return c


def master(conn):
    return list(conn.execute("SELECT type, name, tbl_name, rootpage, sql FROM sqlite_master"))


def root_of(conn, name):
    r = conn.execute("SELECT rootpage FROM sqlite_master WHERE name=?", (name,)).fetchone()
    return r[0] if r else None


def page_size_of(path):
    with open(path, "rb") as f:
        h = f.read(100)
    s = struct.unpack(">H", h[16:18])[0]
    return 65536 if s == 1 else s


def read_page(data, n, u):
    return data[(n - 1) * u:n * u]


def page_info(data, n, u):
    """minimal b-tree page walker: (type, ncells, rightmost, [cell offsets])"""
    pg = read_page(data, n, u)
    off = 100 if n == 1 else 0
    t = pg[off]
    nc = struct.unpack(">H", pg[off + 3:off + 5])[0]
    rm = struct.unpack(">I", pg[off + 8:off + 12])[0] if t in (2, 5) else 0
    ptr = off + (12 if t in (2, 5) else 8)
    cells = [struct.unpack(">H", pg[ptr + 2 * i:ptr + 2 * i + 2])[0] for i in range(nc)]
    return t, nc, rm, cells


def tree_shape(data, root, u, depth=1, acc=None):
    """walk a b-tree: dict with depth, pages, interior cells, leaves"""
    if acc is None:
        acc = {"depth": 0, "pages": [], "interior": [], "leaves": []}
    acc["depth"] = max(acc["depth"], depth)
    acc["pages"].append(root)
    if depth > 40:
        return acc
    t, nc, rm, cells = page_info(data, root, u)
    pg = read_page(data, root, u)
    if t in (2, 5):
        acc["interior"].append(root)
        for c in cells:
            child = struct.unpack(">I", pg[c:c + 4])[0]
            tree_shape(data, child, u, depth + 1, acc)
        tree_shape(data, rm, u, depth + 1, acc)
    else:
        acc["leaves"].append(root)
    return acc


def table_interior_keys(data, root, u):
    """all separator keys of the interior pages of a table b-tree"""
    keys = []
    def walk(n, d):
        if d > 40:
            return
        t, nc, rm, cells = page_info(data, n, u)
        pg = read_page(data, n, u)
        if t == 5:
            for c in cells:
                child = struct.unpack(">I", pg[c:c + 4])[0]
                k = get_varint(pg[c + 4:c + 13])
                if k:
                    keys.append(k[0])
                walk(child, d + 1)
            walk(rm, d + 1)
    walk(root, 1)
    return keys


def table_leaf_edges(data, root, u):
    """first and last rowid of every leaf of a table b-tree"""
    edges = []
    def walk(n, d):
        if d > 40:
            return
        t, nc, rm, cells = page_info(data, n, u)
        pg = read_page(data, n, u)
        if t == 5:
            for c in cells:
                walk(struct.unpack(">I", pg[c:c + 4])[0], d + 1)
            walk(rm, d + 1)
        elif t == 13 and cells:
            for c in (cells[0], cells[-1]):
                l = get_varint(pg[c:c + 9])
                k = get_varint(pg[c + l[1]:c + l[1] + 9])
                edges.append(k[0])
    walk(root, 1)
    return edges


def leaf_sizes(data, root, u):
    """number of entries of every page in traversal order: [(page, kind, ncells)]"""
    out = []
    def walk(n, d):
        if d > 40:
            return
        t, nc, rm, cells = page_info(data, n, u)
        pg = read_page(data, n, u)
        if t in (2, 5):
            for c in cells:
                walk(struct.unpack(">I", pg[c:c + 4])[0], d + 1)
                out.append((n, "interior-entry", 1 if t == 2 else 0))
            walk(rm, d + 1)
        else:
            out.append((n, "leaf", nc))
    walk(root, 1)
    return out


def overflow_pages(data, u):
    """page numbers that are neither b-tree pages reachable from sqlite_master
    nor page 1: approximated as 'first byte not a b-tree type' (used only to
    pick fault targets)"""
    res = []
    for n in range(2, len(data) // u + 1):
        if data[(n - 1) * u] not in (2, 5, 10, 13):
            res.append(n)
    return res


def leaf_layout(data, root, u):
    """traversal-order layout of a b-tree: (leaves, interior_positions) where leaves =
    [(first_row_index, end_row_index, is_rightmost_child, depth)] and interior_positions =
    0-based row indexes of entries stored in interior index pages"""
    leaves, interior = [], []
    pos = [0]
    def walk(n, d, rightmost):
        if d > 40:
            return
        t, nc, rm, cells = page_info(data, n, u)
        pg = read_page(data, n, u)
        if t in (2, 5):
            for c in cells:
                walk(struct.unpack(">I", pg[c:c + 4])[0], d + 1, False)
                if t == 2:
                    interior.append(pos[0]); pos[0] += 1
            walk(rm, d + 1, True)
        else:
            leaves.append((pos[0], pos[0] + nc, rightmost, d))
            pos[0] += nc
    walk(root, 1, False)
    return leaves, interior
