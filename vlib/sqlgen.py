"""Grammar-based CREATE TABLE / CREATE INDEX / SELECT texts inside the
intersection of SQLite's grammar and sqlittle's, plus a malformed stream.
Every choice comes from the rng given."""
import random

NAMES = ["a", "b", "c", "d", "e", "id", "name", "val", "Key2", "x1", "Mixed", "col_7", "é", "über", "名前", "caf_é"]
TYPES = ["", "", "INT", "INTEGER", "integer", "Integer", "TEXT", "REAL", "BLOB", "VARCHAR(10)", "DECIMAL(10,2)", "BIGINT", "NUMERIC"]
COLLS = ["binary", "nocase", "rtrim", "NOCASE", "Binary"]


def ident(rng, n):
    """a spelling of identifier n"""
    k = rng.random()
    if k < .6:
        return n
    if k < .7:
        return '"%s"' % n
    if k < .8:
        return "`%s`" % n
    if k < .9:
        return "[%s]" % n
    # another spelling of the SAME identifier: SQLite folds the case of ASCII letters only
    return "".join((ch.upper() if up else ch.lower()) if ch.isascii() else ch for ch in n) if ((up := rng.random() < .5) or True) else n


def indexed_cols(rng, cols, maxn=3, allow_expr=False):
    n = rng.randint(1, min(maxn, len(cols)))
    chosen = rng.sample(cols, n) if rng.random() < .85 else [rng.choice(cols) for _ in range(n)]
    out = []
    for c in chosen:
        s = ident(rng, c)
        arith = False
        if allow_expr and rng.random() < .15:
            s = rng.choice(["%s + 1" % c, "lower(%s)" % c, "%s * 2" % c])
            arith = "(" not in s
        if rng.random() < .3 and not arith:     # COLLATE after an arithmetic expression binds to its last operand in SQLite: a known finding, replayed separately
            s += " COLLATE " + rng.choice(COLLS)
        if rng.random() < .3:
            s += rng.choice([" ASC", " DESC"])
        out.append(s)
    return ", ".join(out)


def create_table(rng, tname="t"):
    """(sql, column names)"""
    ncols = rng.randint(1, 6)
    cols = rng.sample(NAMES, ncols)
    without = rng.random() < .3
    pk_style = rng.choice(["none", "column", "table", "table", "column"]) if not without else rng.choice(["column", "table", "table"])
    pkcol = rng.choice(cols)
    defs = []
    for c in cols:
        d = ident(rng, c)
        typ = rng.choice(TYPES)
        if pk_style == "column" and c == pkcol and "(" in typ:
            typ = "INTEGER"        # a type with arguments on a primary key column is a known finding, replayed separately
        if typ:
            d += " " + typ
        cons = []
        if pk_style == "column" and c == pkcol:
            k = "PRIMARY KEY"
            if rng.random() < .3:
                k += rng.choice([" ASC", " DESC"])
            if typ.upper() == "INTEGER" and not without and " DESC" not in k and rng.random() < .2:
                k += " AUTOINCREMENT"
            cons.append(k)
        if rng.random() < .25:
            cons.append(rng.choice(["NOT NULL", "NULL"]))
        if rng.random() < .2:
            cons.append("UNIQUE")
        if rng.random() < .2:
            cons.append("DEFAULT " + rng.choice(["0", "-5", "17", "'txt'", "NULL", "'it''s'", "true", "FALSE", "'true'", "word", "+3"]))
        if rng.random() < .25:
            cons.append("COLLATE " + rng.choice(COLLS))
        if rng.random() < .1:
            cons.append("CHECK (%s > 0)" % c)
        if rng.random() < .1:
            cons.append("REFERENCES other(x)" + rng.choice(["", " ON DELETE CASCADE", " ON UPDATE SET NULL", " DEFERRABLE INITIALLY DEFERRED", " ON DELETE RESTRICT ON UPDATE NO ACTION"]))
        rng.shuffle(cons)
        if cons:
            d += " " + " ".join(cons)
        defs.append(d)
    tcons = []
    if pk_style == "table":
        tcons.append("PRIMARY KEY (%s)" % indexed_cols(rng, cols))
    for _ in range(rng.choice([0, 0, 1, 1, 2, 3])):
        tcons.append("UNIQUE (%s)" % indexed_cols(rng, cols))
    if rng.random() < .1 and len(cols) > 1:
        tcons.append("FOREIGN KEY (%s) REFERENCES other(x)" % ident(rng, cols[0]))
    rng.shuffle(tcons)
    tcons = [("CONSTRAINT cn%d " % i if rng.random() < .15 else "") + t for i, t in enumerate(tcons)]
    sql = "CREATE TABLE %s (%s)" % (tname, ", ".join(defs + tcons))
    if without:
        sql += " WITHOUT ROWID"
    return sql, cols


def create_index(rng, tname, cols, iname):
    sql = "CREATE %sINDEX %s ON %s (%s)" % ("UNIQUE " if rng.random() < .3 else "", iname, tname, indexed_cols(rng, cols, 3, allow_expr=True))
    if rng.random() < .2:
        sql += " WHERE %s > 3" % rng.choice(cols)
    return sql


def select(rng, tname, cols):
    k = rng.random()
    if k < .3:
        return "SELECT * FROM %s" % tname
    return "SELECT %s FROM %s" % (", ".join(ident(rng, c) for c in rng.sample(cols, rng.randint(1, len(cols)))), ident(rng, tname))


def malformed(rng):
    k = rng.random()
    if k < .25:
        return "".join(chr(rng.choice([rng.randrange(32, 127), rng.randrange(0, 256), rng.randrange(0x100, 0x3000)])) for _ in range(rng.randint(0, 30)))
    base, _ = create_table(rng)
    if k < .5:
        i = rng.randrange(len(base) + 1)
        return base[:i]                                   # truncated
    if k < .7:
        i = rng.randrange(len(base))
        return base[:i] + rng.choice(["'", '"', "`", "[", "(", ")", ",", "é", "中", "0x", "1e", "9" * 25, "--", "/*", ";", "\x00"]) + base[i:]
    if k < .85:
        toks = base.replace("(", " ( ").replace(")", " ) ").replace(",", " , ").split()
        rng.shuffle(toks)
        return " ".join(toks[:rng.randint(1, len(toks))])
    return rng.choice(["", " ", "SELECT", "CREATE", "CREATE TABLE", "CREATE TABLE t", "CREATE TABLE t (", "SELECT FROM", "SELECT a FROM", "SELECT , FROM t",
                       "CREATE INDEX ON t (a)", "CREATE TABLE t (a PRIMARY)", "CREATE TABLE t (a DEFAULT)", "CREATE TABLE t (a) WITHOUT", "INSERT INTO t VALUES(1)",
                       "CREATE TABLE t (a, PRIMARY KEY ())", "CREATE TABLE t (a REFERENCES)", "SELECT * FROM t WHERE", "CREATE TABLE t (a CHECK ((((a)))))",
                       "CREATE TABLE t (a DEFAULT 99999999999999999999)", "CREATE TABLE t (a DEFAULT 0xffffffffffffffff)", "CREATE TABLE t (a DEFAULT 1e999)"])
