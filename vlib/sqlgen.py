"""Grammar-based CREATE TABLE / CREATE INDEX / SELECT texts inside the
intersection of SQLite's grammar and sqlittle's, plus a malformed stream.
Every choice comes from the rng given."""
import random

NAMES = ["a", "b", "c", "d", "e", "id", "name", "val", "Key2", "x1", "Mixed", "col_7", "é", "über", "名前", "caf_é"]
TYPES = ["", "", "INT", "INTEGER", "integer", "Integer", "TEXT", "REAL", "BLOB", "VARCHAR(10)", "DECIMAL(10,2)", "BIGINT", "NUMERIC"]
COLLS = ["binary", "nocase", "rtrim", "NOCASE", "Binary"]


def ident(rng, n):
    """a spelling of identifier n"""
    k = rng.random()
    if k < .6:
        return n
    if k < .7:
        return '"%s"' % n
    if k < .8:
        return "`%s`" % n
    if k < .9:
        return "[%s]" % n
    # another spelling of the SAME identifier: SQLite folds the case of ASCII letters only
    return "".join((ch.upper() if up else ch.lower()) if ch.isascii() else ch for ch in n) if ((up := rng.random() < .5) or True) else n


def indexed_cols(rng, cols, maxn=3, allow_expr=False):
    n = rng.randint(1, min(maxn, len(cols)))
    chosen = rng.sample(cols, n) if rng.random() < .85 else [rng.choice(cols) for _ in range(n)]
    out = []
    for c in chosen:
        s = ident(rng, c)
        arith = False
        if allow_expr and rng.random() < .15:
            s = rng.choice(["%s + 1" % c, "lower(%s)" % c, "%s * 2" % c])
            arith = "(" not in s
        if rng.random() < .3 and not arith:     # COLLATE after an arithmetic expression binds to its last operand in SQLite: a known finding, replayed separately
            s += " COLLATE " + rng.choice(COLLS)
        if rng.random() < .3:
            s += rng.choice([" ASC", " DESC"])
        out.append(s)
    return ", ".join(out)


def create_table(rng, tname="t"):
    """(sql, column names)"""
    ncols = rng.randint(1, 6)
    cols = rng.sample(NAMES, ncols)
    without = rng.random() < .3
    pk_style = rng.choice(["none", "column", "table", "table", "column"]) if not without else rng.choice(["column", "table", "table"])
    pkcol = rng.choice(cols)
    defs = []
    for c in cols:
        d = ident(rng, c)
        typ = rng.choice(TYPES)
        if pk_style == "column" and c == pkcol and "(" in typ:
            typ = "INTEGER"        # a type with arguments on a primary key column is a known finding, replayed separately
        if typ:
            d += " " + typ
        cons = []
        if pk_style == "column" and c == pkcol:
            k = "PRIMARY KEY"
            if rng.random() < .3:
                k += rng.choice([" ASC", " DESC"])
            if typ.upper() == "INTEGER" and not without and " DESC" not in k and rng.random() < .2:
                k += " AUTOINCREMENT"
            cons.append(k)
        if rng.random() < .25:
            cons.append(rng.choice(["NOT NULL", "NULL"]))
        if rng.random() < .2:
            cons.append("UNIQUE")
        if rng.random() < .2:
            cons.append("DEFAULT " + rng.choice(["0", "-5", "17", "'txt'", "NULL", "'it''s'", "true", "FALSE", "'true'", "word", "+3"]))
        if rng.random() < .25:
            cons.append("COLLATE " + rng.choice(COLLS))
        if rng.random() < .1:
            cons.append("CHECK (%s > 0)" % c)
        if rng.random() < .1:
            cons.append("REFERENCES other(x)" + rng.choice(["", " ON DELETE CASCADE", " ON UPDATE SET NULL", " DEFERRABLE INITIALLY DEFERRED", " ON DELETE RESTRICT ON UPDATE NO ACTION"]))
        rng.shuffle(cons)
        if cons:
            d += " " + " ".join(cons)
        defs.append(d)
    tcons = []
    if pk_style == "table":
        tcons.append("PRIMARY KEY (%s)" % indexed_cols(rng, cols))
    for _ in range(rng.choice([0, 0, 1, 1, 2, 3])):
        tcons.append("UNIQUE (%s)" % indexed_cols(rng, cols))
    if rng.random() < .1 and len(cols) > 1:
        tcons.append("FOREIGN KEY (%s) REFERENCES other(x)" % ident(rng, cols[0]))
    rng.shuffle(tcons)
    tcons = [("CONSTRAINT cn%d " % i if rng.random() < .15 else "") + t for i, t in enumerate(tcons)]
    sql = "CREATE TABLE %s (%s)" % (tname, ", ".join(defs + tcons))
    if without:
        sql += " WITHOUT ROWID"
    return sql, cols


def create_index(rng, tname, cols, iname):
    sql = "CREATE %sINDEX %s ON %s (%s)" % ("UNIQUE " if rng.random() < .3 else "", iname, tname, indexed_cols(rng, cols, 3, allow_expr=True))
    if rng.random() < .2:
        sql += " WHERE %s > 3" % rng.choice(cols)
    return sql


def select(rng, tname, cols):
    k = rng.random()
    if k < .3:
        return "SELECT * FROM %s" % tname
    return "SELECT %s FROM %s" % (", ".join(ident(rng, c) for c in rng.sample(cols, rng.randint(1, len(cols)))), ident(rng, tname))


def malformed(rng):
    k = rng.random()
    if k < .25:
        return "".join(chr(rng.choice([rng.randrange(32, 127), rng.randrange(0, 256), rng.randrange(0x100, 0x3000)])) for _ in range(rng.randint(0, 30)))
    base, _ = create_table(rng)
    if k < .5:
        i = rng.randrange(len(base) + 1)
        return base[:i]                                   # truncated
    if k < .7:
        i = rng.randrange(len(base))
        return base[:i] + rng.choice(["'", '"', "`", "[", "(", ")", ",", "é", "中", "0x", "1e", "9" * 25, "--", "/*", ";", "\x00"]) + base[i:]
    if k < .85:
        toks = base.replace("(", " ( ").replace(")", " ) ").replace(",", " , ").split()
        rng.shuffle(toks)
        return " ".join(toks[:rng.randint(1, len(toks))])
    return rng.choice(["", " ", "SELECT", "CREATE", "CREATE TABLE", "CREATE TABLE t", "CREATE TABLE t (", "SELECT FROM", "SELECT a FROM", "SELECT , FROM t",
                       "CREATE INDEX ON t (a)", "CREATE TABLE t (a PRIMARY)", "CREATE TABLE t (a DEFAULT)", "CREATE TABLE t (a) WITHOUT", "INSERT INTO t VALUES(1)",
                       "CREATE TABLE t (a, PRIMARY KEY ())", "CREATE TABLE t (a REFERENCES)", "SELECT * FROM t WHERE", "CREATE TABLE t (a CHECK ((((a)))))",
                       "CREATE TABLE t (a DEFAULT 99999999999999999999)", "CREATE TABLE t (a DEFAULT 0xffffffffffffffff)", "CREATE TABLE t (a DEFAULT 1e999)"])


# ---------------------------------------------------------------- lexical stress (bytes, for the tokenizer model)
_LETTERS = [0xE9, 0xC9, 0x3A9, 0x436, 0x5D0, 0x4E2D, 0x1F600, 0x10400, 0x2CEB0, 0xAA, 0xB5, 0x2C6, 0x16EE, 0x3007, 0xFFFD, 0x301, 0x200B, 0xFEFF, 0x2160]
_DIGITS = [0x663, 0x6F9, 0x966, 0xFF15, 0x1D7D8, 0xB2, 0xBD, 0x2460]
_SPACES = [0x85, 0xA0, 0x1680, 0x2003, 0x2028, 0x202F, 0x205F, 0x3000, 0x180E, 0x200B, 0x0B, 0x0C, 0x1C]
_BADUTF = [b"\x80", b"\xbf", b"\xc0\x80", b"\xc1\xbf", b"\xc3", b"\xe0\x80\x80", b"\xe0\x9f\xbf", b"\xed\xa0\x80", b"\xed\xbf\xbf", b"\xe1\x80", b"\xf0\x80\x80\x80",
           b"\xf0\x8f\xbf\xbf", b"\xf4\x90\x80\x80", b"\xf5\x80\x80\x80", b"\xf0\x9f\x98", b"\xff", b"\xfe", b"\xc3\x28", b"\xe2\x82\x28", b"\xf0\x9f\x28\x80"]
_NUMS = ["0", "00", "007", "010", "9223372036854775807", "9223372036854775808", "18446744073709551615", "18446744073709551616", "0x0", "0X7fffffffffffffff",
         "0x8000000000000000", "0xffffffffffffffff", "0x10000000000000000", "0x", "0xe", "0xE5e5", "0x1e+5", "0x1.8", "00x1", "1x", "1e5", "1E5", "1e+5", "1e-5", "1e", "1e+",
         "1.e5", ".5", ".", "..", "1.", "1.5.2", ".e5", "5.e", "1e5e5", "1e5-3", "1e+-5", "9007199254740993", "9007199254740992.5", "9007199254740993.0", "9007199254740994.5",
         "4.9406564584124654e-324", "2.4703282292062327e-324", "2.4703282292062328e-324", "2.47032822920623272088284396434110686182529901307162382212792841250337753635104375932649918180817996189898282347722858865463328355177969898199387398005390939063150356595155702263922908583924491051844359318028499365361525003193704576782492193656236698636584807570015857692699037063119282795585513329278343384093519780155312465972635795746227664652728272200563740064854999770965994704540208281662262378573934507363390079677619305775067401763246736009689513405355374585166611342237666786041621596804619144672918403005300575308490487653917113865916462395249126236538818796362393732804238910186723484976682350898633885879256283027559956575244555072551893136908362547791869486679949683240497058210285131854513962138377228261454376934125320985913276672363281251e-324",
         "2.2250738585072014e-308", "2.2250738585072011e-308", "1.7976931348623157e308", "1.7976931348623158e308", "1.797693134862315807e308", "1.7976931348623159e308", "1e308", "1e309",
         "1e-323", "1e-324", "1e-400", "1e400", "0e999999999", "1e99999999999999999999", "0." + "0" * 400 + "1e401", "1" + "0" * 330 + "e-330", "1" + "0" * 400, "0." + "0" * 340 + "1",
         "123456789012345678901234567890", "0.1", "0.3", "1e23", "8.5e22", "5e-324", "179769313486231580793728971405303415079934132710037826936173778980444968292764750946649017977587207096330286416692887910946555547851940402630657488671505820681908902000708383676273854845817711531764475730270069855571366959622842914819860834936475292719074168444365510704342711559699508093042880177904174497791.999",
         "179769313486231580793728971405303415079934132710037826936173778980444968292764750946649017977587207096330286416692887910946555547851940402630657488671505820681908902000708383676273854845817711531764475730270069855571366959622842914819860834936475292719074168444365510704342711559699508093042880177904174497792"]


def _utf8(cp):
    return chr(cp).encode("utf-8", "surrogatepass")


def lexeme(rng):
    """one lexical item as bytes, biased to the tokenizer's decision points"""
    k = rng.random()
    if k < .22:
        if rng.random() < .55:
            return rng.choice(_NUMS).encode()
        if rng.random() < .5:
            m = "".join(rng.choice("0123456789") for _ in range(rng.randint(1, 22)))
            if rng.random() < .6:
                p = rng.randint(0, len(m)); m = m[:p] + "." + m[p:]
            e = rng.choice([rng.randint(-345, 320), rng.randint(-30, 30)])
            return (m + rng.choice(["e", "E"]) + rng.choice(["", "+", "-"] if e >= 0 else ["-"]) + str(abs(e))).encode()
        return "".join(rng.choice("0123456789.eExX+-") for _ in range(rng.randint(1, 10))).encode()
    if k < .42:
        q = rng.choice(["'", '"', "`", "["])
        c = "]" if q == "[" else q
        body = "".join(rng.choice(["a", " ", c, c + c, "é", "\n", "'", '"', "]", "[", "`", "x" * 5, "\\"]) for _ in range(rng.randint(0, 6)))
        return (q + body + rng.choice([c, c, c, "", c + c, c + c + c])).encode()
    if k < .60:
        w = b""
        for _ in range(rng.randint(1, 5)):
            j = rng.random()
            if j < .35:
                w += rng.choice(["a", "Z", "_", "select", "Create", "TABLE", "rowid", "key", "x1", "9"]).encode()
            elif j < .6:
                w += _utf8(rng.choice(_LETTERS))
            elif j < .8:
                w += _utf8(rng.choice(_DIGITS))
            elif j < .9:
                w += rng.choice(_BADUTF)
            else:
                w += _utf8(rng.choice(_SPACES))
        return w
    if k < .75:
        return "".join(rng.choice("><|/%&=!") for _ in range(rng.randint(1, 3))).encode()
    if k < .85:
        return rng.choice(["(", ")", ",", "+", "-", "~", "*", ";", "@", "#", "$", "?", ":", "{", "\\", "^", "\x00", "\x7f"]).encode()
    if k < .93:
        return rng.choice(_BADUTF)
    return _utf8(rng.choice(_SPACES + _LETTERS + _DIGITS + [rng.randrange(0x80, 0x110000)]))


def lexical(rng):
    """a byte string of lexemes, with or without separators"""
    n = rng.choice([1, 1, 2, 3, 5, 8])
    sep = rng.choice([b" ", b" ", b"", b"", b"\t", b"\n", b"\xc2\xa0", b"\xe3\x80\x80"])
    return sep.join(lexeme(rng) for _ in range(n)) + rng.choice([b"", b"", b" ", b"'", b">", b"\xc3"])
