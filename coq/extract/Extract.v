(* Extraction of the executable model.  Only ExtrOcamlBasic is used (its
   Extract Inductive directives for bool, option, unit, list, prod, sumbool,
   sumor); Z, N, positive, nat and byte stay extracted inductives. *)
From Coq Require Extraction ExtrOcamlBasic.
From SQ Require Import Model.Base Model.Header Model.Low Model.DbState Model.Lock Model.Crash Model.SqlParse Model.RowScan Model.Run Model.Driver Model.Schema Model.Tokenizer Model.ParseBudget Model.E2E.
Extraction Language OCaml.
Extraction "model.ml" run_line run_line_with E2E.run_line_e2e openp open_page init_state rlock Lock.run Lock.do_step Crash.phases SqlParse.parse_tokens SqlParse.show_outcome RowScan.scan_args Run.read_value Driver.drv_outcomes Schema.schema_of_tokens Tokenizer.tokenize Tokenizer.show_tokout Tokenizer.parse_string Tokenizer.parse_sql ParseBudget.parse_budget parse_header h_pagesize show_err b2z z2b.
