(* Driver for the extracted model: reads commands on stdin, prints the
   model's answers.  Lines starting with '#' are echoed.  Commands:
     db PATH            load a database image, print "open ok U" | "open err KIND"
     fail P1,P2,...     pages whose read fails (EIO) from now on ("fail -" clears)
     <anything else>    handed to Model.run_line *)

let rec pos_of_int n = if n = 1 then Model.XH else if n land 1 = 0 then Model.XO (pos_of_int (n lsr 1)) else Model.XI (pos_of_int (n lsr 1))
let z_of_int n = if n = 0 then Model.Z0 else if n > 0 then Model.Zpos (pos_of_int n) else Model.Zneg (pos_of_int (-n))
let rec int_of_pos = function Model.XH -> 1 | Model.XO p -> 2 * int_of_pos p | Model.XI p -> 2 * int_of_pos p + 1
(* page numbers only: anything beyond 2^40 is "not a page of this file" *)
let rec pos_small d = function Model.XH -> true | Model.XO p | Model.XI p -> d > 0 && pos_small (d - 1) p
let int_of_z = function Model.Z0 -> 0 | Model.Zpos p -> if pos_small 40 p then int_of_pos p else max_int | Model.Zneg p -> if pos_small 40 p then - (int_of_pos p) else min_int
let rec nat_of_int n = let rec go acc n = if n = 0 then acc else go (Model.S acc) (n - 1) in go Model.O n

let byte_idx : (Model.byte, int) Hashtbl.t = Hashtbl.create 256
let () = Array.iteri (fun i b -> Hashtbl.replace byte_idx b i) Bytetab.tab

let bytes_of_string (s : string) : Model.byte list =
  let r = ref [] in
  for i = String.length s - 1 downto 0 do r := Bytetab.tab.(Char.code s.[i]) :: !r done; !r
let string_of_bytes (l : Model.byte list) : string =
  let b = Buffer.create 64 in
  List.iter (fun c -> Buffer.add_char b (Char.chr (Hashtbl.find byte_idx c))) l; Buffer.contents b

let read_file path =
  let ic = open_in_bin path in
  let n = in_channel_length ic in
  let s = really_input_string ic n in close_in ic; s

let pages : Model.byte list array ref = ref [||]
let usize = ref 0
let failing : (int, unit) Hashtbl.t = Hashtbl.create 16
let zeroed : (int, unit) Hashtbl.t = Hashtbl.create 16
let dbopen = ref false

let pager (z : Model.z) : Model.byte list Model.res =
  let n = int_of_z z in
  if n < 1 || n > Array.length !pages || Hashtbl.mem failing n then Model.Err Model.EIO
  else if Hashtbl.mem zeroed n then Model.Ok (List.map (fun _ -> Model.z2b Model.Z0) !pages.(n - 1))
  else Model.Ok !pages.(n - 1)

(* Database.openPage memoised: [Model.openp pager U] is a pure function of the
   page number for a fixed image and fault set; the table is cleared whenever
   either changes.  (The Go code caches parsed pages the same way.) *)
let memo : (int, Model.page Model.res) Hashtbl.t = Hashtbl.create 4096
let openp (z : Model.z) : Model.page Model.res =
  let n = int_of_z z in
  match Hashtbl.find_opt memo n with
  | Some r -> r
  | None -> let r = Model.openp pager (z_of_int !usize) z in Hashtbl.replace memo n r; r

(* alternatively the page store is the handle state machine of Model/DbState.v
   (dirty flag, header, page cache, resolveDirty): [store_model] selects it;
   the state lives across `reload`s like a long-lived handle's *)
let store_model = ref false
(* high level commands: the schema record is computed from the file by the model itself (Model/E2E.v);
   VERIF_SCHEMA=dump makes it take the implementation's dump given in the command instead *)
let schema_e2e = (try Sys.getenv "VERIF_SCHEMA" <> "dump" with Not_found -> true)
let dbst : Model.dbstate ref = ref Model.init_state
let image : Model.byte list ref = ref []
let journal_bytes : Model.byte list option ref = ref None
let reserved = ref false
let env () = { Model.e_img = !image; Model.e_journal = !journal_bytes; Model.e_reserved = !reserved }
let openp_st (z : Model.z) : Model.page Model.res =
  let (r, st') = Model.open_page (env ()) !dbst z in dbst := st'; r
let the_store z = if !store_model then openp_st z else openp z

let load_image path keep_state =
  let s = read_file path in
  Hashtbl.reset failing; Hashtbl.reset zeroed; Hashtbl.reset memo;
  if !store_model then image := bytes_of_string s;
  if not keep_state then dbst := Model.init_state;
  let hb = bytes_of_string (String.sub s 0 (min 100 (String.length s))) in
  (match Model.parse_header hb with
   | Model.Err e ->
     dbopen := false; pages := [||];
     if not keep_state then print_endline ("open err " ^ string_of_bytes (Model.show_err e))
   | Model.Ok h ->
     let u = int_of_z (Model.h_pagesize h) in
     usize := u;
     let n = String.length s / u in     (* a trailing partial page is unreadable *)
     pages := Array.init n (fun i -> bytes_of_string (String.sub s (i * u) u));
     dbopen := true;
     if not keep_state then Printf.printf "open ok %d\n" u)

(* Coq strings (lists of 8-bit ascii) <-> OCaml strings *)
let coq_ascii (c : char) : Model.ascii =
  let n = Char.code c in
  let b i = (n lsr i) land 1 = 1 in
  Model.Ascii (b 0, b 1, b 2, b 3, b 4, b 5, b 6, b 7)
let ocaml_char (a : Model.ascii) : char =
  match a with Model.Ascii (b0, b1, b2, b3, b4, b5, b6, b7) ->
    let v b i = if b then 1 lsl i else 0 in
    Char.chr (v b0 0 + v b1 1 + v b2 2 + v b3 3 + v b4 4 + v b5 5 + v b6 6 + v b7 7)
let coq_string (s : string) : Model.string =
  let r = ref Model.EmptyString in
  for i = String.length s - 1 downto 0 do r := Model.String (coq_ascii s.[i], !r) done; !r
let ocaml_string (s : Model.string) : string =
  let b = Buffer.create 64 in
  let rec go = function Model.EmptyString -> () | Model.String (a, r) -> Buffer.add_char b (ocaml_char a); go r in
  go s; Buffer.contents b
let unhex (s : string) : string =
  String.init (String.length s / 2) (fun i -> Char.chr (int_of_string ("0x" ^ String.sub s (2 * i) 2)))
(* big integers from decimal / hex text *)
let z_of_dec (s : string) : Model.z =
  let neg = String.length s > 0 && s.[0] = '-' in
  let digits = if neg then String.sub s 1 (String.length s - 1) else s in
  let ten = z_of_int 10 in
  let r = ref Model.Z0 in
  String.iter (fun c -> r := Model.Z.add (Model.Z.mul !r ten) (z_of_int (Char.code c - 48))) digits;
  if neg then Model.Z.opp !r else !r
let z_of_hex (s : string) : Model.z =
  let sixteen = z_of_int 16 in
  let r = ref Model.Z0 in
  String.iter (fun c -> let d = if c <= '9' then Char.code c - 48 else Char.code c - 87 in r := Model.Z.add (Model.Z.mul !r sixteen) (z_of_int d)) s;
  !r

(* yparse TOK;TOK;... with TOK = type:hexstring:int:floatbits (the implementation's tokenizer output) *)
let run_yparse (arg : string) =
  let toks = if arg = "" then [] else List.map (fun t ->
    match String.split_on_char ':' t with
    | [ty; s; n; f] -> { Model.ttyp = z_of_dec ty; Model.ts = coq_string (unhex s); Model.tn = z_of_dec n; Model.tf = z_of_hex f }
    | _ -> failwith ("bad token " ^ t)) (String.split_on_char ';' arg) in
  print_endline (ocaml_string (Model.show_outcome (Model.parse_tokens (Model.parse_budget toks) toks)))

(* mtokens HEX / mparse HEX: Model/Tokenizer.v on the bytes of the string *)
let run_mtokens (h : string) =
  let b = bytes_of_string (unhex (if h = "-" then "" else h)) in
  print_endline (ocaml_string (Model.show_tokout (Model.tokenize b)))
let run_mparse (h : string) =
  let b = bytes_of_string (unhex (if h = "-" then "" else h)) in
  print_endline (ocaml_string (Model.show_outcome (Model.parse_sql b)))

(* mschema TOKS|TOKS|... : the table's CREATE TABLE tokens, then the tokens of each of its indexes ("!" = did not tokenize) *)
let toks_of (arg : string) = if arg = "" || arg = "-" then [] else List.map (fun t ->
    match String.split_on_char ':' t with
    | [ty; s; n; f] -> { Model.ttyp = z_of_dec ty; Model.ts = coq_string (unhex s); Model.tn = z_of_dec n; Model.tf = z_of_hex f }
    | _ -> failwith ("bad token " ^ t)) (String.split_on_char ';' arg)
let run_mschema (arg : string) =
  match String.split_on_char '|' arg with
  | [] -> print_endline "mschema: bad arguments"
  | t :: idx ->
    let ix = List.map (fun a -> if a = "!" then None else Some (toks_of a)) idx in
    print_endline ("schema " ^ ocaml_string (Model.schema_of_tokens (nat_of_int 100000) (toks_of t) ix))

(* mscan DESTS VALUES ORACLE: Model/RowScan.v scan_args; ORACLE = per column ff/pf/pt as printed by the implementation harness *)
let rec z_to_string (z : Model.z) : string =
  let rec pos_to_int64 = function Model.XH -> 1L | Model.XO p -> Int64.mul 2L (pos_to_int64 p) | Model.XI p -> Int64.add (Int64.mul 2L (pos_to_int64 p)) 1L in
  match z with
  | Model.Z0 -> "0"
  | Model.Zpos p -> Printf.sprintf "%Lu" (pos_to_int64 p)
  | Model.Zneg p -> let v = pos_to_int64 p in if v = Int64.min_int then "-9223372036854775808" else "-" ^ Printf.sprintf "%Lu" v
let hex_of_bytes (l : Model.byte list) = String.concat "" (List.map (fun c -> Printf.sprintf "%02x" (Hashtbl.find byte_idx c)) l)
let hex16_of_z (z : Model.z) : string =
  let rec pos_to_int64 = function Model.XH -> 1L | Model.XO p -> Int64.mul 2L (pos_to_int64 p) | Model.XI p -> Int64.add (Int64.mul 2L (pos_to_int64 p)) 1L in
  match z with Model.Z0 -> "0000000000000000" | Model.Zpos p -> Printf.sprintf "%016Lx" (pos_to_int64 p) | Model.Zneg _ -> "?"
let run_mscan (ws : string list) =
  match ws with
  | [_; dests; values; oracle] ->
    let dest = function "s" -> Model.DString | "b" -> Model.DBytes | "i64" -> Model.DInt64 | "i32" -> Model.DInt32 | "i" -> Model.DInt
                      | "bool" -> Model.DBool | "f" -> Model.DFloat64 | "t" -> Model.DTime | "nil" -> Model.DSkip | _ -> Model.DUnsupported in
    let ds = List.map dest (String.split_on_char ',' dests) in
    let vals = if values = "-" then [] else String.split_on_char ',' values in
    let row = List.map (fun v -> Model.read_value (bytes_of_string v)) vals in
    let orc = if oracle = "-" || oracle = "" then [] else List.map (fun o -> match String.split_on_char '/' o with [a; b; c] -> (a, b, c) | _ -> ("-", "-", "-")) (String.split_on_char ';' oracle) in
    let cols = List.combine row (if List.length orc = List.length row then orc else List.map (fun _ -> ("-", "-", "-")) row) in
    let format_float (bits : Model.z) : Model.byte list =
      let rec find = function [] -> [] | (Model.VReal b, (ff, _, _)) :: r -> if b = bits then bytes_of_string (unhex ff) else find r | _ :: r -> find r in find cols in
    let text_of = function Model.VText s | Model.VBlob s -> Some s | _ -> None in
    let parse_float (s : Model.byte list) : Model.z option =
      let rec find = function [] -> None | (v, (_, pf, _)) :: r -> if text_of v = Some s then (if pf = "-" then None else Some (z_of_hex pf)) else find r in find cols in
    let parse_time (s : Model.byte list) : (Model.z * Model.z) option =
      let rec find = function [] -> None | (Model.VText t, (_, _, pt)) :: r ->
        if t = s then (if pt = "-" then None else match String.split_on_char ':' pt with [a; b] -> Some (z_of_dec a, z_of_dec b) | _ -> None) else find r
        | _ :: r -> find r in find cols in
    let (xs, ok) = Model.scan_args format_float parse_float parse_time ds row Model.O in
    let show = function
      | Model.SString s -> "s" ^ hex_of_bytes s
      | Model.SBytes None -> "bnil" | Model.SBytes (Some b) -> "b" ^ hex_of_bytes b
      | Model.SInt z -> "i" ^ z_to_string z | Model.SBool b -> if b then "true" else "false"
      | Model.SFloat f -> "f" ^ hex16_of_z f | Model.STime (a, b) -> "T" ^ z_to_string a ^ ":" ^ z_to_string b
      | Model.STimeZero -> "T-62135596800:0" | Model.SNone -> "skip" | Model.SErr -> "ERR" in
    print_endline ((if ok then "ok " else "err ") ^ String.concat "," (List.map show xs))
  | _ -> print_endline "mscan: bad command"

(* lock NH NW step step ... : the lock protocol model (Model/Lock.v).  Handle h lives
   in process h, SQLite connection w in process NH+w.  Steps: L1 L2 L3 P U C (handle:
   RLock's three calls, page read, RUnlock, Close) and S1 S2 S3 R Pe X W UA D
   (connection: SHARED's three calls, RESERVED, PENDING, EXCLUSIVE, write, unlock, die), as tok:index *)
let run_lock (ws : string list) =
  match ws with
  | _ :: nh :: nw :: toks ->
    let nh = int_of_string nh and nw = int_of_string nw in
    let step tok =
      match String.split_on_char ':' tok with
      | [k; i] ->
        let i = nat_of_int (int_of_string i) in
        (match k with
         | "L1" -> Model.HLock1 i | "L2" -> Model.HLock2 i | "L3" -> Model.HLock3 i | "P" -> Model.HPage i
         | "U" -> Model.HUnlock i | "C" -> Model.HClose i
         | "S1" -> Model.WS1 i | "S2" -> Model.WS2 i | "S3" -> Model.WS3 i | "R" -> Model.WRes i
         | "Pe" -> Model.WPend i | "X" -> Model.WExcl i | "W" -> Model.WWrite i | "UA" -> Model.WUnlockAll i
         | "D" -> Model.WDie i | _ -> failwith ("bad step " ^ tok))
      | _ -> failwith ("bad step " ^ tok) in
    let rec int_of_nat = function Model.O -> 0 | Model.S k -> 1 + int_of_nat k in
    let hpid h = h and wpid w = nat_of_int (nh + int_of_nat w) in
    let s = Model.run (nat_of_int (nh + nw)) hpid wpid (List.map step toks) in
    let k = function Model.NoLock -> "-" | Model.Rd -> "R" | Model.Wr -> "W" in
    let row p = Printf.sprintf "pending=%s reserved=%s shared=%s" (k (s.Model.tbl p Model.Pending)) (k (s.Model.tbl p Model.Reserved)) (k (s.Model.tbl p Model.Shared)) in
    let hs = function Model.HIdle -> "idle" | Model.HPending -> "pending" | Model.HBoth -> "both" | Model.HLocked -> "locked" | Model.HClosed -> "closed" in
    let wss = function Model.WUnlocked -> "unlocked" | Model.WSharedTmp1 -> "shared1" | Model.WSharedTmp2 -> "shared2" | Model.WShared -> "shared"
                     | Model.WReserved -> "reserved" | Model.WPending -> "pending" | Model.WExclusive -> "exclusive" | Model.WDead -> "dead" in
    for h = 0 to nh - 1 do Printf.printf "h%d %s %s\n" h (hs (s.Model.hst (nat_of_int h))) (row (hpid (nat_of_int h))) done;
    for w = 0 to nw - 1 do Printf.printf "w%d %s %s\n" w (wss (s.Model.wst (nat_of_int w))) (row (wpid (nat_of_int w))) done;
    let cnt f = List.length (List.filter f s.Model.evs) in
    Printf.printf "events pages=%d writes=%d busy=%d\n" (cnt (function Model.EvPage _ -> true | _ -> false))
      (cnt (function Model.EvWrite _ -> true | _ -> false)) (cnt (function Model.EvBusy _ -> true | _ -> false))
  | _ -> print_endline "lock: bad command"

(* drv N FIN PROG: every maximal execution of Model/Driver.v for a scan of N rows ending
   FIN (- = nil, E = an error) against the consumer program PROG (N = Next, X = cancel,
   C = Close); one line per distinct outcome, sorted *)
let run_drv (args : string list) =
  match args with
  | [_; n; fin; prog] ->
    let n = int_of_string n in
    let rows = List.init n (fun i -> i + 1) in
    let e = if fin = "E" then Some () else None in
    let ops = List.init (String.length prog) (fun i -> match prog.[i] with
      | 'N' -> Model.CNext | 'X' -> Model.CCancel | 'C' -> Model.CClose | _ -> failwith "bad consumer op") in
    let outs = Model.drv_outcomes (nat_of_int (16 * n + 4 * String.length prog + 40)) rows e ops in
    let show (seen, (pc, locked)) =
      let o = List.rev_map (function
        | Model.ORow r -> "r" ^ string_of_int r | Model.OEof -> "eof" | Model.OErr () -> "err"
        | Model.OClosed None -> "closed:nil" | Model.OClosed (Some ()) -> "closed:err") seen in
      let p = match pc with
        | Model.PInit -> "start" | Model.PLoop -> "loop" | Model.PSelect _ -> "parked" | Model.PReturned _ -> "returned"
        | Model.PErrSet -> "errset" | Model.PWgDone -> "wgdone" | Model.PClosed -> "exited" in
      String.concat " " o ^ " | " ^ p ^ (if locked then " locked" else " unlocked") in
    let lines = List.sort_uniq compare (List.map show outs) in
    if lines = [] then print_endline "outcome NONE (fuel)" else
    List.iter (fun l -> print_endline ("outcome " ^ l)) lines
  | _ -> print_endline "drv: bad arguments"

let starts_with p s = String.length s >= String.length p && String.sub s 0 (String.length p) = p

let () =
  try
    while true do
      let line = input_line stdin in
      if line = "" then ()
      else if line.[0] = '#' then (print_endline line; flush stdout)
      else if starts_with "db " line then load_image (String.sub line 3 (String.length line - 3)) false
      else if starts_with "reload " line then load_image (String.sub line 7 (String.length line - 7)) true
      else if starts_with "drv " line then run_drv (String.split_on_char ' ' line)
      else if starts_with "mscan " line then run_mscan (String.split_on_char ' ' line)
      else if starts_with "mschema " line then run_mschema (String.sub line 8 (String.length line - 8))
      else if starts_with "mtokens " line then run_mtokens (String.sub line 8 (String.length line - 8))
      else if starts_with "mparse " line then run_mparse (String.sub line 7 (String.length line - 7))
      else if starts_with "yparse" line then run_yparse (if String.length line > 7 then String.sub line 7 (String.length line - 7) else "")
      else if starts_with "crashphases" line then begin
        (* the order of a writer's file operations against Model/Crash.v's protocol automaton *)
        let tok t = match String.split_on_char ':' t with
          | ["C"] -> Model.OJCreate [] | ["A"] -> Model.OJAppend [] | ["S"] -> Model.OJSync | ["M"] -> Model.OJMagic []
          | ["D"] -> Model.ODbWrite | ["Y"] -> Model.ODbSync | ["X"] -> Model.OCommitDelete | ["T"] -> Model.OCommitTruncate
          | ["Z"] -> Model.OCommitZero | ["O"; off] -> Model.OJPatch (nat_of_int (min 100 (int_of_string off)), [])
          | _ -> failwith ("bad op " ^ t) in
        let ops = List.map tok (List.filter (fun x -> x <> "") (List.tl (String.split_on_char ' ' line))) in
        print_endline (match Model.phases Model.PStart ops with
          | None -> "protocol violated" | Some Model.PStart -> "start" | Some Model.PBuilding -> "building"
          | Some Model.PHot -> "hot" | Some Model.PDone -> "done")
      end
      else if starts_with "lock " line then run_lock (String.split_on_char ' ' line)
      else if starts_with "jfile " line then begin
        (* the -journal file next to the database: "jfile -" = no such file *)
        let a = String.sub line 6 (String.length line - 6) in
        journal_bytes := (if a = "-" then None else Some (bytes_of_string (read_file a)))
      end
      else if line = "reserved on" then reserved := true
      else if line = "reserved off" then reserved := false
      else if line = "store model" then (store_model := true; dbst := Model.init_state)
      else if line = "store memo" then store_model := false
      else if line = "rlock" then (if !store_model then dbst := Model.rlock !dbst)
      else if line = "runlock" then ()
      else if starts_with "zero " line then begin
        Hashtbl.reset zeroed; Hashtbl.reset memo;
        let a = String.sub line 5 (String.length line - 5) in
        if a <> "-" then
          List.iter (fun x -> Hashtbl.replace zeroed (int_of_string x) ()) (String.split_on_char ',' a)
      end
      else if starts_with "fail " line then begin
        Hashtbl.reset failing; Hashtbl.reset memo;
        let a = String.sub line 5 (String.length line - 5) in
        if a <> "-" then
          List.iter (fun x -> Hashtbl.replace failing (int_of_string x) ()) (String.split_on_char ',' a)
      end
      else begin
        if !store_model && line.[0] = 'h' then dbst := Model.rlock !dbst;
        let out = (if schema_e2e then Model.run_line_e2e else Model.run_line_with) pager the_store (nat_of_int (Array.length !pages)) (bytes_of_string line) in
        List.iter (fun l -> print_endline (string_of_bytes l)) out
      end
    done
  with End_of_file -> ()
