(* db/btree.go: newBtree, the four page constructors, the four cell parsers,
   parseCellpointers *)
From SQ Require Import Model.Base Model.Varint Model.Payload Model.Btree.

(* TLeaf: (rowid, payload); TInterior: (left child, key); IInterior: (left child, payload) *)
Definition page := gpage cell_payload.
Notation TLeaf := (@GTLeaf cell_payload).
Notation TInterior := (@GTInterior cell_payload).
Notation ILeaf := (@GILeaf cell_payload).
Notation IInterior := (@GIInterior cell_payload).

Definition header_size : Z := 100.

Definition parse_table_leaf (c : list byte) (u : Z) : res (Z * cell_payload) :=
  match read_varint c with
  | None => Err ECorrupt
  | Some (l, n) =>
    do c1 <- slice_from c n;
    match read_varint c1 with
    | None => Err ECorrupt
    | Some (rowid, n2) =>
      do c2 <- slice_from c1 n2;
      do pl <- parse_payload l c2 u (table_max_local u);
      Ok (rowid, pl)
    end
  end.

Definition parse_table_interior (c : list byte) : res (Z * Z) :=
  if len c <? 4 then Err ECorrupt
  else
    do l4 <- slice_to c 4;
    do c1 <- slice_from c 4;
    match read_varint c1 with
    | None => Err ECorrupt
    | Some (key, _) => Ok (be l4, key)
    end.

Definition parse_index_leaf (c : list byte) (u : Z) : res cell_payload :=
  match read_varint c with
  | None => Err ECorrupt
  | Some (l, n) =>
    do c1 <- slice_from c n;
    parse_payload l c1 u (index_max_local u)
  end.

Definition parse_index_interior (c : list byte) (u : Z) : res (Z * cell_payload) :=
  if len c <? 4 then Err ECorrupt
  else
    do l4 <- slice_to c 4;
    do c0 <- slice_from c 4;
    match read_varint c0 with
    | None => Err ECorrupt
    | Some (l, n) =>
      do c1 <- slice_from c0 n;
      do pl <- parse_payload l c1 u (index_max_local u);
      Ok (be l4, pl)
    end.

(* parseCellpointers: [n] pointers of two bytes each, each <= maxlen *)
Fixpoint cell_pointers (n : nat) (pointers : list byte) (maxlen : Z) : res (list Z) :=
  match n with
  | O => Ok []
  | S k =>
    match pointers with
    | a :: b :: rest =>
      let start := b2z a * 256 + b2z b in
      if maxlen <? start then Err ECellPtr
      else do tl <- cell_pointers k rest maxlen; Ok (start :: tl)
    | _ => Err EPanic   (* excluded by the length guard below *)
    end
  end.

Definition parse_cellpointers (n : Z) (pointers : list byte) (maxlen : Z) : res (list Z) :=
  if len pointers <? n * 2 then Err ECellPtr
  else cell_pointers (Z.to_nat n) pointers maxlen.

Fixpoint parse_cells {A} (f : list byte -> res A) (content : list byte) (starts : list Z)
  : res (list A) :=
  match starts with
  | [] => Ok []
  | s :: rest =>
    do c <- slice_from content s;
    do x <- f c;
    do xs <- parse_cells f content rest;
    Ok (x :: xs)
  end.

(* newBtree(b, isFileHeader, pageSize) *)
Definition parse_page (b : list byte) (is_first : bool) (u : Z) : res page :=
  do hb <- (if is_first then slice_from b header_size else Ok b);
  do cnt <- slice hb 3 5;
  let cells := be cnt in
  do typ <- index hb 0;
  if typ =? 13 then
    do ptrs <- slice_from hb 8;
    do starts <- parse_cellpointers cells ptrs (len b);
    do cs <- parse_cells (fun c => parse_table_leaf c u) b starts;
    Ok (TLeaf cs)
  else if typ =? 5 then
    do rm <- slice hb 8 12;
    do ptrs <- slice_from hb 12;
    do starts <- parse_cellpointers cells ptrs (len b);
    do cs <- parse_cells parse_table_interior b starts;
    Ok (TInterior cs (be rm))
  else if typ =? 10 then
    do ptrs <- slice_from b 8;
    do starts <- parse_cellpointers cells ptrs (len b);
    do cs <- parse_cells (fun c => parse_index_leaf c u) b starts;
    Ok (ILeaf cs)
  else if typ =? 2 then
    do rm <- slice b 8 12;
    do ptrs <- slice_from b 12;
    do starts <- parse_cellpointers cells ptrs (len b);
    do cs <- parse_cells (fun c => parse_index_interior c u) b starts;
    Ok (IInterior cs (be rm))
  else Err EPageType.
