(* IEEE-754 binary64 modelled arithmetically in Z (no real-number axioms).
   A float is its 64-bit pattern 0 <= b < 2^64. *)
From SQ Require Import Model.Base.

Definition fsign (b : Z) : bool := 2 ^ 63 <=? b.
Definition fexp (b : Z) : Z := (b / 2 ^ 52) mod 2048.
Definition ffrac (b : Z) : Z := b mod 2 ^ 52.
Definition is_nan (b : Z) : bool := (fexp b =? 2047) && negb (ffrac b =? 0).
Definition is_inf (b : Z) : bool := (fexp b =? 2047) && (ffrac b =? 0).

(* a finite float denotes m * 2^e *)
Definition fval (b : Z) : Z * Z :=
  let m := if fexp b =? 0 then ffrac b else 2 ^ 52 + ffrac b in
  let e := (if fexp b =? 0 then 1 else fexp b) - 1075 in
  ((if fsign b then - m else m), e).

(* exact comparison of two dyadic numbers *)
Definition dy_cmp (x y : Z * Z) : comparison :=
  let '(m1, e1) := x in let '(m2, e2) := y in
  let e := Z.min e1 e2 in
  Z.compare (m1 * 2 ^ (e1 - e)) (m2 * 2 ^ (e2 - e)).

(* IEEE comparison; None = unordered *)
Definition fcmp (a b : Z) : option comparison :=
  if is_nan a || is_nan b then None
  else if is_inf a then
    (if is_inf b then Some (if Bool.eqb (fsign a) (fsign b) then Eq else if fsign a then Lt else Gt)
     else Some (if fsign a then Lt else Gt))
  else if is_inf b then Some (if fsign b then Gt else Lt)
  else Some (dy_cmp (fval a) (fval b)).

(* float64(int64): round to nearest, ties to even *)
Definition f_of_int (z : Z) : Z :=
  if z =? 0 then 0 else
  let s := z <? 0 in let a := Z.abs z in
  let l := Z.log2 a in
  let '(m, e) :=
    if l <=? 52 then (a * 2 ^ (52 - l), l)
    else let sh := l - 52 in
         let q := a / 2 ^ sh in let r := a mod 2 ^ sh in let half := 2 ^ (sh - 1) in
         let q' := if (half <? r) || ((r =? half) && Z.odd q) then q + 1 else q in
         if q' =? 2 ^ 53 then (2 ^ 52, l + 1) else (q', l) in
  (if s then 2 ^ 63 else 0) + (e + 1023) * 2 ^ 52 + (m - 2 ^ 52).

(* int64(float64) for a finite float whose truncation fits: toward zero *)
Definition f_trunc (b : Z) : Z :=
  let '(m, e) := fval b in
  if 0 <=? e then m * 2 ^ e else Z.quot m (2 ^ (- e)).

(* exact comparison of a non-NaN float with an integer *)
Definition f_cmp_int (r : Z) (z : Z) : comparison :=
  if is_inf r then (if fsign r then Lt else Gt) else dy_cmp (fval r) (z, 0).

(* Go's comparison operators on float64 (IEEE-754: every comparison with a NaN is false, except !=) *)
Definition go_flt (a b : Z) : bool := match fcmp a b with Some Lt => true | _ => false end.
Definition go_fgt (a b : Z) : bool := match fcmp a b with Some Gt => true | _ => false end.
Definition go_fle (a b : Z) : bool := match fcmp a b with Some Lt | Some Eq => true | _ => false end.
Definition go_fge (a b : Z) : bool := match fcmp a b with Some Gt | Some Eq => true | _ => false end.
Definition go_feq (a b : Z) : bool := match fcmp a b with Some Eq => true | _ => false end.
Definition go_fne (a b : Z) : bool := negb (go_feq a b).
