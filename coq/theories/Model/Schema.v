(* db/schema.go: newSchema / newCreateTable / addCreateIndex / toIndexColumns /
   addIndex / setPK / sameIndexColumns / isRowid and db/affinity.go, over the
   statements the translated parser (Model/SqlParse.v) produces.  Identifier
   case folding is ASCII, as in the code.  A DEFAULT whose text is a real literal
   under a numeric affinity goes through the model of strconv.ParseFloat
   (Model/Tokenizer.v) and Go's float conversions (Model/Float.v). *)
From Coq Require Import ZArith List String Bool Ascii.
From SQ Require Import Model.Base Model.Text Model.Float Model.SqlParse Model.Tokenizer.
Import ListNotations.
Open Scope string_scope.
Open Scope Z_scope.

Definition lower_ascii (c : ascii) : ascii :=
  let n := nat_of_ascii c in
  if (Nat.leb 65 n && Nat.leb n 90)%bool then ascii_of_nat (n + 32) else c.
Fixpoint lower_str (s : string) : string :=
  match s with EmptyString => EmptyString | String c r => String (lower_ascii c) (lower_str r) end.
Definition eq_fold (a b : string) : bool := String.eqb (lower_str a) (lower_str b).

(* a column default after affinity *)
Inductive dflt := DNull | DInt (z : Z) | DReal (bits : Z) | DText (s : string) | DUnknown.

Record icolS := { c_col : string; c_expr : string; c_coll : string; c_desc : bool }.
Record tcolS := { t_name : string; t_type : string; t_null : bool; t_default : dflt; t_coll : string; t_rowid : bool }.
Record sindexS := { i_name : string; i_cols : list icolS }.
Record schemaS := {
  sc_table : string; sc_wr : bool; sc_cols : list tcolS; sc_indexes : list sindexS;
  sc_pk : list icolS; sc_pkname : string; sc_rowidpk : bool }.

(* ---- db/affinity.go ---- *)
Inductive aff := ABlob | AText | ANumeric | AInteger | AReal.

Fixpoint prefix_of (p s : string) : bool :=
  match p, s with
  | EmptyString, _ => true
  | String a p', String b s' => Ascii.eqb a b && prefix_of p' s'
  | _, EmptyString => false
  end.
Fixpoint contains (p s : string) : bool :=
  prefix_of p s || match s with EmptyString => false | String _ r => contains p r end.

Definition column_affinity (typ : string) : aff :=
  let t := upper_str typ in
  if contains "INT" t then AInteger
  else if contains "CHAR" t || contains "CLOB" t || contains "TEXT" t then AText
  else if String.eqb t "" || contains "BLOB" t then ABlob
  else if contains "REAL" t || contains "FLOA" t || contains "DOUB" t then AReal
  else ANumeric.

Definition is_space (c : ascii) : bool := let n := nat_of_ascii c in Nat.eqb n 32 || (Nat.leb 9 n && Nat.leb n 13).
Definition is_digit (c : ascii) : bool := let n := nat_of_ascii c in Nat.leb 48 n && Nat.leb n 57.
Fixpoint ltrim (s : string) : string := match s with String c r => if is_space c then ltrim r else s | _ => s end.
Fixpoint rev_str (s acc : string) : string := match s with EmptyString => acc | String c r => rev_str r (String c acc) end.
Definition trim (s : string) : string := rev_str (ltrim (rev_str (ltrim s) "")) "".

Fixpoint span_digits (s : string) (n : nat) (acc : Z) : nat * Z * string :=
  match s with
  | String c r => if is_digit c then span_digits r (S n) (acc * 10 + Z.of_nat (nat_of_ascii c - 48)) else (n, acc, s)
  | EmptyString => (n, acc, s)
  end.

(* textToNumber: None = not a number; Some (Some z) = an integer literal in int64; Some None = needs ParseFloat *)
Definition text_to_number (s0 : string) : option (option Z) :=
  let s := trim s0 in
  let '(neg, s1) := match s with
                    | String c r => if Ascii.eqb c "-"%char then (true, r) else if Ascii.eqb c "+"%char then (false, r) else (false, s)
                    | _ => (false, s)
                    end in
  let '(nd, v, s2) := span_digits s1 0 0 in
  let '(pure, nd2, s3) :=
    match s2 with
    | String c r => if Ascii.eqb c "."%char then let '(m, _, r') := span_digits r 0 0 in (false, (nd + m)%nat, r') else (true, nd, s2)
    | _ => (true, nd, s2)
    end in
  if Nat.eqb nd2 0 then None else
  let exp_ok :=
    match s3 with
    | EmptyString => Some pure
    | String c r =>
      if Ascii.eqb c "e"%char || Ascii.eqb c "E"%char then
        let r1 := match r with String d r' => if Ascii.eqb d "+"%char || Ascii.eqb d "-"%char then r' else r | _ => r end in
        let '(ne, _, r2) := span_digits r1 0 0 in
        if Nat.eqb ne 0 then None else match r2 with EmptyString => Some false | _ => None end
      else None
    end in
  match exp_ok with
  | None => None
  | Some true =>
    let z := if neg then - v else v in
    if (- 2 ^ 63 <=? z) && (z <? 2 ^ 63) then Some (Some z) else Some None
  | Some false => Some None
  end.

(* float64(int64): Model/Float.v's f_of_int, restated here to keep this file free of the byte-level models *)
Definition f_of_int (z : Z) : Z :=
  if z =? 0 then 0 else
  let s := z <? 0 in let a := Z.abs z in
  let l := Z.log2 a in
  let '(m, e) :=
    if l <=? 52 then (a * 2 ^ (52 - l), l)
    else let sh := l - 52 in
         let q := a / 2 ^ sh in let r := a mod 2 ^ sh in let half := 2 ^ (sh - 1) in
         let q' := if (half <? r) || ((r =? half) && Z.odd q) then q + 1 else q in
         if q' =? 2 ^ 53 then (2 ^ 52, l + 1) else (q', l) in
  (if s then 2 ^ 63 else 0) + (e + 1023) * 2 ^ 52 + (m - 2 ^ 52).

(* textToNumber's second half: strconv.ParseFloat (an overflow is +-Inf), then the integer test *)
Definition real_text_value (a : aff) (s0 : string) : dflt :=
  let t := trim s0 in
  let '(neg, body) := match t with
                      | String c r => if Ascii.eqb c "-"%char then (true, r) else if Ascii.eqb c "+"%char then (false, r) else (false, t)
                      | _ => (false, t)
                      end in
  let mag := match parse_float (bytes_of_string body) with Some b => b | None => 2047 * 2 ^ 52 end in
  let f := if neg then mag + 2 ^ 63 else mag in
  if is_inf f then DReal f else
  match f_cmp_int f (- 2 ^ 63), f_cmp_int f (2 ^ 63) with
  | Gt, Lt =>
    let n := f_trunc f in
    if (match fcmp (Float.f_of_int n) f with Some Eq => true | _ => false end) && (- 2 ^ 63 <? n) && (n <? 2 ^ 63 - 1)
    then match a with AReal => DReal (Float.f_of_int n) | _ => DInt n end
    else DReal f
  | _, _ => DReal f
  end.

Definition default_with_affinity (typ : string) (d : val) : dflt :=
  let a := column_affinity typ in
  match strip d with
  | VZero => DNull
  | VBool b => let n := if b then 1 else 0 in match a with AReal => DReal (f_of_int n) | _ => DInt n end
  | VInt z => match a with AText => DText (dec_of_Z z) | AReal => DReal (f_of_int z) | _ => DInt z end
  | VStr s =>
    match a with
    | ANumeric | AInteger | AReal =>
      match text_to_number s with
      | None => DText s
      | Some (Some z) => match a with AReal => DReal (f_of_int z) | _ => DInt z end
      | Some None => real_text_value a s
      end
    | _ => DText s
    end
  | _ => DUnknown
  end.

(* ---- db/schema.go ---- *)
Definition coll_norm (c : string) : string := if String.eqb c "" then "binary" else lower_str c.

Fixpoint same_index_columns (a b : list icolS) : bool :=
  match a, b with
  | [], [] => true
  | x :: a', y :: b' => eq_fold (c_col x) (c_col y) && String.eqb (coll_norm (c_coll x)) (coll_norm (c_coll y)) && same_index_columns a' b'
  | _, _ => false
  end.

Definition is_rowid (table_constraint : bool) (typ : string) (desc : bool) : bool :=
  String.eqb (upper_str typ) "INTEGER" && (table_constraint || negb desc).

Fixpoint find_col (cols : list tcolS) (name : string) (i : nat) : option (nat * tcolS) :=
  match cols with
  | [] => None
  | c :: r => if eq_fold (t_name c) name then Some (i, c) else find_col r name (S i)
  end.
Definition column (st : schemaS) (name : string) : option (nat * tcolS) := find_col (sc_cols st) name 0.

Fixpoint update_nth {A} (n : nat) (f : A -> A) (l : list A) : list A :=
  match l, n with
  | [], _ => []
  | x :: r, O => f x :: r
  | x :: r, S k => x :: update_nth k f r
  end.

Definition set_cols (st : schemaS) (cols : list tcolS) : schemaS :=
  {| sc_table := sc_table st; sc_wr := sc_wr st; sc_cols := cols; sc_indexes := sc_indexes st; sc_pk := sc_pk st; sc_pkname := sc_pkname st; sc_rowidpk := sc_rowidpk st |}.
Definition set_indexes (st : schemaS) (ix : list sindexS) : schemaS :=
  {| sc_table := sc_table st; sc_wr := sc_wr st; sc_cols := sc_cols st; sc_indexes := ix; sc_pk := sc_pk st; sc_pkname := sc_pkname st; sc_rowidpk := sc_rowidpk st |}.
Definition set_pk_cols (st : schemaS) (pk : list icolS) : schemaS :=
  {| sc_table := sc_table st; sc_wr := sc_wr st; sc_cols := sc_cols st; sc_indexes := sc_indexes st; sc_pk := pk; sc_pkname := sc_pkname st; sc_rowidpk := sc_rowidpk st |}.
Definition set_pkname (st : schemaS) (n : string) : schemaS :=
  {| sc_table := sc_table st; sc_wr := sc_wr st; sc_cols := sc_cols st; sc_indexes := sc_indexes st; sc_pk := sc_pk st; sc_pkname := n; sc_rowidpk := sc_rowidpk st |}.
Definition set_rowidpk (st : schemaS) : schemaS :=
  {| sc_table := sc_table st; sc_wr := sc_wr st; sc_cols := sc_cols st; sc_indexes := sc_indexes st; sc_pk := sc_pk st; sc_pkname := sc_pkname st; sc_rowidpk := true |}.

(* setPK: the first equal index is removed and gives the key its columns *)
Fixpoint take_same (ix : list sindexS) (cols : list icolS) : option (sindexS * list sindexS) :=
  match ix with
  | [] => None
  | i :: r => if same_index_columns (i_cols i) cols then Some (i, r)
              else match take_same r cols with Some (f, r') => Some (f, i :: r') | None => None end
  end.
Definition set_pk (st : schemaS) (cols : list icolS) : schemaS * bool :=
  match take_same (sc_indexes st) cols with
  | Some (i, rest) => (set_indexes (set_pk_cols st (i_cols i)) rest, true)
  | None => (set_pk_cols st cols, false)
  end.

(* addIndex *)
Definition add_index (st : schemaS) (pk : bool) (name : string) (cols : list icolS) : schemaS * bool :=
  if same_index_columns (sc_pk st) cols then (st, false)
  else match find (fun i => same_index_columns (i_cols i) cols) (sc_indexes st) with
       | Some i => ((if pk then set_pkname st (i_name i) else st), false)
       | None =>
         let st' := set_indexes st (sc_indexes st ++ [{| i_name := name; i_cols := cols |}]) in
         ((if pk then set_pkname st' name else st'), true)
       end.

Definition bool_of (v : val) : bool := match strip v with VBool b => b | _ => false end.
Definition desc_of (v : val) : bool := match v with VNamed _ (VInt 1) => true | _ => false end.
Definition list_of (v : val) : list val := match v with VList l => l | _ => [] end.
Definition fields_of (v : val) : list (string * val) := match v with VStruct _ fs => fs | _ => [] end.

(* toIndexColumns *)
Definition to_index_columns (st : schemaS) (ci : list val) : list icolS :=
  map (fun v =>
         let fs := fields_of v in
         let col := str_of (field "Column" fs) in
         let coll := str_of (field "Collate" fs) in
         {| c_col := col; c_expr := str_of (field "Expression" fs);
            c_coll := (if String.eqb col "" then coll
                       else match column st col with
                            | Some (_, base) => if String.eqb coll "" then t_coll base else coll
                            | None => ""
                            end);
            c_desc := desc_of (field "SortOrder" fs) |}) ci.

Definition autoindex_name (table : string) (n : Z) : string := "sqlite_autoindex_" ++ table ++ "_" ++ dec_of_Z n.

Record nct := { n_st : schemaS; n_auto : Z; n_late : bool }.

(* lateUnique *)
Definition late_unique (s : nct) (cols : list icolS) : nct :=
  if n_late s && same_index_columns (sc_pk (n_st s)) cols
  then {| n_st := set_pk_cols (n_st s) cols; n_auto := n_auto s + 1; n_late := false |}
  else s.

(* one column definition *)
Definition nct_column (wr : bool) (s : nct) (c : val) : nct :=
  let fs := fields_of c in
  let name := str_of (field "Name" fs) in
  let typ := str_of (field "Type" fs) in
  let coll := str_of (field "Collate" fs) in
  let null := bool_of (field "Null" fs) in
  let pk := bool_of (field "PrimaryKey" fs) in
  let pkdesc := desc_of (field "PrimaryKeyDir" fs) in
  let rowid := pk && negb wr && is_rowid false typ pkdesc in
  let col := {| t_name := name; t_type := typ; t_null := (if pk then negb wr && null else null);
                t_default := default_with_affinity typ (field "Default" fs); t_coll := coll; t_rowid := rowid |} in
  let one desc := [{| c_col := name; c_expr := ""; c_coll := coll; c_desc := desc |}] in
  let s1 :=
    if pk then
      if wr then
        let '(st', merged) := set_pk (n_st s) (one pkdesc) in
        if merged then {| n_st := st'; n_auto := n_auto s; n_late := n_late s |}
        else if is_rowid false typ pkdesc then {| n_st := st'; n_auto := n_auto s; n_late := true |}
        else {| n_st := st'; n_auto := n_auto s + 1; n_late := n_late s |}
      else if rowid then {| n_st := set_rowidpk (n_st s); n_auto := n_auto s; n_late := n_late s |}
      else let '(st', added) := add_index (n_st s) true (autoindex_name (sc_table (n_st s)) (n_auto s)) (one pkdesc) in
           {| n_st := st'; n_auto := (if added then n_auto s + 1 else n_auto s); n_late := n_late s |}
    else s in
  let s2 :=
    if bool_of (field "Unique" fs) then
      let s' := late_unique s1 (one false) in
      let '(st', added) := add_index (n_st s') false (autoindex_name (sc_table (n_st s')) (n_auto s')) (one false) in
      {| n_st := st'; n_auto := (if added then n_auto s' + 1 else n_auto s'); n_late := n_late s' |}
    else s1 in
  {| n_st := set_cols (n_st s2) (sc_cols (n_st s2) ++ [col]); n_auto := n_auto s2; n_late := n_late s2 |}.

Fixpoint dedup_pk (pk : list icolS) (uniq : list icolS) : list icolS :=
  match pk with
  | [] => uniq
  | co :: r => if existsb (fun have => same_index_columns [have] [co]) uniq then dedup_pk r uniq else dedup_pk r (uniq ++ [co])
  end.

(* one table constraint *)
Definition nct_constraint (wr : bool) (s : nct) (c : val) : nct :=
  match c with
  | VStruct n fs =>
    if String.eqb n "TablePrimaryKey" then
    let ics := list_of (field "IndexedColumns" fs) in
    let first_col := match ics with [v] => Some (str_of (field "Column" (fields_of v)), desc_of (field "SortOrder" (fields_of v))) | _ => None end in
    let alias :=
      if wr then None
      else match first_col with
           | Some (cn, d) => match column (n_st s) cn with
                             | Some (i, col) => if is_rowid true (t_type col) d then Some i else None
                             | None => None
                             end
           | None => None
           end in
    match alias with
    | Some i =>
      {| n_st := set_rowidpk (set_cols (n_st s) (update_nth i (fun col => {| t_name := t_name col; t_type := t_type col; t_null := t_null col; t_default := t_default col; t_coll := t_coll col; t_rowid := true |}) (sc_cols (n_st s))));
         n_auto := n_auto s; n_late := n_late s |}
    | None =>
      if wr then
        (* the key's columns become NOT NULL *)
        let cols1 := fold_left (fun cols v =>
                                  match find_col cols (str_of (field "Column" (fields_of v))) 0 with
                                  | Some (i, _) => update_nth i (fun col => {| t_name := t_name col; t_type := t_type col; t_null := false; t_default := t_default col; t_coll := t_coll col; t_rowid := t_rowid col |}) cols
                                  | None => cols
                                  end) ics (sc_cols (n_st s)) in
        let st1 := set_cols (n_st s) cols1 in
        let int_pk := match first_col with
                      | Some (cn, d) => match column st1 cn with Some (_, col) => is_rowid true (t_type col) d | None => false end
                      | None => false
                      end in
        let pk0 := to_index_columns st1 ics in
        let pk1 := if int_pk then
                     match pk0 with
                     | p :: r => {| c_col := c_col p; c_expr := c_expr p;
                                    c_coll := (match column st1 (c_col p) with Some (_, col) => t_coll col | None => "" end);
                                    c_desc := c_desc p |} :: r
                     | [] => []
                     end
                   else pk0 in
        let '(st2, merged) := set_pk st1 pk1 in
        let auto' := if merged then n_auto s else if int_pk then n_auto s else n_auto s + 1 in
        let late' := if merged then n_late s else if int_pk then true else n_late s in
        {| n_st := set_pk_cols st2 (dedup_pk (sc_pk st2) []); n_auto := auto'; n_late := late' |}
      else
        let '(st', added) := add_index (n_st s) true (autoindex_name (sc_table (n_st s)) (n_auto s)) (to_index_columns (n_st s) ics) in
        {| n_st := st'; n_auto := (if added then n_auto s + 1 else n_auto s); n_late := n_late s |}
    end
    else if String.eqb n "TableUnique" then
    let cols := to_index_columns (n_st s) (list_of (field "IndexedColumns" fs)) in
    let s' := late_unique s cols in
    let '(st', added) := add_index (n_st s') false (autoindex_name (sc_table (n_st s')) (n_auto s')) cols in
    {| n_st := st'; n_auto := (if added then n_auto s' + 1 else n_auto s'); n_late := n_late s' |}
    else s
  | _ => s
  end.

(* newCreateTable *)
Definition new_create_table (ct : val) : schemaS :=
  let fs := fields_of ct in
  let wr := bool_of (field "WithoutRowid" fs) in
  let init := {| n_st := {| sc_table := str_of (field "Table" fs); sc_wr := wr; sc_cols := []; sc_indexes := []; sc_pk := []; sc_pkname := ""; sc_rowidpk := false |};
                 n_auto := 1; n_late := false |} in
  let s1 := fold_left (nct_column wr) (list_of (field "Columns" fs)) init in
  n_st (fold_left (nct_constraint wr) (list_of (field "Constraints" fs)) s1).

(* addCreateIndex *)
Definition add_create_index (st : schemaS) (ci : val) : schemaS :=
  let fs := fields_of ci in
  set_indexes st (sc_indexes st ++ [{| i_name := str_of (field "Index" fs); i_cols := to_index_columns st (list_of (field "IndexedColumns" fs)) |}]).

(* newSchema, from the parse results of the table's and its indexes' SQL texts *)
Definition new_schema (table : outcome) (indexes : list outcome) : option schemaS :=
  match table with
  | Accept (VStruct "CreateTableStmt" fs) =>
    Some (fold_left (fun st o => match o with
                                 | Accept (VStruct "CreateIndexStmt" ifs) => add_create_index st (VStruct "CreateIndexStmt" ifs)
                                 | _ => st     (* silently ignore indexes we don't understand *)
                                 end) indexes (new_create_table (VStruct "CreateTableStmt" fs)))
  | _ => None
  end.

(* ---- the dump of harness/hcommon ShowSchema ---- *)
Definition hex_digit (n : nat) : ascii := ascii_of_nat (if Nat.ltb n 10 then 48 + n else 87 + n).
Fixpoint hex_str (s : string) : string :=
  match s with
  | EmptyString => EmptyString
  | String c r => let n := nat_of_ascii c in String (hex_digit (Nat.div n 16)) (String (hex_digit (Nat.modulo n 16)) (hex_str r))
  end.
Definition hxl (s : string) : string := hex_str (lower_str s).

Fixpoint hex16 (fuel : nat) (z : Z) (acc : string) : string :=
  match fuel with O => acc | S k => hex16 k (z / 16) (String (hex_digit (Z.to_nat (z mod 16))) acc) end.

Definition show_dflt (d : dflt) : string :=
  match d with
  | DNull => "n" | DInt z => "i" ++ dec_of_Z z | DReal b => "f" ++ hex16 16 b "" | DText s => "t" ++ hex_str s | DUnknown => "?"
  end.

Definition show_icols (cs : list icolS) : string :=
  match cs with
  | [] => "-"
  | _ => join_str "+" (map (fun c => hxl (c_col c) ++ ":" ++ hxl (c_coll c) ++ ":" ++ (if c_desc c then "d" else "a")) cs)
  end.

Definition b2 (b : bool) : string := if b then "1" else "0".

Definition show_schema (s : schemaS) : string :=
  join_str ";" [b2 (sc_wr s); b2 (sc_rowidpk s);
                (match sc_cols s with [] => "-" | cs => join_str "," (map (fun c => hxl (t_name c) ++ ":" ++ b2 (t_rowid c) ++ ":" ++ show_dflt (t_default c)) cs) end);
                show_icols (sc_pk s);
                (if String.eqb (sc_pkname s) "" then "-" else hxl (sc_pkname s));
                (match sc_indexes s with [] => "-" | is => join_str "/" (map (fun i => hxl (i_name i) ++ "=" ++ show_icols (i_cols i)) is) end)].

(* further observations the dump does not carry: NOT NULL flags and collations of the table's columns *)
Definition show_columns_extra (s : schemaS) : string :=
  join_str "," (map (fun c => b2 (t_null c) ++ ":" ++ hxl (t_coll c)) (sc_cols s)).

(* from the tokenizer's output (the implementation's) to the dump; None for an index = its text did not tokenize *)
Definition schema_of_tokens (fuel : nat) (table : list token) (indexes : list (option (list token))) : string :=
  match new_schema (parse_tokens fuel table)
                   (map (fun o => match o with Some t => parse_tokens fuel t | None => Reject VZero end) indexes) with
  | Some s => show_schema s ++ " " ++ show_columns_extra s
  | None => "err"
  end.
