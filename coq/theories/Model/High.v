(* The high level API: select.go, indexed_select.go, sqlite.go, key.go and the
   entry points of sqlittle.go, as functions of a pager and of the table's
   Schema (db.Schema as interpreted by db/schema.go - that interpretation
   itself is the subject of C10 and is modelled in Model/Schema.v). *)
From SQ Require Import Model.Base Model.Varint Model.Record Model.Payload Model.Btree
     Model.Page Model.Cmp Model.Low.

(* names are ASCII-lower-cased byte strings *)
Record tcol := { tc_name : list byte; tc_rowid : bool; tc_default : value }.
(* ic_coll: lower-cased collation name, [] when the column names none *)
Record icol := { ic_name : list byte; ic_coll : list byte; ic_desc : bool }.
Record sindex := { si_name : list byte; si_cols : list icol }.
Record schema := {
  s_worowid : bool;
  s_cols : list tcol;
  s_rowidpk : bool;
  s_pk : list icol;                 (* WITHOUT ROWID tables only *)
  s_pkname : list byte;             (* rowid tables: name of the PK index, lower-cased, [] if none *)
  s_indexes : list sindex }.

Definition row := list value.

Fixpoint beq (a b : list byte) : bool :=
  match a, b with
  | [], [] => true
  | x :: a', y :: b' => Byte.eqb x y && beq a' b'
  | _, _ => false
  end.

Definition name_binary : list byte := [x62; x69; x6e; x61; x72; x79].
Definition name_rtrim : list byte := [x72; x74; x72; x69; x6d].
Definition name_nocase : list byte := [x6e; x6f; x63; x61; x73; x65].
Definition name_rowid : list byte := [x72; x6f; x77; x69; x64].
Definition name_oid : list byte := [x6f; x69; x64].
Definition name__rowid_ : list byte := [x5f; x72; x6f; x77; x69; x64; x5f].
Definition name_table : list byte := [x74; x61; x62; x6c; x65].
Definition name_index : list byte := [x69; x6e; x64; x65; x78].

(* CollateFuncs lookup *)
Definition coll_of_name (n : list byte) : option collation :=
  if beq n name_binary then Some CBinary
  else if beq n name_rtrim then Some CRtrim
  else if beq n name_nocase then Some CNocase
  else None.

(* Schema.Column: index of the named column, -1 if absent *)
Fixpoint column_idx (cols : list tcol) (n : list byte) (i : Z) : Z :=
  match cols with
  | [] => -1
  | c :: r => if beq (tc_name c) n then i else column_idx r n (i + 1)
  end.

(* columnIndex: rowid pseudo column, or (position in the stored record, default) *)
Inductive cidx := CRowid | CCol (pos : Z) (dflt : value).

(* toRow *)
Definition to_row (rowid : Z) (cis : list cidx) (r : record) : row :=
  map (fun c => match c with
                | CRowid => VInt rowid
                | CCol pos dflt =>
                  if Z.of_nat (length r) <=? pos then dflt else nth (Z.to_nat pos) r VNull
                end) cis.

(* toColumnIndexRowid; EOther = "no such column" *)
Fixpoint to_ci_rowid (sc : schema) (columns : list (list byte)) : res (list cidx) :=
  match columns with
  | [] => Ok []
  | c :: rest =>
    let c := ascii_lower c in
    let n := column_idx (s_cols sc) c 0 in
    do x <- (if n <? 0 then
               if beq c name_rowid || beq c name_oid || beq c name__rowid_ then Ok CRowid
               else Err EOther
             else
               match nth_error (s_cols sc) (Z.to_nat n) with
               | Some col => if tc_rowid col then Ok CRowid else Ok (CCol n (tc_default col))
               | None => Err EPanic
               end);
    do xs <- to_ci_rowid sc rest;
    Ok (x :: xs)
  end.

(* columnStoreOrder: the names in disk order (PK columns first) *)
Definition store_names (sc : schema) : list (list byte) :=
  fold_left (fun acc c => if existsb (beq (tc_name c)) acc then acc else acc ++ [tc_name c])
            (s_cols sc) (map ic_name (s_pk sc)).

Fixpoint name_pos (names : list (list byte)) (n : list byte) (j : Z) : Z :=
  match names with
  | [] => 0           (* res[i] keeps its zero value; not reachable, every column is in the list *)
  | m :: r => if beq m n then j else name_pos r n (j + 1)
  end.

(* res := make([]int, len(schema.Columns)); res[i] = position of column i's name *)
Definition store_order (sc : schema) : res (list Z) :=
  let names := store_names sc in
  Ok (map (fun c => name_pos names (tc_name c) 0) (s_cols sc)).

(* toColumnIndexNonRowid *)
Definition to_ci_nonrowid (sc : schema) (columns : list (list byte)) : res (list cidx) :=
  do stored <- store_order sc;
  (fix go (cs : list (list byte)) : res (list cidx) :=
     match cs with
     | [] => Ok []
     | c :: rest =>
       let n := column_idx (s_cols sc) (ascii_lower c) 0 in
       if n <? 0 then Err EOther
       else match nth_error (s_cols sc) (Z.to_nat n), nth_error stored (Z.to_nat n) with
            | Some col, Some pos => do xs <- go rest; Ok (CCol pos (tc_default col) :: xs)
            | _, _ => Err EPanic
            end
     end) columns.

(* pkColumns: positions of the primary key columns in an index entry; the
   index's column list grows by the PK columns it does not have yet (same
   name and same collation, "" meaning binary) *)
Definition coll_norm (c : list byte) : list byte := match c with [] => name_binary | _ => c end.

Fixpoint find_icol (cols : list icol) (c : icol) (i : Z) : option Z :=
  match cols with
  | [] => None
  | ic :: r => if beq (ic_name ic) (ic_name c) && beq (coll_norm (ic_coll ic)) (coll_norm (ic_coll c))
               then Some i else find_icol r c (i + 1)
  end.

Fixpoint pk_columns (pk : list icol) (indcols : list icol) : list Z :=
  match pk with
  | [] => []
  | c :: rest =>
    match find_icol indcols c 0 with
    | Some i => i :: pk_columns rest indcols
    | None => Z.of_nat (length indcols) :: pk_columns rest (indcols ++ [c])
    end
  end.

(* asDbKey for keys of storable values *)
Fixpoint as_dbkey (k : list value) (cols : list icol) : res key :=
  match k with
  | [] => Ok []
  | v :: k' =>
    match cols with
    | [] => Err EOther                      (* too many columns in Key *)
    | c :: cols' =>
      do coll <- (match ic_coll c with
                  | [] => Ok CBinary
                  | n => match coll_of_name n with Some cl => Ok cl | None => Err EOther end
                  end);
      do rest <- as_dbkey k' cols';
      Ok ({| kv := v; kcoll := coll; kdesc := ic_desc c |} :: rest)
    end
  end.

(* setKey *)
Fixpoint set_key (r : record) (idx : list Z) (k : key) : res key :=
  match idx, k with
  | [], _ => Ok k
  | v :: idx', kc :: k' =>
    if Z.of_nat (length r) <=? v then Err ECorrupt
    else do rest <- set_key r idx' k';
         Ok ({| kv := nth (Z.to_nat v) r VNull; kcoll := kcoll kc; kdesc := kdesc kc |} :: rest)
  | _ :: _, [] => Err EPanic       (* key shorter than the index list: not reachable *)
  end.

Section High.
  Variable pg : Z -> res (list byte).
  Variable op : Z -> res page.   (* Database.openPage: the parsed page n *)
  Variable npages : nat.

  (* Database.Table / NonRowidTable / Index: root page from sqlite_master *)
  Definition find_root (ms : list master_row) (typ name : list byte) : res Z :=
    match find (fun m => beq (m_typ m) typ && beq (m_name m) (ascii_lower name)) ms with
    | Some m => Ok (m_root m)
    | None => Err ENoSuch
    end.

  Definition find_index (sc : schema) (name : list byte) : option sindex :=
    find (fun i => beq (si_name i) (ascii_lower name)) (s_indexes sc).

  Section CB.
    Variable S : Type.
    Variable cb : row -> S -> flow * S.

    Definition failing {A} (x : res A) (s : S) (k : A -> flow * S) : flow * S :=
      match x with Ok a => k a | Err e => (Fail e, s) end.

    (* everything starts with Database.Schema(), i.e. master() *)
    Definition with_master (s : S) (k : list master_row -> flow * S) : flow * S :=
      match master pg op npages with
      | (Continue, ms) => k ms
      | (Fail e, _) => (Fail e, s)
      | (Stop, ms) => k ms
      end.

    (* SelectDone *)
    Definition h_select (sc : schema) (table : list byte) (columns : list (list byte)) (s : S) : flow * S :=
      with_master s (fun ms =>
        if s_worowid sc then
          failing (to_ci_nonrowid sc columns) s (fun ci =>
          failing (find_root ms name_table table) s (fun root =>
            index_scan pg op npages S root (fun r s => cb (to_row 0 ci r) s) s))
        else
          failing (to_ci_rowid sc columns) s (fun ci =>
          failing (find_root ms name_table table) s (fun root =>
            table_scan pg op npages S root (fun rowid r s => cb (to_row rowid ci r) s) s))).

    (* selectRowid *)
    Definition select_rowid_ (sc : schema) (ms : list master_row) (table : list byte) (rowid : Z)
               (columns : list (list byte)) : res (option row) :=
      do ci <- to_ci_rowid sc columns;
      do root <- find_root ms name_table table;
      do r <- table_rowid pg op npages root rowid;
      match r with
      | None => Ok None
      | Some rec => Ok (Some (to_row rowid ci rec))
      end.

    (* SelectRowid *)
    Definition h_select_rowid (sc : schema) (table : list byte) (rowid : Z) (columns : list (list byte))
               (s : S) : flow * S :=
      with_master s (fun ms =>
        if s_worowid sc then (Fail EOther, s)
        else failing (select_rowid_ sc ms table rowid columns) s (fun r =>
               match r with None => (Continue, s) | Some rw => cb rw s end)).

    (* the callback of the indexed selects on rowid tables *)
    Definition via_rowid (ci : list cidx) (troot : Z) (r : record) (s : S) : flow * S :=
      match chomp_rowid r with
      | Err e => (Fail e, s)
      | Ok (rowid, _) =>
        match table_rowid pg op npages troot rowid with
        | Err e => (Fail e, s)
        | Ok None => (Fail ECorrupt, s)
        | Ok (Some rec) => cb (to_row rowid ci rec) s
        end
      end.

    (* ... and on WITHOUT ROWID tables *)
    Definition via_pk (ci : list cidx) (troot : Z) (cols : list Z) (pk : key) (r : record) (s : S)
      : flow * S :=
      match set_key r cols pk with
      | Err e => (Fail e, s)
      | Ok pk' =>
        match index_scan_eq pg op npages (option record) troot pk' (fun row _ => (Stop, nonempty row)) None with   (* found = row; a nil row reads as not found *)
        | (Fail e, _) => (Fail e, s)
        | (_, None) => (Fail ECorrupt, s)
        | (_, Some found) => cb (to_row 0 ci found) s
        end
      end.

    Definition null_key (n : nat) : list value := repeat VNull n.

    (* IndexedSelect *)
    Definition h_indexed_select (sc : schema) (table iname : list byte) (columns : list (list byte))
               (s : S) : flow * S :=
      with_master s (fun ms =>
        match find_index sc iname with
        | None => (Fail EOther, s)
        | Some ind =>
          if s_worowid sc then
            failing (to_ci_nonrowid sc columns) s (fun ci =>
            failing (find_root ms name_table table) s (fun troot =>
            failing (find_root ms name_index (si_name ind)) s (fun iroot =>
            let cols := pk_columns (s_pk sc) (si_cols ind) in
            failing (as_dbkey (null_key (length (s_pk sc))) (s_pk sc)) s (fun pk =>
              index_scan pg op npages S iroot (via_pk ci troot cols pk) s))))
          else
            failing (to_ci_rowid sc columns) s (fun ci =>
            failing (find_root ms name_table table) s (fun troot =>
            failing (find_root ms name_index (si_name ind)) s (fun iroot =>
              index_scan pg op npages S iroot (via_rowid ci troot) s)))
        end).

    Definition indexed_select_eq_ (sc : schema) (ms : list master_row) (table : list byte) (ind : sindex)
               (dbkey : key) (columns : list (list byte)) (s : S) : flow * S :=
      failing (to_ci_rowid sc columns) s (fun ci =>
      failing (find_root ms name_table table) s (fun troot =>
      failing (find_root ms name_index (si_name ind)) s (fun iroot =>
        index_scan_eq pg op npages S iroot dbkey (via_rowid ci troot) s))).

    (* IndexedSelectEq *)
    Definition h_indexed_select_eq (sc : schema) (table iname : list byte) (k : list value)
               (columns : list (list byte)) (s : S) : flow * S :=
      with_master s (fun ms =>
        match find_index sc iname with
        | None => (Fail EOther, s)
        | Some ind =>
          failing (as_dbkey k (si_cols ind)) s (fun dbkey =>
          if s_worowid sc then
            failing (to_ci_nonrowid sc columns) s (fun ci =>
            failing (find_root ms name_table table) s (fun troot =>
            failing (find_root ms name_index (si_name ind)) s (fun iroot =>
            let cols := pk_columns (s_pk sc) (si_cols ind) in
            failing (as_dbkey (null_key (length (s_pk sc))) (s_pk sc)) s (fun pk =>
              index_scan_eq pg op npages S iroot dbkey (via_pk ci troot cols pk) s))))
          else indexed_select_eq_ sc ms table ind dbkey columns s)
        end).

    (* PKSelect *)
    Definition h_pk_select (sc : schema) (table : list byte) (k : list value) (columns : list (list byte))
               (s : S) : flow * S :=
      with_master s (fun ms =>
        if s_worowid sc then
          failing (to_ci_nonrowid sc columns) s (fun ci =>
          failing (find_root ms name_table table) s (fun troot =>
          failing (as_dbkey k (s_pk sc)) s (fun dbkey =>
            index_scan_eq pg op npages S troot dbkey (fun r s => cb (to_row 0 ci r) s) s)))
        else if s_rowidpk sc then
          match k with
          | VInt rowid :: _ =>
            failing (select_rowid_ sc ms table rowid columns) s (fun r =>
              match r with None => (Continue, s) | Some rw => cb rw s end)
          | _ => (Fail EOther, s)
          end
        else
          match (match s_pkname sc with [] => None | n => find_index sc n end) with
          | None => (Fail EOther, s)
          | Some ind =>
            failing (as_dbkey k (si_cols ind)) s (fun dbkey =>
              indexed_select_eq_ sc ms table ind dbkey columns s)
          end).
  End CB.
End High.

(* the callbacks of Select / IndexedSelect* / PKSelect never ask to stop *)
Definition collect_hrow (limit : option Z) (r : row) (s : list row) : flow * list row :=
  let s' := r :: s in
  match limit with
  | Some k => if k <=? Z.of_nat (length s') then (Stop, s') else (Continue, s')
  | None => (Continue, s')
  end.
