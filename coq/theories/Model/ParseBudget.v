(* The step budget sql.Parse's model gives the generated parser's driver loop for a token list:
   linear in the length of the list, with constants read off the termination certificate
   (Gen/ParserCert.v).  Proofs/ParseTermP.v proves the loop never uses it up.  No proofs here. *)
From Coq Require Import ZArith List String Bool.
From SQ Require Import Gen.ParserTables Gen.ParserCert Model.SqlParse.
Import ListNotations.
Open Scope Z_scope.

Definition tokidx (t : option Z) : Z := match t with None => 0 | Some t => t + 1 end.
Definition nthL {A} (l : list A) (i : Z) : option A := if i <? 0 then None else nth_error l (Z.to_nat i).
Definition rank (s : Z) (t : option Z) : Z :=
  match nthL cert_rank s with
  | Some row => match nthZ row (tokidx t) with Some r => r | None => 0 end
  | None => 0
  end.
Definition rmax : Z := fold_left Z.max (List.concat cert_rank) 0.

Definition kk' : Z := rmax + 1.
Definition kk : Z := 2 * rmax + 3.
(* the step budget for a token list: linear in its length *)
Definition parse_budget (toks : list token) : nat :=
  S (Z.to_nat (1 + rank 0 None + kk * Z.of_nat (List.length toks) + kk')).

