(* db/low.go (Table.Scan, Table.Rowid, Index.Scan/ScanEq/ScanMin/ScanRange),
   db/database.go (openPage, master), as pure functions of a pager. *)
From SQ Require Import Model.Base Model.Varint Model.Record Model.Payload Model.Btree
     Model.Page Model.Cmp.

(* Database.openPage without the cache (the cache only memoises this pure
   function of the page bytes): page n of a pager, parsed *)
Definition openp (pg : Z -> res (list byte)) (U : Z) (n : Z) : res page :=
  do b <- db_page pg n;
  parse_page b (n =? 1) U.

(* a Go Record that is nil: no columns at all *)
Definition nonempty (r : record) : option record := match r with [] => None | _ => Some r end.

Section Low.
  Variable pg : Z -> res (list byte).   (* pager.page(n, pagesize): used for overflow pages *)
  Variable op : Z -> res page.          (* Database.openPage; [openp pg U] in every run *)
  Variable npages : nat.                (* bound on the number of readable pages *)

  Definition load (pl : cell_payload) : res record :=
    do c <- add_overflow pg npages pl;
    parse_record c.

  Section CB.
    Variable S : Type.

    (* Table.Scan *)
    Definition table_scan (root : Z) (cb : Z -> record -> S -> flow * S) (s : S) : flow * S :=
      match open_table _ op root with
      | Err e => (Fail e, s)
      | Ok p =>
        titer _ op S
              (fun rowid pl s => match load pl with
                                 | Ok rec => cb rowid rec s
                                 | Err e => (Fail e, s) end)
              max_recursion p s
      end.

    (* Index.Scan *)
    Definition index_scan (root : Z) (cb : record -> S -> flow * S) (s : S) : flow * S :=
      match open_index _ op root with
      | Err e => (Fail e, s)
      | Ok p => iiter _ _ op load S cb max_recursion p s
      end.

    (* Index.ScanMin *)
    Definition index_scan_min (root : Z) (from : key) (cb : record -> S -> flow * S) (s : S)
      : flow * S :=
      match open_index _ op root with
      | Err e => (Fail e, s)
      | Ok p => iiter_min _ _ op load S cb (search from) max_recursion p s
      end.

    (* Index.ScanEq *)
    Definition index_scan_eq (root : Z) (k : key) (cb : record -> S -> flow * S) (s : S)
      : flow * S :=
      index_scan_min root k (fun rec s => if equals k rec then cb rec s else (Stop, s)) s.

    (* Index.ScanRange *)
    Definition index_scan_range (root : Z) (from to : key) (cb : record -> S -> flow * S) (s : S)
      : flow * S :=
      index_scan_min root from (fun rec s => if search to rec then (Stop, s) else cb rec s) s.
  End CB.

  (* Table.Rowid: Ok None = not found.  The Go function returns a nil Record for "not found"; parseRecord
     gives a nil Record for a record without columns too (SQLite never writes one), so such a row is
     reported as not found *)
  Definition table_rowid (root : Z) (rowid : Z) : res (option record) :=
    match open_table _ op root with
    | Err e => Err e
    | Ok p =>
      match titer_min _ op (option cell_payload)
                      (fun k pl s => (Stop, if k =? rowid then Some pl else s))
                      max_recursion p rowid None with
      | (Fail e, _) => Err e
      | (_, None) => Ok None
      | (_, Some pl) => do rec <- load pl; Ok (nonempty rec)
      end
    end.

  (* sqlite_master rows: (type, lower name, lower tbl_name, rootpage, sql) *)
  Record master_row := { m_typ : list byte; m_name : list byte; m_tbl : list byte;
                         m_root : Z; m_sql : list byte }.

  Definition ascii_lower (s : list byte) : list byte := map lower_byte s.

  Definition master_of_record (e : record) : res master_row :=
    match e with
    | [VText t; VText n; VText tb; VInt root; sqlv] =>
      match sqlv with
      | VText sq => Ok {| m_typ := t; m_name := ascii_lower n; m_tbl := ascii_lower tb;
                          m_root := root; m_sql := sq |}
      | VNull => Ok {| m_typ := t; m_name := ascii_lower n; m_tbl := ascii_lower tb;
                       m_root := root; m_sql := [] |}
      | _ => Err EInvalidDef
      end
    | _ => Err EInvalidDef
    end.

  (* Database.master(): objects collected so far, and the error if any *)
  Definition master : flow * list master_row :=
    let '(f, acc) :=
      table_scan (list master_row) 1
                 (fun _ rec acc => match master_of_record rec with
                                   | Ok m => (Continue, m :: acc)
                                   | Err e => (Fail e, acc) end) [] in
    (f, rev acc).
End Low.

(* callbacks used to run operations: collect rows, optionally stop after k *)
Definition collect_rec (limit : option Z) (rec : record) (s : list record) : flow * list record :=
  let s' := rec :: s in
  match limit with
  | Some k => if k <=? Z.of_nat (length s') then (Stop, s') else (Continue, s')
  | None => (Continue, s')
  end.
Definition collect_row (limit : option Z) (rowid : Z) (rec : record) (s : list (Z * record))
  : flow * list (Z * record) :=
  let s' := (rowid, rec) :: s in
  match limit with
  | Some k => if k <=? Z.of_nat (length s') then (Stop, s') else (Continue, s')
  | None => (Continue, s')
  end.

(* the pager over a file image: page n is bytes (n-1)U .. nU-1 when the file
   holds them all; anything else is a read error (short read / EOF) *)
Definition image_pager (img : list byte) (U : Z) (n : Z) : res (list byte) :=
  if (1 <=? n) && (n * U <=? len img) then Ok (take U (drop ((n - 1) * U) img)) else Err EIO.

Definition image_pages (img : list byte) (U : Z) : nat := Z.to_nat (len img / U).
