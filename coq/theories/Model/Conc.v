(* Handles used from concurrent goroutines.  The world is the package-level
   state G (collation table, default collation, the generated parser's tables),
   the files F (readers never write them) and one private state per handle.
   An operation of goroutine i is any function of (G, F, its own handle state)
   giving a result and a new handle state: that it can be written this way -
   that it writes nothing outside its handle - is what Gen/Footprint.v
   (regenerated from the sources on every build) and the race detector tie to
   the code.  A schedule is any interleaving of the goroutines' operations. *)
From Coq Require Import List Arith Bool.
Import ListNotations.

Section Conc.
  Variables (G F H op res : Type).
  Variable exec : G -> F -> op -> H -> H * res.

  Definition world := nat -> H.
  Definition upd (w : world) (i : nat) (h : H) : world := fun j => if Nat.eqb j i then h else w j.

  (* run a schedule: the results in the order they were produced *)
  Fixpoint run (g : G) (f : F) (w : world) (s : list (nat * op)) : world * list (nat * res) :=
    match s with
    | [] => (w, [])
    | (i, o) :: rest =>
      let '(h', r) := exec g f o (w i) in
      let '(w', rs) := run g f (upd w i h') rest in
      (w', (i, r) :: rs)
    end.

  (* one handle's operations run alone, in their program order *)
  Fixpoint alone (g : G) (f : F) (h : H) (os : list op) : H * list res :=
    match os with
    | [] => (h, [])
    | o :: rest => let '(h', r) := exec g f o h in let '(h'', rs) := alone g f h' rest in (h'', r :: rs)
    end.

  Definition ops_of (i : nat) (s : list (nat * op)) : list op :=
    map snd (filter (fun x => Nat.eqb (fst x) i) s).
  Definition results_of (i : nat) (rs : list (nat * res)) : list res :=
    map snd (filter (fun x => Nat.eqb (fst x) i) rs).

  (* memory accesses of a schedule: goroutine, location, is it a write *)
  Inductive loc := LShared | LFile | LHandle (i : nat).
  Definition accesses (s : list (nat * op)) : list (nat * loc * bool) :=
    flat_map (fun x => [(fst x, LShared, false); (fst x, LFile, false); (fst x, LHandle (fst x), false); (fst x, LHandle (fst x), true)]) s.
  Definition loc_eqb (a b : loc) : bool :=
    match a, b with
    | LShared, LShared | LFile, LFile => true
    | LHandle i, LHandle j => Nat.eqb i j
    | _, _ => false
    end.
  (* two accesses conflict: different goroutines, same location, at least one write *)
  Definition conflict (a b : nat * loc * bool) : bool :=
    negb (Nat.eqb (fst (fst a)) (fst (fst b))) && loc_eqb (snd (fst a)) (snd (fst b)) && (snd a || snd b).
End Conc.
