(* sql/tokenizer.go, function by function, with Go's index arithmetic kept as
   written (i += bl - l ... i += l), Go's slicing (a slice out of range is a
   panic: TPanic) and the loops that have no syntactic bound given fuel
   (TFuel).  utf8.DecodeRuneInString and the `for i, r := range s` loop are
   modelled exactly (invalid UTF-8 is U+FFFD of width 1); unicode.IsLetter /
   IsDigit / IsSpace are the interval tables of Gen/Lexer.v, dumped on every
   build from the toolchain that compiles the library; the keyword table, the
   operator table and the character lists of the inner switch are translated
   from the source (Gen/ParserTables.v, Gen/Lexer.v).  strconv.ParseInt /
   ParseUint / ParseFloat are modelled on the alphabet readNumericLiteral can
   hand them (digits . e E + - x X).  No proofs here. *)
From Coq Require Import String Ascii.
From SQ Require Import Model.Base Gen.ParserTables Gen.Lexer Model.SqlParse Model.ParseBudget.
Open Scope Z_scope.

(* ---------- unicode ---------- *)
Definition in_ranges (r : Z) (l : list (Z * Z)) : bool :=
  existsb (fun p => (fst p <=? r) && (r <=? snd p)) l.
Definition is_letter (r : Z) : bool := in_ranges r letter_ranges.
Definition is_digit (r : Z) : bool := in_ranges r digit_ranges.
Definition is_space (r : Z) : bool := in_ranges r space_ranges.

Definition rune_error : Z := 65533.
Definition cont (b : Z) : bool := (128 <=? b) && (b <=? 191).

(* utf8.DecodeRuneInString: (rune, width); width 0 only for the empty string *)
Definition decode_rune (s : list byte) : Z * Z :=
  match s with
  | [] => (rune_error, 0)
  | c0 :: r =>
    let b0 := b2z c0 in
    if b0 <? 128 then (b0, 1)
    else if (b0 <? 194) || (244 <? b0) then (rune_error, 1)
    else if b0 <? 224 then
      match r with
      | c1 :: _ => let b1 := b2z c1 in
                   if cont b1 then ((b0 mod 32) * 64 + b1 mod 64, 2) else (rune_error, 1)
      | [] => (rune_error, 1)
      end
    else if b0 <? 240 then
      match r with
      | c1 :: c2 :: _ =>
        let b1 := b2z c1 in let b2 := b2z c2 in
        let lo := if b0 =? 224 then 160 else 128 in
        let hi := if b0 =? 237 then 159 else 191 in
        if (lo <=? b1) && (b1 <=? hi) && cont b2
        then (((b0 mod 16) * 64 + b1 mod 64) * 64 + b2 mod 64, 3) else (rune_error, 1)
      | _ => (rune_error, 1)
      end
    else
      match r with
      | c1 :: c2 :: c3 :: _ =>
        let b1 := b2z c1 in let b2 := b2z c2 in let b3 := b2z c3 in
        let lo := if b0 =? 240 then 144 else 128 in
        let hi := if b0 =? 244 then 143 else 191 in
        if (lo <=? b1) && (b1 <=? hi) && cont b2 && cont b3
        then ((((b0 mod 8) * 64 + b1 mod 64) * 64 + b2 mod 64) * 64 + b3 mod 64, 4) else (rune_error, 1)
      | _ => (rune_error, 1)
      end
  end.

(* `for i, r := range s`: (byte offset, rune) pairs, in order *)
Fixpoint runes_from (fuel : nat) (off : Z) (s : list byte) : list (Z * Z) :=
  match fuel with
  | O => []
  | S k =>
    match s with
    | [] => []
    | _ :: _ => let '(r, w) := decode_rune s in (off, r) :: runes_from k (off + w) (drop w s)
    end
  end.
Definition runes (s : list byte) : list (Z * Z) := runes_from (length s) 0 s.

Fixpoint str_of_bytes (l : list byte) : string :=
  match l with [] => EmptyString | b :: r => String (ascii_of_byte b) (str_of_bytes r) end.

Fixpoint lookup_kw (k : string) (l : list (string * Z)) : option Z :=
  match l with [] => None | (a, n) :: r => if String.eqb a k then Some n else lookup_kw k r end.

Definition zin (x : Z) (l : list Z) : bool := existsb (Z.eqb x) l.

(* ---------- readBareword ---------- *)
Fixpoint bareword_end (rs : list (Z * Z)) (total : Z) : Z :=
  match rs with
  | [] => total
  | (i, r) :: rest =>
    if is_letter r || ((0 <? i) && is_digit r) || (r =? 95) then bareword_end rest total else i
  end.
Definition read_bareword (s : list byte) : list byte * Z :=
  let n := bareword_end (runes s) (len s) in (take n s, n).

(* ---------- readOp ---------- *)
Definition read_op (s : list byte) : res (list byte) :=
  if len s =? 1 then Ok s
  else
    do p <- slice_to s 2;
    match p with
    | a :: b :: _ => if existsb (fun o => (fst o =? b2z a) && (snd o =? b2z b)) operators then Ok p else slice_to s 1
    | _ => slice_to s 1
    end.

(* ---------- readQuoted ---------- *)
Fixpoint find_rune (c : Z) (rs : list (Z * Z)) : option Z :=
  match rs with [] => None | (i, r) :: rest => if r =? c then Some i else find_rune c rest end.

Fixpoint read_quoted (fuel : nat) (close : Z) (s : list byte) (esc : bool) : res (list byte * Z) :=
  match fuel with
  | O => Err EFuel
  | S k =>
    match find_rune close (runes s) with
    | None => Ok ([], -1)
    | Some i =>
      if esc && (i + 1 <? len s) && (match index s (i + 1) with Ok b => b =? close | Err _ => false end) then
        do rest <- slice_from s (i + 2);
        do hd <- slice_to s (i + 1);
        do r <- read_quoted k close rest esc;
        Ok ((hd ++ fst r)%list, i + snd r + 2)
      else
        do hd <- slice_to s i;
        Ok (hd, i + 1)
    end
  end.

(* ---------- strconv, on what readNumericLiteral can pass ---------- *)
Definition dec_digit (b : byte) : option Z :=
  let z := b2z b in if (48 <=? z) && (z <=? 57) then Some (z - 48) else None.
Definition hex_digit (b : byte) : option Z :=
  let z := b2z b in
  if (48 <=? z) && (z <=? 57) then Some (z - 48)
  else if (97 <=? z) && (z <=? 102) then Some (z - 87)
  else if (65 <=? z) && (z <=? 70) then Some (z - 55) else None.

(* all characters are digits of the base: the number; otherwise a syntax error *)
Fixpoint digits_val (dig : byte -> option Z) (base : Z) (acc : Z) (s : list byte) : option Z :=
  match s with
  | [] => Some acc
  | c :: r => match dig c with Some d => digits_val dig base (acc * base + d) r | None => None end
  end.

(* strconv.ParseUint(s, 16, 64) *)
Definition parse_uint16 (s : list byte) : option Z :=
  match s with
  | [] => None
  | _ => match digits_val hex_digit 16 0 s with
         | Some v => if v <? 2 ^ 64 then Some v else None
         | None => None
         end
  end.

(* strconv.ParseInt(s, 10, 64) *)
Definition parse_int10 (s : list byte) : option Z :=
  match s with
  | [] => None
  | c :: r =>
    let neg := b2z c =? 45 in
    let body := if neg || (b2z c =? 43) then r else s in
    match body with
    | [] => None
    | _ => match digits_val dec_digit 10 0 body with
           | Some v => if neg then (if v <=? 2 ^ 63 then Some (- v) else None)
                       else (if v <? 2 ^ 63 then Some v else None)
           | None => None
           end
    end
  end.

(* round a positive rational n/d to binary64, nearest-even; None on overflow *)
Definition round_q (n d : Z) : option Z :=
  let k := Z.log2 n - Z.log2 d in
  let scaled (e : Z) : Z * Z := if 0 <=? e then (n, d * 2 ^ e) else (n * 2 ^ (- e), d) in
  let e1 := Z.max (k - 53) (-1074) in
  let '(n1, d1) := scaled e1 in
  let e := if 2 ^ 53 <=? n1 / d1 then e1 + 1 else e1 in
  let '(nn, dd) := scaled e in
  let q := nn / dd in let r := nn mod dd in
  let q' := if (dd <? 2 * r) || ((2 * r =? dd) && Z.odd q) then q + 1 else q in
  let bits := (e + 1074) * 2 ^ 52 + q' in
  if bits <? 2047 * 2 ^ 52 then Some bits else None.

Fixpoint take_digits (s : list byte) (acc : Z) (cnt : Z) : Z * Z * list byte :=
  match s with
  | c :: r => match dec_digit c with Some d => take_digits r (acc * 10 + d) (cnt + 1) | None => (acc, cnt, s) end
  | [] => (acc, cnt, [])
  end.

(* the exponent digits, accumulated the way strconv does: no more once 10000 is reached *)
Fixpoint take_exp (s : list byte) (acc : Z) (cnt : Z) : Z * Z * list byte :=
  match s with
  | c :: r => match dec_digit c with
              | Some d => take_exp r (if acc <? 10000 then acc * 10 + d else acc) (cnt + 1)
              | None => (acc, cnt, s) end
  | [] => (acc, cnt, [])
  end.

Fixpoint ndigits (fuel : nat) (m : Z) : Z :=
  match fuel with O => 0 | S k => if m <? 10 then 1 else 1 + ndigits k (m / 10) end.

(* strconv.ParseFloat(s, 64) for s without a sign, "inf", "nan", hex prefix or underscores:
   Some bit pattern, or None (syntax or range error) *)
Definition parse_float (s : list byte) : option Z :=
  let '(ip, ic, r1) := take_digits s 0 0 in
  let '(m, fc, r2) :=
    match r1 with
    | c :: r => if b2z c =? 46 then let '(m, fc, r2) := take_digits r ip 0 in (m, fc, r2) else (ip, 0, r1)
    | [] => (ip, 0, r1)
    end in
  if ic + fc =? 0 then None else
  let ex :=
    match r2 with
    | c :: r =>
      if (b2z c =? 101) || (b2z c =? 69) then
        match r with
        | sg :: r' =>
          let neg := b2z sg =? 45 in
          let body := if neg || (b2z sg =? 43) then r' else r in
          let '(e, ec, r3) := take_exp body 0 0 in
          if ec =? 0 then None else
          match r3 with [] => Some (if neg then - e else e) | _ => None end
        | [] => None
        end
      else None
    | [] => Some 0
    end in
  match ex with
  | None => None
  | Some e =>
    if m =? 0 then Some 0 else
    let exp10 := e - fc in
    let mag := ndigits (S (Z.to_nat (ic + fc))) m + exp10 in
    if 310 <? mag then None
    else if mag <? -330 then Some 0
    else if 0 <=? exp10 then round_q (m * 10 ^ exp10) 1 else round_q m (10 ^ (- exp10))
  end.

(* ---------- readNumericLiteral ---------- *)
Fixpoint num_scan (rs : list (Z * Z)) (fl hx sg : bool) (total : Z) : Z * bool * bool :=
  match rs with
  | [] => (total, fl, hx)
  | (i, r) :: rest =>
    if is_digit r then num_scan rest fl hx sg total
    else if ((r =? 45) || (r =? 43)) && sg then num_scan rest fl hx false total
    else if (r =? 120) || (r =? 88) then num_scan rest fl true sg total
    else if r =? 46 then num_scan rest true hx sg total
    else if (r =? 101) || (r =? 69) then num_scan rest true hx true total
    else (i, fl, hx)
  end.

Definition ntoken (n : Z) : token := {| ttyp := tok_tSignedNumber; ts := EmptyString; tn := n; tf := 0 |}.
Definition ftoken (f : Z) : token := {| ttyp := tok_tFloat; ts := EmptyString; tn := 0; tf := f |}.
Definition stoken (typ : Z) (s : list byte) : token := {| ttyp := typ; ts := str_of_bytes s; tn := 0; tf := 0 |}.

Definition has_0x (s : list byte) : bool :=
  match s with a :: b :: _ => (b2z a =? 48) && ((b2z b =? 120) || (b2z b =? 88)) | _ => false end.

(* (token, length) or None for "unsupported number" *)
Definition read_numeric (s : list byte) : option (token * Z) :=
  let '(n, fl, hx) := num_scan (runes s) false false false (len s) in
  let s' := take n s in
  if hx && has_0x s' then
    match parse_uint16 (drop 2 s') with Some v => Some (ntoken (to_i64 v), len s') | None => None end
  else if fl then
    match parse_float s' with Some f => Some (ftoken f, len s') | None => None end
  else
    match parse_int10 s' with Some v => Some (ntoken v, len s') | None => None end.

(* ---------- tokenize ---------- *)
Inductive tokout :=
| TOk (l : list token)
| TErr (l : list token)      (* an error, with the tokens returned next to it *)
| TBadChar                   (* "unexpected char": the error, and nil for the tokens *)
| TPanic
| TFuel.

Definition upper_bytes (s : list byte) : string := upper_str (str_of_bytes s).

Fixpoint tok_loop (fuel : nat) (s : list byte) (i : Z) (acc : list token) : tokout :=
  match fuel with
  | O => TFuel
  | S k =>
    if len s <=? i then TOk (rev acc) else
    match slice_from s i with
    | Err _ => TPanic
    | Ok si =>
      let '(c, l) := decode_rune si in
      if is_space c then tok_loop k s (i + l) acc
      else if is_letter c || (c =? 95) then
        let '(bt, bl) := read_bareword si in
        let tnr := match lookup_kw (upper_bytes bt) keywords with Some n => n | None => tok_tBare end in
        tok_loop k s (i + (bl - l) + l) (stoken tnr bt :: acc)
      else if is_digit c || (c =? 46) then
        match read_numeric si with
        | None => TErr (rev acc)
        | Some (tk, ln) => tok_loop k s (i + (ln - 1) + l) (tk :: acc)
        end
      else if zin c op_chars then
        match read_op si with
        | Err _ => TPanic
        | Ok op => tok_loop k s (i + (len op - 1) + l) (stoken tok_tOperator op :: acc)
        end
      else if zin c single_chars then tok_loop k s (i + l) (stoken c [z2b c] :: acc)
      else if zin c literal_chars then
        match slice_from s (i + 1) with
        | Err _ => TPanic
        | Ok rest =>
          match read_quoted (S (length rest)) c rest true with
          | Err EFuel => TFuel
          | Err _ => TPanic
          | Ok (bt, bl) => if bl =? -1 then TErr (rev acc) else tok_loop k s (i + bl + l) (stoken tok_tLiteral bt :: acc)
          end
        end
      else if zin c ident_chars then
        let close := if c =? 91 then 93 else c in
        let esc := negb (c =? 91) in
        match slice_from s (i + 1) with
        | Err _ => TPanic
        | Ok rest =>
          match read_quoted (S (length rest)) close rest esc with
          | Err EFuel => TFuel
          | Err _ => TPanic
          | Ok (bt, bl) => if bl =? -1 then TErr (rev acc) else tok_loop k s (i + bl + l) (stoken tok_tIdentifier bt :: acc)
          end
        end
      else TBadChar
    end
  end.

Definition tokenize (s : list byte) : tokout := tok_loop (S (length s)) s 0 [].

(* ---------- sql.Parse: tokenize, then the generated parser ---------- *)
(* the step budget of the driver for a token list: Proofs/ParseTermP.v proves it is never used up *)
Definition parse_string (budget : list token -> nat) (s : list byte) : outcome :=
  match tokenize s with
  | TOk toks => parse_tokens (budget toks) toks
  | TErr _ | TBadChar => Reject VZero
  | TPanic => BadTable "tokenizer"
  | TFuel => OutOfFuel
  end.

(* sql.Parse *)
Definition parse_sql (s : list byte) : outcome := parse_string parse_budget s.

(* ---------- the harness's rendering of a token list (harness/cmd/implrun `tokens`) ---------- *)
Open Scope string_scope.
Definition show_token (t : token) : string :=
  dec_of_Z (ttyp t) ++ ":" ++ hex_of_string (ts t) ++ ":" ++ dec_of_Z (tn t) ++ ":" ++ hex16 (tf t).
Definition show_tokout (o : tokout) : string :=
  match o with
  | TOk l => "tokens ok " ++ join_str ";" (map show_token l)
  | TErr l => "tokens err " ++ join_str ";" (map show_token l)
  | TBadChar => "tokens err "
  | TPanic => "tokens PANIC"
  | TFuel => "tokens DIVERGE"
  end.
