(* The high level API from the bytes of the file alone: Database.Schema(table) =
   sqlite_master (Model/Low.v) -> the table's and its indexes' SQL texts ->
   sql.Parse (Model/Tokenizer.v + the translated parser) -> newSchema
   (Model/Schema.v) -> the schema record Model/High.v works with; then the
   operation itself.  Nothing here comes from the implementation: the commands
   of the harness are answered from the file image only.  No proofs here. *)
From Coq Require Import String.
From SQ Require Import Model.Base Model.Text Model.Record Model.Btree Model.Page Model.Cmp Model.Low Model.High
     Model.SqlParse Model.ParseBudget Model.Tokenizer Model.Schema Model.Run.
Open Scope Z_scope.

Definition lowb (s : string) : list byte := bytes_of_string (lower_str s).
Definition value_of_dflt (d : dflt) : value :=
  match d with
  | DNull => VNull | DInt z => Record.VInt z | DReal b => VReal b | DText s => VText (bytes_of_string s) | DUnknown => VNull
  end.
Definition icol_of (c : icolS) : icol := {| ic_name := lowb (c_col c); ic_coll := lowb (c_coll c); ic_desc := c_desc c |}.
Definition schema_of (s : schemaS) : schema :=
  {| s_worowid := sc_wr s;
     s_cols := map (fun c => {| tc_name := lowb (t_name c); tc_rowid := t_rowid c; tc_default := value_of_dflt (t_default c) |}) (sc_cols s);
     s_rowidpk := sc_rowidpk s;
     s_pk := map icol_of (sc_pk s);
     s_pkname := lowb (sc_pkname s);
     s_indexes := map (fun i => {| si_name := lowb (i_name i); si_cols := map icol_of (i_cols i) |}) (sc_indexes s) |}.

Definition is_nil (b : list byte) : bool := match b with [] => true | _ => false end.

(* db/schema.go newSchema: the first `table` row of that name gives the CREATE TABLE text (none, or an
   empty text: no such table); every `index` row of that table with a text is parsed, the ones that do
   not parse or are no CREATE INDEX are skipped *)
Definition db_schema (ms : list master_row) (table : list byte) : res schemaS :=
  let n := ascii_lower table in
  match find (fun m => bytes_eqb (m_typ m) B"table" && bytes_eqb (m_name m) n) ms with
  | None => Err ENoSuch
  | Some m =>
    if is_nil (m_sql m) then Err ENoSuch else
    let idx := filter (fun m => bytes_eqb (m_typ m) B"index" && bytes_eqb (m_tbl m) n && negb (is_nil (m_sql m))) ms in
    match new_schema (parse_sql (m_sql m)) (map (fun m => parse_sql (m_sql m)) idx) with
    | Some st => Ok st
    | None => Err EOther
    end
  end.

Section E2E.
  Variable pg : Z -> res (list byte).
  Variable op : Z -> res page.
  Variable npages : nat.

  (* sqlittle.go: every select starts with db.Schema(table) *)
  Definition with_schema {S} (s : S) (table : list byte) (k : schema -> flow * S) : flow * S :=
    match master pg op npages with
    | (Fail e, _) => (Fail e, s)
    | (_, ms) => match db_schema ms table with
                 | Ok st => k (schema_of st)
                 | Err e => (Fail e, s)
                 end
    end.

  Definition e_select S cb table columns (s : S) := with_schema s table (fun sc => h_select pg op npages S cb sc table columns s).
  Definition e_select_rowid S cb table rowid columns (s : S) := with_schema s table (fun sc => h_select_rowid pg op npages S cb sc table rowid columns s).
  Definition e_indexed_select S cb table index columns (s : S) := with_schema s table (fun sc => h_indexed_select pg op npages S cb sc table index columns s).
  Definition e_indexed_select_eq S cb table index key columns (s : S) := with_schema s table (fun sc => h_indexed_select_eq pg op npages S cb sc table index key columns s).
  Definition e_pk_select S cb table key columns (s : S) := with_schema s table (fun sc => h_pk_select pg op npages S cb sc table key columns s).

  (* the harness's h* commands, the schema argument ignored and computed from the file instead *)
  Definition run_hl_e2e (w : list (list byte)) : option (list (list byte)) :=
    match w with
    | cmd :: _ :: table :: rest =>
      let tb := unhex table in
      match master pg op npages with
      | (Fail e, _) => Some (show_hrows None (Fail e, []))
      | (_, ms) =>
        match db_schema ms tb with
        | Err e => Some (show_hrows None (Fail e, []))
        | Ok st => run_hl_sc pg op npages cmd (schema_of st) tb rest
        end
      end
    | _ => None
    end.
End E2E.

Definition is_hl (w : list (list byte)) : bool :=
  match w with
  | cmd :: _ => bytes_eqb cmd B"hselect" || bytes_eqb cmd B"hselectrowid" || bytes_eqb cmd B"hiselect"
                || bytes_eqb cmd B"hiselecteq" || bytes_eqb cmd B"hpkselect"
  | [] => false
  end.

(* as Run.run_line_with, with the high level commands answered end to end *)
Definition run_line_e2e (pg : Z -> res (list byte)) (op : Z -> res page) (npages : nat) (line : list byte) : list (list byte) :=
  let w := words line in
  if is_hl w then match run_hl_e2e pg op npages w with Some out => out | None => [B"unknown"] end
  else run_line_with pg op npages line.
