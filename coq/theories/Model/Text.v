(* tiny text utilities over [list byte], used by the command interpreter
   that makes the model executable (Model/Run.v).  Not part of the model of
   sqlittle itself. *)
From Coq Require Import String.
From SQ Require Import Model.Base.
Open Scope Z_scope.

Definition bsp : byte := " "%byte.

Fixpoint split_on (sep : byte) (s : list byte) (cur : list byte) : list (list byte) :=
  match s with
  | [] => [rev_append cur []]
  | c :: r => if Byte.eqb c sep then rev_append cur [] :: split_on sep r [] else split_on sep r (c :: cur)
  end.
Definition words (s : list byte) : list (list byte) :=
  filter (fun w => negb (match w with [] => true | _ => false end)) (split_on bsp s []).

Definition hexdigit (z : Z) : byte :=
  if z <? 10 then z2b (48 + z) else z2b (87 + z).
Definition unhex1 (c : byte) : Z :=
  let z := b2z c in
  if (48 <=? z) && (z <=? 57) then z - 48
  else if (97 <=? z) && (z <=? 102) then z - 87
  else if (65 <=? z) && (z <=? 70) then z - 55 else 0.
Fixpoint unhex (s : list byte) : list byte :=
  match s with
  | a :: b :: r => z2b (unhex1 a * 16 + unhex1 b) :: unhex r
  | _ => []
  end.
Fixpoint hex (s : list byte) : list byte :=
  match s with
  | [] => []
  | c :: r => hexdigit (b2z c / 16) :: hexdigit (b2z c mod 16) :: hex r
  end.

Fixpoint show_nat_fuel (fuel : nat) (z : Z) (acc : list byte) : list byte :=
  match fuel with
  | O => acc
  | S f => if z <? 10 then z2b (48 + z) :: acc
           else show_nat_fuel f (z / 10) (z2b (48 + z mod 10) :: acc)
  end.
Definition show_Z (z : Z) : list byte :=
  if z <? 0 then "-"%byte :: show_nat_fuel 700 (- z) [] else show_nat_fuel 700 z [].

Definition read_nat (s : list byte) : Z := fold_left (fun acc c => acc * 10 + (b2z c - 48)) s 0.
Definition read_Z (s : list byte) : Z :=
  match s with
  | c :: r => if Byte.eqb c "-"%byte then - read_nat r else read_nat s
  | [] => 0
  end.

Definition hex_of_Z16 (z : Z) : list byte :=   (* 16 hex digits of a 64-bit pattern *)
  map (fun i => hexdigit ((z / 16 ^ (15 - Z.of_nat i)) mod 16)) (seq 0 16).
Definition Z_of_hex (s : list byte) : Z := fold_left (fun acc c => acc * 16 + unhex1 c) s 0.

Fixpoint bytes_of_string (s : String.string) : list byte :=
  match s with
  | String.EmptyString => []
  | String.String a r => Ascii.byte_of_ascii a :: bytes_of_string r
  end.
Notation "'B' s" := (bytes_of_string s%string) (at level 9, s at level 0, only parsing).

Fixpoint join (sep : list byte) (l : list (list byte)) : list byte :=
  match l with
  | [] => []
  | [x] => x
  | x :: r => x ++ sep ++ join sep r
  end.

Fixpoint bytes_eqb (a b : list byte) : bool :=
  match a, b with
  | [], [] => true
  | x :: a', y :: b' => Byte.eqb x y && bytes_eqb a' b'
  | _, _ => false
  end.
