(* db/btree.go: Iter / IterMin of the four page kinds, with Go's sort.Search.
   Generic in the payload type P, the record type R, the loader
   (addOverflow + parseRecord) and the page store (openTable/openIndex),
   so that the theorems are about every tree the code accepts. *)
From SQ Require Import Model.Base.

Inductive flow := Continue | Stop | Fail (e : err).

Section Btree.
  Variable P : Type.   (* cell payload *)
  Variable R : Type.   (* decoded record *)

  Inductive gpage :=
  | GTLeaf (cells : list (Z * P))
  | GTInterior (cells : list (Z * Z)) (rightmost : Z)
  | GILeaf (cells : list P)
  | GIInterior (cells : list (Z * P)) (rightmost : Z).

  Variable openp : Z -> res gpage.      (* Database.openPage *)
  Variable load : P -> res R.           (* addOverflow + parseRecord *)

  Definition open_table (n : Z) : res gpage :=
    do p <- openp n;
    match p with GTLeaf _ | GTInterior _ _ => Ok p | _ => Err EKind end.
  Definition open_index (n : Z) : res gpage :=
    do p <- openp n;
    match p with GILeaf _ | GIInterior _ _ => Ok p | _ => Err EKind end.

  (* Go's sort.Search(n, f): i, j := 0, n; for i < j { h := (i+j)/2; ... } *)
  Fixpoint search_fuel (fuel : nat) (f : nat -> bool) (i j : nat) : nat :=
    match fuel with
    | O => i
    | S k => if Nat.ltb i j then
               let h := Nat.div (i + j) 2 in
               if f h then search_fuel k f i h else search_fuel k f (h + 1) j
             else i
    end.
  Definition sort_search (n : nat) (f : nat -> bool) : nat := search_fuel n f 0 n.

  (* the same with a predicate that can fail: a failing probe counts as
     [true] and the error is remembered (Go: searchErr = err), the last one
     wins unless an earlier one was a panic *)
  Definition sticky (e : err) : bool := match e with EPanic | EFuel => true | _ => false end.
  Definition merge_err (old : option err) (new : err) : option err :=
    match old with
    | Some e => if sticky e then Some e else Some new
    | None => Some new
    end.
  Fixpoint search_fuel_e (fuel : nat) (f : nat -> res bool) (i j : nat) (e : option err)
    : nat * option err :=
    match fuel with
    | O => (i, e)
    | S k => if Nat.ltb i j then
               let h := Nat.div (i + j) 2 in
               match f h with
               | Ok true => search_fuel_e k f i h e
               | Ok false => search_fuel_e k f (h + 1) j e
               | Err x => search_fuel_e k f i h (merge_err e x)
               end
             else (i, e)
    end.
  Definition sort_search_e (n : nat) (f : nat -> res bool) : nat * option err :=
    search_fuel_e n f 0 n None.

  Section WithCallbackState.
    Variable S : Type.

    (* what an iteration step reports: go on, stop (the callback said
       "done"), or fail.  The callback state is kept in every case, so the
       rows delivered before an error stay observable. *)
    Definition andthen (x : flow * S) (k : S -> flow * S) : flow * S :=
      match x with
      | (Continue, s') => k s'
      | other => other
      end.
    Definition with_page (o : res gpage) (s : S) (k : gpage -> flow * S) : flow * S :=
      match o with Ok p => k p | Err e => (Fail e, s) end.

    (* ---------------- table b-trees ---------------- *)
    Variable tcb : Z -> P -> S -> flow * S.     (* iterCB *)

    Fixpoint tleaf_iter (cells : list (Z * P)) (s : S) : flow * S :=
      match cells with
      | [] => (Continue, s)
      | (k, pl) :: rest => andthen (tcb k pl s) (tleaf_iter rest)
      end.

    (* cellIter: callback on every child, then the right-most pointer *)
    Fixpoint tinterior_iter (sub : Z -> S -> flow * S)
             (cells : list (Z * Z)) (rgt : Z) (s : S) : flow * S :=
      match cells with
      | [] => sub rgt s
      | (lft, _) :: rest => andthen (sub lft s) (tinterior_iter sub rest rgt)
      end.

    Fixpoint titer (r : nat) (pg : gpage) (s : S) {struct r} : flow * S :=
      match pg with
      | GTLeaf cells => tleaf_iter cells s
      | GTInterior cells rgt =>
        match r with
        | O => (Fail ERecursion, s)
        | Datatypes.S r' =>
          tinterior_iter (fun p s => with_page (open_table p) s (fun page => titer r' page s)) cells rgt s
        end
      | _ => (Fail EKind, s)    (* not reachable through open_table *)
      end.

    Definition tleaf_iter_min (cells : list (Z * P)) (rowid : Z) (s : S) : flow * S :=
      let n := sort_search (length cells)
                 (fun i => match nth_error cells i with Some (k, _) => rowid <=? k | None => true end) in
      match skipn n cells with
      | [] => (Continue, s)
      | (k, pl) :: _ => tcb k pl s
      end.

    Definition tinterior_iter_min (sub : Z -> S -> flow * S)
               (cells : list (Z * Z)) (rgt : Z) (rowid : Z) (s : S) : flow * S :=
      let n := sort_search (length cells)
                 (fun i => match nth_error cells i with Some (_, k) => rowid <=? k | None => true end) in
      tinterior_iter sub (skipn n cells) rgt s.

    Fixpoint titer_min (r : nat) (pg : gpage) (rowid : Z) (s : S) {struct r} : flow * S :=
      match pg with
      | GTLeaf cells => tleaf_iter_min cells rowid s
      | GTInterior cells rgt =>
        match r with
        | O => (Fail ERecursion, s)
        | Datatypes.S r' =>
          tinterior_iter_min (fun p s => with_page (open_table p) s (fun page => titer_min r' page rowid s))
                             cells rgt rowid s
        end
      | _ => (Fail EKind, s)
      end.

    (* ---------------- index b-trees ---------------- *)
    Variable icb : R -> S -> flow * S.          (* indexIterCB *)

    Definition emit (pl : P) (s : S) : flow * S :=
      match load pl with Ok rec => icb rec s | Err e => (Fail e, s) end.

    Fixpoint ileaf_iter (cells : list P) (s : S) : flow * S :=
      match cells with
      | [] => (Continue, s)
      | pl :: rest => andthen (emit pl s) (ileaf_iter rest)
      end.

    Fixpoint iinterior_iter (sub : Z -> S -> flow * S)
             (cells : list (Z * P)) (rgt : Z) (s : S) : flow * S :=
      match cells with
      | [] => sub rgt s
      | (lft, pl) :: rest =>
        andthen (sub lft s) (fun s' => andthen (emit pl s') (iinterior_iter sub rest rgt))
      end.

    Fixpoint iiter (r : nat) (pg : gpage) (s : S) {struct r} : flow * S :=
      match pg with
      | GILeaf cells => ileaf_iter cells s
      | GIInterior cells rgt =>
        match r with
        | O => (Fail ERecursion, s)
        | Datatypes.S r' =>
          iinterior_iter (fun p s => with_page (open_index p) s (fun page => iiter r' page s)) cells rgt s
        end
      | _ => (Fail EKind, s)
      end.

    Variable pred : R -> bool.     (* Search(key, _) *)

    (* indexBinSearch *)
    Definition bin_search (pl : P) : res bool := do rec <- load pl; Ok (pred rec).

    Definition ileaf_iter_min (cells : list P) (s : S) : flow * S :=
      let '(n, e) := sort_search_e (length cells)
                       (fun i => match nth_error cells i with
                                 | Some pl => bin_search pl | None => Ok true end) in
      match e with
      | Some x => (Fail x, s)
      | None => ileaf_iter (skipn n cells) s
      end.

    (* first child searched (IterMin), later ones iterated, each followed by
       the cell's own record; the right-most child is searched only when no
       cell was visited *)
    Definition iinterior_iter_min (sub_min sub_iter : Z -> S -> flow * S)
               (cells : list (Z * P)) (rgt : Z) (s : S) : flow * S :=
      let '(n, e) := sort_search_e (length cells)
                       (fun i => match nth_error cells i with
                                 | Some (_, pl) => bin_search pl | None => Ok true end) in
      match e with
      | Some x => (Fail x, s)
      | None =>
        match skipn n cells with
        | [] => sub_min rgt s
        | (lft, pl) :: rest =>
          andthen (sub_min lft s)
                  (fun s' => andthen (emit pl s') (iinterior_iter sub_iter rest rgt))
        end
      end.

    Fixpoint iiter_min (r : nat) (pg : gpage) (s : S) {struct r} : flow * S :=
      match pg with
      | GILeaf cells => ileaf_iter_min cells s
      | GIInterior cells rgt =>
        match r with
        | O => (Fail ERecursion, s)
        | Datatypes.S r' =>
          iinterior_iter_min
            (fun p s => with_page (open_index p) s (fun page => iiter_min r' page s))
            (fun p s => with_page (open_index p) s (fun page => iiter r' page s))
            cells rgt s
        end
      | _ => (Fail EKind, s)
      end.
  End WithCallbackState.
End Btree.

Arguments GTLeaf {P}. Arguments GTInterior {P}. Arguments GILeaf {P}. Arguments GIInterior {P}.
Definition max_recursion : nat := 31.
