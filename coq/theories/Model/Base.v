(* Base definitions shared by the whole model: bytes as numbers, the result
   type, machine-integer reinterpretation.  No proofs here. *)
From Coq Require Export List ZArith Bool Lia.
From Coq Require Export Strings.Byte.
Export ListNotations.
Open Scope Z_scope.

Definition b2z (b : byte) : Z := Z.of_N (Byte.to_N b).
Definition z2b (z : Z) : byte :=
  match Byte.of_N (Z.to_N (z mod 256)) with Some b => b | None => x00 end.

(* error kinds the model distinguishes; [EPanic] is a Go run-time panic,
   [EFuel] is "the model's loop budget ran out" (divergence). *)
Inductive err :=
| ECorrupt        (* db.ErrCorrupted *)
| EInternal       (* errInternal: serial types 10, 11 *)
| ERecursion      (* ErrRecursion *)
| EPageNo         (* "invalid page number" *)
| EPageType       (* "unsupported page type" *)
| ECellPtr        (* "invalid cell pointer (array)" *)
| EKind           (* found an index, expected a table / vice versa *)
| EInvalidDef     (* ErrInvalidDef *)
| EIO             (* the pager reported an error (I/O error, short read, EOF) *)
| EHeader (n : Z) (* header rejected; n identifies the reason *)
| EHotJournal
| ENoSuch         (* no such table / index / column *)
| EOther
| EPanic
| EFuel.

Inductive res (A : Type) := Ok (a : A) | Err (e : err).
Arguments Ok {A}. Arguments Err {A}.

Definition bind {A B} (x : res A) (f : A -> res B) : res B :=
  match x with Ok a => f a | Err e => Err e end.
Notation "'do' x <- m ; k" := (bind m (fun x => k))
  (at level 200, x pattern, m at level 100, k at level 200).

Definition is_ok {A} (x : res A) : bool := match x with Ok _ => true | Err _ => false end.
Definition is_panic {A} (x : res A) : bool :=
  match x with Err EPanic => true | Err EFuel => true | _ => false end.

Definition len (b : list byte) : Z := Z.of_nat (length b).

(* Go slicing; each returns Err EPanic exactly when Go panics. *)
Definition slice_from (b : list byte) (i : Z) : res (list byte) :=
  if (0 <=? i) && (i <=? len b) then Ok (skipn (Z.to_nat i) b) else Err EPanic.
Definition slice_to (b : list byte) (j : Z) : res (list byte) :=
  if (0 <=? j) && (j <=? len b) then Ok (firstn (Z.to_nat j) b) else Err EPanic.
Definition slice (b : list byte) (i j : Z) : res (list byte) :=
  if (0 <=? i) && (i <=? j) && (j <=? len b)
  then Ok (firstn (Z.to_nat (j - i)) (skipn (Z.to_nat i) b)) else Err EPanic.
Definition index (b : list byte) (i : Z) : res Z :=
  if (0 <=? i) && (i <? len b) then Ok (b2z (nth (Z.to_nat i) b x00)) else Err EPanic.

(* unchecked versions, used under a guard that has been tested already *)
Definition drop (n : Z) (b : list byte) : list byte := skipn (Z.to_nat n) b.
Definition take (n : Z) (b : list byte) : list byte := firstn (Z.to_nat n) b.

(* big-endian unsigned integer denoted by a byte string *)
Fixpoint be_acc (acc : Z) (b : list byte) : Z :=
  match b with [] => acc | c :: r => be_acc (acc * 256 + b2z c) r end.
Definition be (b : list byte) : Z := be_acc 0 b.

(* two's complement reinterpretation of an unsigned n-bit number *)
Definition twos (bits : Z) (u : Z) : Z :=
  if u <? 2 ^ (bits - 1) then u else u - 2 ^ bits.
Definition to_i64 (u : Z) : Z := twos 64 (u mod 2 ^ 64).
Definition to_u64 (i : Z) : Z := i mod 2 ^ 64.

Fixpoint seqZ (start : Z) (n : nat) : list Z :=
  match n with O => [] | S k => start :: seqZ (start + 1) k end.
