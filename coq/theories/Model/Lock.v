(* POSIX advisory record locks on the three lock regions SQLite uses, and the
   actors that take them: sqlittle handles (db/pager_unix.go RLock / RUnlock /
   Close) and SQLite connections following unixLock / unixUnlock.  One system
   call per step.  (The byte offsets of the regions are checked against
   SQLite's in Gen/Consts.v.) *)
From Coq Require Import List Arith Bool.
Import ListNotations.

Inductive kind := NoLock | Rd | Wr.
Inductive region := Pending | Reserved | Shared.
Definition region_eqb (a b : region) : bool :=
  match a, b with Pending, Pending | Reserved, Reserved | Shared, Shared => true | _, _ => false end.

Definition pid := nat.
(* the kernel's lock table for the file: what each process holds on each region *)
Definition table := pid -> region -> kind.
Definition empty : table := fun _ _ => NoLock.
Definition upd (t : table) (p : pid) (r : region) (k : kind) : table :=
  fun q s => if Nat.eqb q p && region_eqb s r then k else t q s.
(* closing ANY descriptor of the file, or dying, drops all of the process's locks *)
Definition drop_all (t : table) (p : pid) : table := fun q s => if Nat.eqb q p then NoLock else t q s.

(* among processes 0..n-1, does anybody else hold something that conflicts? *)
Fixpoint others_ok (n : nat) (t : table) (p : pid) (r : region) (want : kind) : bool :=
  match n with
  | O => true
  | S m => others_ok m t p r want &&
           (if Nat.eqb m p then true
            else match want, t m r with
                 | Rd, Wr => false
                 | Wr, Rd | Wr, Wr => false
                 | _, _ => true end)
  end.

(* fcntl(F_SETLK): never blocks; a process's own lock is replaced *)
Definition setlk (n : nat) (t : table) (p : pid) (r : region) (k : kind) : option table :=
  match k with
  | NoLock => Some (upd t p r NoLock)
  | _ => if others_ok n t p r k then Some (upd t p r k) else None
  end.

(* ---- actors ---- *)
(* a sqlittle handle: progress through filePager.RLock *)
Inductive hstate := HIdle | HPending | HBoth | HLocked | HClosed.
(* a SQLite connection: its lock state *)
Inductive wstate := WUnlocked | WSharedTmp1 | WSharedTmp2 | WShared | WReserved | WPending | WExclusive | WDead.

Inductive step :=
| HLock1 (h : nat)      (* F_SETLK read lock on the pending byte *)
| HLock2 (h : nat)      (* F_SETLK read lock on the shared range; on failure the deferred unlock of pending runs *)
| HLock3 (h : nat)      (* deferred: unlock the pending byte; the handle now has its readLock *)
| HPage (h : nat)       (* a page read (only between RLock and RUnlock in program order) *)
| HUnlock (h : nat)     (* RUnlock: unlock the shared range *)
| HClose (h : nat)      (* Close: closes the descriptor *)
| WS1 (w : nat) | WS2 (w : nat) | WS3 (w : nat)   (* unixLock(SHARED): pending read, shared read, unlock pending *)
| WRes (w : nat)        (* unixLock(RESERVED): write lock on the reserved byte *)
| WPend (w : nat)       (* unixLock(EXCLUSIVE) part 1: write lock on the pending byte *)
| WExcl (w : nat)       (* part 2: write lock on the shared range *)
| WWrite (w : nat)      (* writes to the database file: only under EXCLUSIVE *)
| WUnlockAll (w : nat)  (* unixUnlock(NO_LOCK) *)
| WDie (w : nat).       (* the process dies: the kernel drops its locks *)

Inductive event := EvPage (h : nat) | EvWrite (w : nat) | EvBusy (s : step).

Record sys := { tbl : table; hst : nat -> hstate; wst : nat -> wstate; evs : list event }.

Definition set_h (f : nat -> hstate) (h : nat) (x : hstate) : nat -> hstate := fun i => if Nat.eqb i h then x else f i.
Definition set_w (f : nat -> wstate) (w : nat) (x : wstate) : nat -> wstate := fun i => if Nat.eqb i w then x else f i.

Section Sys.
  Variable n : nat.               (* processes 0 .. n-1 *)
  Variable hpid : nat -> pid.     (* the process each handle lives in *)
  Variable wpid : nat -> pid.     (* the process each SQLite connection lives in *)

  Definition init : sys := {| tbl := empty; hst := fun _ => HIdle; wst := fun _ => WUnlocked; evs := [] |}.

  Definition busy (s : sys) (st : step) : sys :=
    {| tbl := tbl s; hst := hst s; wst := wst s; evs := EvBusy st :: evs s |}.

  (* one step; a step that is not enabled in the actor's state leaves the system unchanged *)
  Definition do_step (s : sys) (st : step) : sys :=
    match st with
    | HLock1 h =>
      match hst s h with
      | HIdle => match setlk n (tbl s) (hpid h) Pending Rd with
                 | Some t => {| tbl := t; hst := set_h (hst s) h HPending; wst := wst s; evs := evs s |}
                 | None => busy s st end
      | _ => s end
    | HLock2 h =>
      match hst s h with
      | HPending => match setlk n (tbl s) (hpid h) Shared Rd with
                    | Some t => {| tbl := t; hst := set_h (hst s) h HBoth; wst := wst s; evs := evs s |}
                    | None => (* RLock fails: the deferred unlock of the pending byte runs *)
                      {| tbl := upd (tbl s) (hpid h) Pending NoLock; hst := set_h (hst s) h HIdle; wst := wst s; evs := EvBusy st :: evs s |}
                    end
      | _ => s end
    | HLock3 h =>
      match hst s h with
      | HBoth => {| tbl := upd (tbl s) (hpid h) Pending NoLock; hst := set_h (hst s) h HLocked; wst := wst s; evs := evs s |}
      | _ => s end
    | HPage h =>
      match hst s h with
      | HLocked => {| tbl := tbl s; hst := hst s; wst := wst s; evs := EvPage h :: evs s |}
      | _ => s end
    | HUnlock h =>
      match hst s h with
      | HLocked => {| tbl := upd (tbl s) (hpid h) Shared NoLock; hst := set_h (hst s) h HIdle; wst := wst s; evs := evs s |}
      | _ => s end
    | HClose h =>
      match hst s h with
      | HClosed => s
      | _ => {| tbl := drop_all (tbl s) (hpid h); hst := set_h (hst s) h HClosed; wst := wst s; evs := evs s |}
      end
    | WS1 w =>
      match wst s w with
      | WUnlocked => match setlk n (tbl s) (wpid w) Pending Rd with
                     | Some t => {| tbl := t; hst := hst s; wst := set_w (wst s) w WSharedTmp1; evs := evs s |}
                     | None => busy s st end
      | _ => s end
    | WS2 w =>
      match wst s w with
      | WSharedTmp1 => match setlk n (tbl s) (wpid w) Shared Rd with
                       | Some t => {| tbl := t; hst := hst s; wst := set_w (wst s) w WSharedTmp2; evs := evs s |}
                       | None => {| tbl := upd (tbl s) (wpid w) Pending NoLock; hst := hst s; wst := set_w (wst s) w WUnlocked; evs := EvBusy st :: evs s |}
                       end
      | _ => s end
    | WS3 w =>
      match wst s w with
      | WSharedTmp2 => {| tbl := upd (tbl s) (wpid w) Pending NoLock; hst := hst s; wst := set_w (wst s) w WShared; evs := evs s |}
      | _ => s end
    | WRes w =>
      match wst s w with
      | WShared => match setlk n (tbl s) (wpid w) Reserved Wr with
                   | Some t => {| tbl := t; hst := hst s; wst := set_w (wst s) w WReserved; evs := evs s |}
                   | None => busy s st end
      | _ => s end
    | WPend w =>
      match wst s w with
      | WReserved => match setlk n (tbl s) (wpid w) Pending Wr with
                     | Some t => {| tbl := t; hst := hst s; wst := set_w (wst s) w WPending; evs := evs s |}
                     | None => busy s st end
      | _ => s end
    | WExcl w =>
      match wst s w with
      | WPending => match setlk n (tbl s) (wpid w) Shared Wr with
                    | Some t => {| tbl := t; hst := hst s; wst := set_w (wst s) w WExclusive; evs := evs s |}
                    | None => busy s st end       (* SQLITE_BUSY; the PENDING lock is kept *)
      | _ => s end
    | WWrite w =>
      match wst s w with
      | WExclusive => {| tbl := tbl s; hst := hst s; wst := wst s; evs := EvWrite w :: evs s |}
      | _ => s end
    | WUnlockAll w =>
      match wst s w with
      | WDead => s
      | _ => {| tbl := upd (upd (upd (tbl s) (wpid w) Shared NoLock) (wpid w) Pending NoLock) (wpid w) Reserved NoLock;
                hst := hst s; wst := set_w (wst s) w WUnlocked; evs := evs s |}
      end
    | WDie w =>
      {| tbl := drop_all (tbl s) (wpid w); hst := hst s; wst := set_w (wst s) w WDead; evs := evs s |}
    end.

  Definition run (sched : list step) : sys := fold_left do_step sched init.
End Sys.
