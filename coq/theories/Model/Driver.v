(* driver/driver.go: QueryContext's producer goroutine and the consumer side of
   Rows (Next / Close / context cancellation) as a transition system: one
   atomic action per step, every interleaving.  The native scan is abstracted
   to what it would deliver: a list of rows and how it ends (nil or an error
   after those rows) - that it delivers exactly the table's rows is C01. *)
From Coq Require Import List Bool Arith.
Import ListNotations.

Section Driver.
  Variable row : Type.
  Variable err : Type.

  (* producer: st.dbh.SelectDone(table, cb, cols...) and what follows it *)
  Inductive ppc :=
  | PInit                      (* before RLock *)
  | PLoop                       (* holding the read lock, between rows *)
  | PSelect (r : row)           (* inside the callback: select { <-ctx.Done() ; rows.rows <- r } *)
  | PReturned (e : option err)  (* SelectDone has returned (its deferred RUnlock has run) *)
  | PErrSet                     (* rows.err assigned *)
  | PWgDone                     (* rows.wg.Done() *)
  | PClosed.                    (* deferred close(rows.rows) *)

  (* what the consumer does, in program order *)
  Inductive cop := CNext | CCancel | CClose.
  (* what it observed *)
  Inductive obs := ORow (r : row) | OEof | OErr (e : err) | OClosed (e : option err).

  Record st := {
    left : list row;            (* rows the scan has not delivered yet *)
    fin : option err;           (* how the scan ends after them *)
    pc : ppc;
    locked : bool;              (* the read lock of the handle *)
    err_cell : option err;      (* rows.err *)
    wg_done : bool;
    closed : bool;              (* the channel *)
    cancelled : bool;           (* ctx.Done() is closed *)
    todo : list cop;            (* the consumer's remaining program *)
    closing : bool;             (* the consumer is inside Close, after cancel(), waiting on the WaitGroup *)
    seen : list obs }.          (* newest first *)

  Definition init (rows : list row) (e : option err) (prog : list cop) : st :=
    {| left := rows; fin := e; pc := PInit; locked := false; err_cell := None; wg_done := false;
       closed := false; cancelled := false; todo := prog; closing := false; seen := [] |}.

  Definition upd_p (s : st) (p : ppc) (l : list row) (lk : bool) : st :=
    {| left := l; fin := fin s; pc := p; locked := lk; err_cell := err_cell s; wg_done := wg_done s;
       closed := closed s; cancelled := cancelled s; todo := todo s; closing := closing s; seen := seen s |}.

  (* the producer's own steps (no partner needed) *)
  Definition pstep (s : st) : list st :=
    match pc s with
    | PInit => [upd_p s PLoop (left s) true]
    | PLoop =>
      match left s with
      | r :: rest => [upd_p s (PSelect r) rest true]
      | [] => [upd_p s (PReturned (fin s)) [] false]                (* scan over: deferred RUnlock, return *)
      end
    | PSelect r =>
      if cancelled s then [upd_p s (PReturned None) (left s) false]  (* callback says done: unlock, return nil *)
      else []                                                      (* blocked until a receiver or a cancel *)
    | PReturned e =>
      [{| left := left s; fin := fin s; pc := PErrSet; locked := locked s; err_cell := e; wg_done := wg_done s;
          closed := closed s; cancelled := cancelled s; todo := todo s; closing := closing s; seen := seen s |}]
    | PErrSet =>
      [{| left := left s; fin := fin s; pc := PWgDone; locked := locked s; err_cell := err_cell s; wg_done := true;
          closed := closed s; cancelled := cancelled s; todo := todo s; closing := closing s; seen := seen s |}]
    | PWgDone =>
      [{| left := left s; fin := fin s; pc := PClosed; locked := locked s; err_cell := err_cell s; wg_done := wg_done s;
          closed := true; cancelled := cancelled s; todo := todo s; closing := closing s; seen := seen s |}]
    | PClosed => []
    end.

  Definition observe (s : st) (o : obs) (rest : list cop) (p : ppc) : st :=
    {| left := left s; fin := fin s; pc := p; locked := locked s; err_cell := err_cell s; wg_done := wg_done s;
       closed := closed s; cancelled := cancelled s; todo := rest; closing := false; seen := o :: seen s |}.

  (* the consumer's steps, including the rendezvous on the unbuffered channel *)
  Definition cstep (s : st) : list st :=
    if closing s then
      (* Rows.Close after cancel(): wg.Wait(), then return r.err *)
      if wg_done s then [observe s (OClosed (err_cell s)) (todo s) (pc s)] else []
    else
      match todo s with
      | [] => []
      | CNext :: rest =>
        match pc s with
        | PSelect r => [observe s (ORow r) rest PLoop]                 (* rendezvous: the row changes hands *)
        | _ => if closed s then
                 [observe s (match err_cell s with Some e => OErr e | None => OEof end) rest (pc s)]
               else []
        end
      | CCancel :: rest =>
        [{| left := left s; fin := fin s; pc := pc s; locked := locked s; err_cell := err_cell s; wg_done := wg_done s;
            closed := closed s; cancelled := true; todo := rest; closing := false; seen := seen s |}]
      | CClose :: rest =>
        [{| left := left s; fin := fin s; pc := pc s; locked := locked s; err_cell := err_cell s; wg_done := wg_done s;
            closed := closed s; cancelled := true; todo := rest; closing := true; seen := seen s |}]
      end.

  Definition steps (s : st) : list st := pstep s ++ cstep s.

  Inductive reach (s0 : st) : st -> Prop :=
  | reach_refl : reach s0 s0
  | reach_step : forall s s', reach s0 s -> In s' (steps s) -> reach s0 s'.

  (* a scheduler for running the model next to the implementation: producer
     first (the consumer only moves when the producer cannot), or consumer first *)
  Fixpoint run (fuel : nat) (producer_first : bool) (s : st) : st :=
    match fuel with
    | O => s
    | S k =>
      let a := if producer_first then pstep s else cstep s in
      let b := if producer_first then cstep s else pstep s in
      match a with
      | s' :: _ => run k producer_first s'
      | [] => match b with s' :: _ => run k producer_first s' | [] => s end
      end
    end.

  (* every maximal execution's observations (newest first), for the correspondence
     check: the implementation's observation must be one of these *)
  Fixpoint explore (fuel : nat) (s : st) : list (list obs * (ppc * bool)) :=
    match fuel with
    | O => []
    | S k => match steps s with
             | [] => [(seen s, (pc s, locked s))]
             | l => flat_map (explore k) l
             end
    end.
End Driver.

(* expandSelectColumns: every "*" is replaced by all columns in definition order *)
Definition expand {name} (is_star : name -> bool) (all : list name) (sel : list name) : list name :=
  flat_map (fun c => if is_star c then all else [c]) sel.

Arguments PInit {row err}.  Arguments PLoop {row err}.  Arguments PSelect {row err}.
Arguments PReturned {row err}.  Arguments PErrSet {row err}.  Arguments PWgDone {row err}.
Arguments PClosed {row err}.
Arguments ORow {row err}.  Arguments OEof {row err}.  Arguments OErr {row err}.  Arguments OClosed {row err}.
Arguments left {row err}.  Arguments fin {row err}.  Arguments pc {row err}.  Arguments locked {row err}.
Arguments err_cell {row err}.  Arguments wg_done {row err}.  Arguments closed {row err}.
Arguments cancelled {row err}.  Arguments todo {row err}.  Arguments closing {row err}.  Arguments seen {row err}.
Arguments init {row err}.  Arguments pstep {row err}.  Arguments cstep {row err}.  Arguments steps {row err}.
Arguments explore {row err}.  Arguments reach {row err}.  Arguments run {row err}.  Arguments observe {row err}.  Arguments upd_p {row err}.

(* unambiguous names for extraction *)
Definition drv_outcomes {row err} (fuel : nat) (rows : list row) (e : option err) (prog : list cop) :=
  explore fuel (init rows e prog).
