(* row.go: Row.Scan - the type switch over destinations and the five scan*
   helpers, over (stored value | missing column) x destination kind.
   strconv.FormatFloat / ParseFloat and time.Parse are library calls: their
   results enter as parameters (the harness records the real answers next to
   every case), everything else is computed here. *)
From SQ Require Import Model.Base Model.Record Model.Float.

Inductive dest := DString | DBytes | DInt64 | DInt32 | DInt | DBool | DFloat64 | DTime | DSkip | DUnsupported.

Inductive scanned :=
| SString (s : list byte)
| SBytes (b : option (list byte))        (* None: a nil slice *)
| SInt (z : Z)
| SBool (b : bool)
| SFloat (bits : Z)
| STime (sec nsec : Z) | STimeZero
| SNone                                  (* destination nil: column skipped *)
| SErr.

Section Scan.
  (* the library's answers for the value at hand *)
  Variable format_float : Z -> list byte.                (* strconv.FormatFloat(f, 'g', -1, 64) *)
  Variable parse_float : list byte -> option Z.          (* strconv.ParseFloat(s, 64): bits, None = error *)
  Variable parse_time : list byte -> option (Z * Z).     (* the two layouts of scanTime: (sec, nsec) *)

  (* decimal text of an int64 (strconv.FormatInt(n, 10)) *)
  Fixpoint dec_fuel (fuel : nat) (z : Z) (acc : list byte) : list byte :=
    match fuel with
    | O => acc
    | S k => let acc' := z2b (48 + z mod 10) :: acc in if z <? 10 then acc' else dec_fuel k (z / 10) acc'
    end.
  Definition format_int (z : Z) : list byte :=
    if z <? 0 then z2b 45 :: dec_fuel 30 (- z) [] else dec_fuel 30 z [].

  (* strconv.ParseInt(s, 10, 64): optional sign, decimal digits (no underscores in base 10), in range *)
  Definition is_digit (c : byte) : bool := (48 <=? b2z c) && (b2z c <=? 57).
  Definition digits_val (s : list byte) : Z := fold_left (fun acc c => acc * 10 + (b2z c - 48)) s 0.
  Definition parse_int (s : list byte) : option Z :=
    let '(neg, ds) := match s with
                      | c :: r => if b2z c =? 45 then (true, r) else if b2z c =? 43 then (false, r) else (false, s)
                      | [] => (false, [])
                      end in
    match ds with
    | [] => None
    | _ => if forallb is_digit ds then
             let v := if neg then - digits_val ds else digits_val ds in
             if (- 2 ^ 63 <=? v) && (v <? 2 ^ 63) then Some v else None
           else None
    end.

  (* int64(f) on amd64 (CVTTSD2SI): truncation; NaN and out of range give -2^63 *)
  Definition int_of_float (bits : Z) : Z :=
    if is_nan bits || is_inf bits then - 2 ^ 63
    else let t := f_trunc bits in if (- 2 ^ 63 <=? t) && (t <? 2 ^ 63) then t else - 2 ^ 63.

  (* stringToInt64 *)
  Definition string_to_int (s : list byte) : option Z :=
    match parse_int s with
    | Some v => Some v
    | None => match parse_float s with Some f => Some (int_of_float f) | None => None end
    end.

  Definition wrap (bits : Z) (z : Z) : Z := twos bits (z mod 2 ^ bits).

  (* scanInt64; None = error *)
  Definition scan_int (v : option value) : option Z :=
    match v with
    | None | Some VNull => Some 0
    | Some (VInt z) => Some z
    | Some (VReal f) => Some (int_of_float f)
    | Some (VText s) | Some (VBlob s) => string_to_int s
    end.

  Definition scan_float (v : option value) : option Z :=
    match v with
    | None | Some VNull => Some 0
    | Some (VInt z) => Some (f_of_int z)
    | Some (VReal f) => Some f
    | Some (VText s) | Some (VBlob s) => parse_float s
    end.

  (* one destination, one column (None: the row is shorter than the argument list) *)
  Definition scan1 (d : dest) (v : option value) : scanned :=
    match d with
    | DSkip => SNone
    | DUnsupported => SErr
    | DString =>
      SString (match v with
               | None | Some VNull => []
               | Some (VInt z) => format_int z
               | Some (VReal f) => format_float f
               | Some (VText s) | Some (VBlob s) => s
               end)
    | DBytes =>
      SBytes (match v with
              | None | Some VNull => None
              | Some (VInt z) => Some (format_int z)
              | Some (VReal f) => Some (format_float f)
              | Some (VText s) | Some (VBlob s) => Some s
              end)
    | DInt64 => match scan_int v with Some z => SInt z | None => SErr end
    | DInt32 => match scan_int v with Some z => SInt (wrap 32 z) | None => SErr end
    | DInt => match scan_int v with Some z => SInt z | None => SErr end
    | DBool => match scan_int v with Some z => SBool (negb (z =? 0)) | None => SErr end
    | DFloat64 => match scan_float v with Some f => SFloat f | None => SErr end
    | DTime =>
      match v with
      | None | Some VNull => STimeZero
      | Some (VInt z) => STime z 0
      | Some (VReal _) => SErr
      | Some (VText s) => match parse_time s with Some (a, b) => STime a b | None => SErr end
      | Some (VBlob _) => SErr
      end
    end.

  (* Row.Scan(args...): destinations are filled in order up to the first error,
     which is returned; the row itself is not touched *)
  Fixpoint scan_args (ds : list dest) (r : list value) (i : nat) : list scanned * bool :=
    match ds with
    | [] => ([], true)
    | d :: rest =>
      match scan1 d (nth_error r i) with
      | SErr => ([], false)
      | x => let '(xs, ok) := scan_args rest r (S i) in (x :: xs, ok)
      end
    end.
End Scan.

(* ---- the heap: scanned byte slices are copies ---- *)
(* buffers by identity; the page cache owns some of them *)
Definition heap := list (list byte).
Definition alloc (h : heap) (b : list byte) : heap * nat := (h ++ [b], length h).
(* scanBytes of a blob whose bytes live in buffer [src] of the page cache *)
Definition scan_bytes_ref (h : heap) (src : nat) : heap * nat := alloc h (nth src h []).
Fixpoint set_nth {A} (n : nat) (x : A) (l : list A) : list A :=
  match l, n with
  | [], _ => []
  | _ :: r, O => x :: r
  | y :: r, S k => y :: set_nth k x r
  end.
Definition write (h : heap) (id : nat) (b : list byte) : heap := set_nth id b h.
