(* db/cmp.go: collations, compare, Equals, Search (after the RTRIM and
   int/real repairs) *)
From SQ Require Import Model.Base Model.Record Model.Float.

Inductive collation := CBinary | CRtrim | CNocase.

Definition of_cmp (c : comparison) : Z := match c with Lt => -1 | Eq => 0 | Gt => 1 end.

(* strings.Compare / bytes.Compare *)
Fixpoint bytes_cmp (a b : list byte) : comparison :=
  match a, b with
  | [], [] => Eq
  | [], _ :: _ => Lt
  | _ :: _, [] => Gt
  | x :: a', y :: b' =>
    match Z.compare (b2z x) (b2z y) with Eq => bytes_cmp a' b' | c => c end
  end.

(* strings.TrimRight(s, " ") *)
Fixpoint trim_right_sp (s : list byte) : list byte :=
  match s with
  | [] => []
  | c :: r => match trim_right_sp r with
              | [] => if b2z c =? 32 then [] else [c]
              | r' => c :: r'
              end
  end.

(* the lc function of the nocase collation: A-Z to a-z, byte by byte *)
Definition lower_byte (c : byte) : byte :=
  let z := b2z c in if (65 <=? z) && (z <=? 90) then z2b (z + 32) else c.

(* nocaseCompare's loop over the common length: Some c = decided by a pair of folded bytes; None = the lengths
   decide (one text ended, or both have a NUL byte at this position: sqlite3StrNICmp stops there) *)
Fixpoint nocase_loop (a b : list byte) : option comparison :=
  match a, b with
  | x :: a', y :: b' =>
    let ca := b2z (lower_byte x) in
    let cb := b2z (lower_byte y) in
    if negb (ca =? cb) then Some (Z.compare ca cb)
    else if ca =? 0 then None
    else nocase_loop a' b'
  | _, _ => None
  end.

Definition nocase_cmp (a b : list byte) : comparison :=
  match nocase_loop a b with
  | Some c => c
  | None => Z.compare (len a) (len b)
  end.

Definition collate_cmp (c : collation) (a b : list byte) : comparison :=
  match c with
  | CBinary => bytes_cmp a b
  | CRtrim => bytes_cmp (trim_right_sp a) (trim_right_sp b)
  | CNocase => nocase_cmp a b
  end.

Definition cmp_float64 (a b : Z) : Z :=
  match fcmp a b with Some Lt => -1 | Some Eq => 0 | _ => 1 end.

Definition cmp_int_float (i : Z) (r : Z) : Z :=
  if is_nan r then 1
  else if match f_cmp_int r (- 2 ^ 63) with Lt => true | _ => false end then 1
  else if match f_cmp_int r (2 ^ 63) with Lt => false | _ => true end then -1
  else
    let y := f_trunc r in
    if i <? y then -1 else if y <? i then 1 else cmp_float64 (f_of_int i) r.

Definition compare (a b : value) (c : collation) : Z :=
  match a, b with
  | VNull, VNull => 0
  | VNull, _ => -1
  | VInt _, VNull => 1
  | VInt x, VInt y => of_cmp (Z.compare x y)
  | VInt x, VReal y => cmp_int_float x y
  | VInt _, _ => -1
  | VReal _, VNull => 1
  | VReal x, VInt y => - cmp_int_float y x
  | VReal x, VReal y => cmp_float64 x y
  | VReal _, _ => -1
  | VText _, (VNull | VInt _ | VReal _) => 1
  | VText x, VText y => of_cmp (collate_cmp c x y)
  | VText _, VBlob _ => -1
  | VBlob x, VBlob y => of_cmp (bytes_cmp x y)
  | VBlob _, _ => 1
  end.

Record keycol := { kv : value; kcoll : collation; kdesc : bool }.
Definition key := list keycol.

Fixpoint equals (k : key) (r : record) : bool :=
  match k with
  | [] => true
  | kc :: k' =>
    match r with
    | [] => false
    | v :: r' => if compare (kv kc) v (kcoll kc) =? 0 then equals k' r' else false
    end
  end.

(* True if r is eq or bigger than key *)
Fixpoint search (k : key) (r : record) : bool :=
  match k with
  | [] => true
  | kc :: k' =>
    match r with
    | [] => false
    | v :: r' =>
      let c := compare (kv kc) v (kcoll kc) in
      if kdesc kc then
        (if 0 <? c then true else if c =? 0 then search k' r' else false)
      else
        (if c <? 0 then true else if c =? 0 then search k' r' else false)
    end
  end.
