(* db/bits.go: readVarint, readTwos24, readTwos48 *)
From SQ Require Import Model.Base.

(* the loop of readVarint: [i] is the loop index, [n] the accumulator.
   Returns (unsigned 64-bit value, number of bytes used) or None for the
   Go result (0, -1). *)
Fixpoint rv_loop (fuel : nat) (i : Z) (n : Z) (b : list byte) : option (Z * Z) :=
  match fuel with
  | O => None
  | S f =>
    match b with
    | [] => None
    | c :: rest =>
      let c := b2z c in
      if i =? 8 then Some ((n * 256 + c) mod 2 ^ 64, i + 1)
      else let n' := (n * 128 + c mod 128) mod 2 ^ 64 in
           if c <? 128 then Some (n', i + 1) else rv_loop f (i + 1) n' rest
    end
  end.

(* (value as int64, bytes used); None = "(0, -1)" *)
Definition read_varint (b : list byte) : option (Z * Z) :=
  match rv_loop 9 0 0 b with
  | Some (u, n) => Some (to_i64 u, n)
  | None => None
  end.

Definition read_twos24 (b : list byte) : Z := twos 24 (be (firstn 3 b)).
Definition read_twos48 (b : list byte) : Z := twos 48 (be (firstn 6 b)).
