(* db/database.go: the state of a long-lived handle - dirty flag, header,
   page cache (db/cache.go), object cache - and how every transaction
   re-validates it: RLock, resolveDirty, openPage, master. *)
From SQ Require Import Model.Base Model.Varint Model.Record Model.Payload Model.Btree
     Model.Page Model.Cmp Model.Header Model.Low.

(* what a call finds on disk: the database file, the -journal file (None: no
   such file) and whether some connection holds SQLite's RESERVED lock *)
Record env := { e_img : list byte; e_journal : option (list byte); e_reserved : bool }.

Record dbstate := {
  d_dirty : bool;                               (* reload the header before the next page *)
  d_header : option header;
  d_cache : list (Z * page);                    (* btreeCache: page number -> parsed page *)
  d_master : option (flow * list master_row) }. (* objectCache: sqlite_master rows and the error *)

Definition cache_pages : nat := 100.            (* CachePages *)

(* newDatabase: nothing cached, header to be read *)
Definition init_state : dbstate :=
  {| d_dirty := true; d_header := None; d_cache := []; d_master := None |}.

(* Database.RLock (the pager's lock succeeded) *)
Definition rlock (st : dbstate) : dbstate :=
  {| d_dirty := true; d_header := d_header st; d_cache := d_cache st; d_master := d_master st |}.

(* parseHeader of the first 100 bytes (pager.page(1, headerSize)) *)
Definition hdr (img : list byte) : res header := parse_header (take 100 img).

Definition journal_check (e : env) : res unit :=
  match e_journal e with
  | Some j => if valid_journal j then (if e_reserved e then Ok tt else Err EHotJournal) else Ok tt
  | None => Ok tt
  end.

Definition resolve_dirty (e : env) (st : dbstate) : res dbstate :=
  if negb (d_dirty st) then Ok st
  else
    do _ <- journal_check e;
    do h <- hdr (e_img e);
    let same f := match d_header st with Some old => f old =? f h | None => true end in
    Ok {| d_dirty := false; d_header := Some h;
          d_cache := if same h_change then d_cache st else [];
          d_master := if same h_cookie then d_master st else None |}.

Fixpoint cache_get (c : list (Z * page)) (n : Z) : option page :=
  match c with
  | [] => None
  | (m, p) :: r => if m =? n then Some p else cache_get r n
  end.

(* btreeCache.set: a full cache is dropped as a whole *)
Definition cache_set (c : list (Z * page)) (n : Z) (p : page) : list (Z * page) :=
  (n, p) :: (if Nat.leb cache_pages (length c) then [] else c).

(* Database.openPage *)
Definition open_page (e : env) (st : dbstate) (n : Z) : res page * dbstate :=
  match resolve_dirty e st with
  | Err x => (Err x, st)
  | Ok st1 =>
    match cache_get (d_cache st1) n with
    | Some p => (Ok p, st1)
    | None =>
      match d_header st1 with
      | None => (Err EPanic, st1)          (* db.header is nil: not reachable after resolveDirty *)
      | Some h =>
        let U := h_pagesize h in
        match openp (image_pager (e_img e) U) U n with
        | Err x => (Err x, st1)
        | Ok p => (Ok p, {| d_dirty := d_dirty st1; d_header := d_header st1;
                            d_cache := cache_set (d_cache st1) n p; d_master := d_master st1 |})
        end
      end
    end
  end.

(* what an uncached reader of the current file would see *)
Definition pure_open (img : list byte) (n : Z) : res page :=
  match hdr img with
  | Err x => Err x
  | Ok h => openp (image_pager img (h_pagesize h)) (h_pagesize h) n
  end.

Definition pure_master (img : list byte) : flow * list master_row :=
  match hdr img with
  | Err x => (Fail x, [])
  | Ok h => let U := h_pagesize h in
            master (image_pager img U) (openp (image_pager img U) U) (image_pages img U)
  end.

(* Database.master *)
Definition master_st (e : env) (st : dbstate) : (flow * list master_row) * dbstate :=
  match resolve_dirty e st with
  | Err x => ((Fail x, []), st)
  | Ok st1 =>
    match d_master st1 with
    | Some m => (m, st1)
    | None =>
      let m := pure_master (e_img e) in
      (m, {| d_dirty := d_dirty st1; d_header := d_header st1; d_cache := d_cache st1; d_master := Some m |})
    end
  end.

(* a read transaction: RLock, then any sequence of page requests *)
Fixpoint read_pages (e : env) (st : dbstate) (reqs : list Z) : list (res page) * dbstate :=
  match reqs with
  | [] => ([], st)
  | n :: rest => let '(r, st1) := open_page e st n in
                 let '(rs, st2) := read_pages e st1 rest in (r :: rs, st2)
  end.

Definition txn (e : env) (st : dbstate) (reqs : list Z) : list (res page) * dbstate :=
  read_pages e (rlock st) reqs.
