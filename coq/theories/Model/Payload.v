(* db/btree.go: calculateCellInPageBytes, parsePayload; db/payload.go: addOverflow *)
From SQ Require Import Model.Base Model.Varint.

Record cell_payload := { pl_len : Z; pl_local : list byte; pl_ovf : Z }.

Definition cell_in_page_bytes (l pagesize maxinpage : Z) : Z :=
  let u := pagesize in
  let p := l in
  let x := maxinpage in
  let m := ((u - 12) * 32 / 255) - 23 in
  let k := m + Z.rem (p - m) (u - 4) in
  if p <=? x then l else if k <=? x then k else m.

Definition table_max_local (u : Z) : Z := u - 35.
Definition index_max_local (u : Z) : Z := ((u - 12) * 64 / 255) - 23.

Definition parse_payload (l : Z) (c : list byte) (pagesize maxinpage : Z) : res cell_payload :=
  if l <? 0 then Err ECorrupt
  else
    let inpage := cell_in_page_bytes l pagesize maxinpage in
    if inpage =? l then
      if len c <? l then Err ECorrupt
      else Ok {| pl_len := l; pl_local := c; pl_ovf := 0 |}
    else if len c <? inpage + 4 then Err ECorrupt
    else
      do loc <- slice_to c inpage;
      do ptr <- slice c inpage (inpage + 4);
      let ovf := be ptr in
      if ovf =? 0 then Err ECorrupt
      else Ok {| pl_len := l; pl_local := loc; pl_ovf := ovf |}.

Section Overflow.
  (* the pager: page number -> page bytes.  Err EIO models I/O errors and
     reads beyond the end of the file. *)
  Variable pg : Z -> res (list byte).

  (* Database.page(): page numbers start at 1 *)
  Definition db_page (id : Z) : res (list byte) :=
    if id <? 1 then Err EPageNo else pg id.

  Fixpoint ovf_walk (fuel : nat) (seen : list Z) (to : list byte) (plen : Z) (ovf : Z)
    : res (list byte) :=
    if ovf =? 0 then
      if len to <? plen then Err ECorrupt else slice_to to plen
    else if plen <=? len to then Err ECorrupt
    else if existsb (Z.eqb ovf) seen then Err ECorrupt
    else
      match fuel with
      | O => Err EFuel
      | S f =>
        do buf <- db_page ovf;
        do nxt <- slice_to buf 4;
        do rest <- slice_from buf 4;
        ovf_walk f (ovf :: seen) (to ++ rest) plen (be nxt)
      end.

  (* [npages]: an upper bound on the number of distinct readable pages; the
     walk visits each page at most once, so npages+1 iterations suffice. *)
  Definition add_overflow (npages : nat) (pl : cell_payload) : res (list byte) :=
    ovf_walk (S npages) [] (pl_local pl) (pl_len pl) (pl_ovf pl).
End Overflow.
