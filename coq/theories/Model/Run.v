(* The command interpreter that makes the model executable side by side with
   the Go harness: one text command in, text lines out, same canonical
   format as harness/cmd/implrun.  Evaluated extracted (OCaml) and, for the
   cross-check, by vm_compute. *)
From Coq Require Import String.
From SQ Require Import Model.Base Model.Text Model.Varint Model.Record Model.Payload
     Model.Btree Model.Page Model.Float Model.Cmp Model.Header Model.Low Model.High.
Open Scope Z_scope.

Definition show_err (e : err) : list byte :=
  match e with
  | ECorrupt => B"corrupt" | EInternal => B"internal" | ERecursion => B"recursion"
  | EPageNo => B"pageno" | EPageType => B"pagetype" | ECellPtr => B"cellptr"
  | EKind => B"kind" | EInvalidDef => B"invaliddef" | EIO => B"io"
  | EHeader 1 => B"magic" | EHeader 2 => B"pagesize" | EHeader 3 => B"wal"
  | EHeader 5 => B"reserved" | EHeader 6 => B"encoding" | EHeader _ => B"incompatible"
  | EHotJournal => B"hotjournal" | ENoSuch => B"nosuch" | EOther => B"other"
  | EPanic => B"PANIC" | EFuel => B"DIVERGE"
  end.

(* values: n | i<dec> | f<16 hex> | t<hex> | b<hex> *)
Definition show_value (v : value) : list byte :=
  match v with
  | VNull => B"n"
  | VInt z => B"i" ++ show_Z z
  | VReal b => B"f" ++ hex_of_Z16 b
  | VText s => B"t" ++ hex s
  | VBlob s => B"b" ++ hex s
  end.
Definition read_value (s : list byte) : value :=
  match s with
  | c :: r =>
    if Byte.eqb c "i"%byte then VInt (read_Z r)
    else if Byte.eqb c "f"%byte then VReal (Z_of_hex r)
    else if Byte.eqb c "t"%byte then VText (unhex r)
    else if Byte.eqb c "b"%byte then VBlob (unhex r)
    else VNull
  | [] => VNull
  end.
Definition show_record (r : record) : list byte :=
  match r with [] => B"-" | _ => join B"," (map show_value r) end.
Definition read_record (s : list byte) : record :=
  if bytes_eqb s B"-" then [] else map read_value (split_on ","%byte s []).

(* key column: value/collation/direction, e.g. t6161/n/d *)
Definition read_keycol (s : list byte) : keycol :=
  match split_on "/"%byte s [] with
  | [v; c; d] =>
    {| kv := read_value v;
       kcoll := if bytes_eqb c B"n" then CNocase else if bytes_eqb c B"r" then CRtrim else CBinary;
       kdesc := bytes_eqb d B"d" |}
  | _ => {| kv := VNull; kcoll := CBinary; kdesc := false |}
  end.
Definition read_key (s : list byte) : key :=
  if bytes_eqb s B"-" then [] else map read_keycol (split_on ","%byte s []).

Definition show_bool (b : bool) : list byte := if b then B"true" else B"false".
Definition show_flow (f : flow) : list byte :=
  match f with Continue => B"end ok" | Stop => B"end stop" | Fail e => B"end err " ++ show_err e end.

Definition show_payload (pl : cell_payload) : list byte :=
  show_Z (pl_len pl) ++ B":" ++ show_Z (pl_ovf pl) ++ B":" ++
  (* the local part: only the bytes that belong to the payload *)
  hex (if pl_ovf pl =? 0 then take (pl_len pl) (pl_local pl) else pl_local pl).

Definition show_page (p : page) : list (list byte) :=
  match p with
  | GTLeaf cells => B"tleaf" :: map (fun c => B"cell " ++ show_Z (fst c) ++ B" " ++ show_payload (snd c)) cells
  | GTInterior cells r => (B"tinterior " ++ show_Z r) ::
                          map (fun c => B"cell " ++ show_Z (fst c) ++ B" " ++ show_Z (snd c)) cells
  | GILeaf cells => B"ileaf" :: map (fun c => B"cell " ++ show_payload c) cells
  | GIInterior cells r => (B"iinterior " ++ show_Z r) ::
                          map (fun c => B"cell " ++ show_Z (fst c) ++ B" " ++ show_payload (snd c)) cells
  end.

(* ---- commands that need no database ---- *)
Definition run_pure (w : list (list byte)) : option (list (list byte)) :=
  match w with
  | [cmd; h] =>
    if bytes_eqb cmd B"varint" then
      Some [match read_varint (unhex h) with
            | Some (v, n) => B"some " ++ show_Z v ++ B" " ++ show_Z n
            | None => B"none" end]
    else if bytes_eqb cmd B"record" then
      Some [match parse_record (unhex h) with
            | Ok r => B"ok " ++ show_record r
            | Err e => B"err " ++ show_err e end]
    else if bytes_eqb cmd B"header" then
      Some [match parse_header (unhex h) with
            | Ok hd => B"ok " ++ show_Z (h_pagesize hd) ++ B" " ++ show_Z (h_change hd) ++ B" " ++ show_Z (h_cookie hd)
            | Err e => B"err " ++ show_err e end]
    else if bytes_eqb cmd B"journal" then
      Some [show_bool (valid_journal (unhex h))]
    else None
  | [cmd; a; b; c] =>
    if bytes_eqb cmd B"cellsize" then
      Some [show_Z (cell_in_page_bytes (read_Z a) (read_Z b) (read_Z c))]
    else if bytes_eqb cmd B"page" then
      Some (match parse_page (unhex c) (bytes_eqb a B"1") (read_Z b) with
            | Ok p => show_page p ++ [B"end ok"]
            | Err e => [B"end err " ++ show_err e] end)
    else if bytes_eqb cmd B"cmp" then
      let coll := if bytes_eqb a B"n" then CNocase else if bytes_eqb a B"r" then CRtrim else CBinary in
      Some [show_Z (compare (read_value b) (read_value c) coll)]
    else None
  | [cmd; a; b] =>
    if bytes_eqb cmd B"equals" then Some [show_bool (equals (read_key a) (read_record b))]
    else if bytes_eqb cmd B"search" then Some [show_bool (search (read_key a) (read_record b))]
    else None
  | _ => None
  end.

(* ---- commands on a database ---- *)
Section Db.
  Variable pg : Z -> res (list byte).
  Variable op : Z -> res page.   (* Database.openPage: the parsed page n *)
  Variable npages : nat.

  Definition lim (s : list byte) : option Z := let z := read_Z s in if z <=? 0 then None else Some z.

  (* Go's Scan functions return only an error: whether the traversal ended
     because the caller's callback said "done" is known to the caller alone
     (it asked to stop iff it has seen its limit of rows) *)
  Definition caller_flow {A} (limit : option Z) (x : flow * list A) : flow :=
    match fst x with
    | Fail e => Fail e
    | _ => match limit with
           | Some k => if k <=? Z.of_nat (length (snd x)) then Stop else Continue
           | None => Continue
           end
    end.
  Definition show_rows (limit : option Z) (x : flow * list record) : list (list byte) :=
    map (fun r => B"row " ++ show_record r) (rev_append (snd x) []) ++ [show_flow (caller_flow limit x)].
  Definition show_trows (limit : option Z) (x : flow * list (Z * record)) : list (list byte) :=
    map (fun r => B"row " ++ show_Z (fst r) ++ B" " ++ show_record (snd r)) (rev_append (snd x) []) ++ [show_flow (caller_flow limit x)].

  Definition run_db (w : list (list byte)) : list (list byte) :=
    match w with
    | [cmd] =>
      if bytes_eqb cmd B"master" then
        let '(f, rows) := master pg op npages in
        map (fun m => B"obj " ++ hex (m_typ m) ++ B" " ++ hex (m_name m) ++ B" " ++ hex (m_tbl m)
                       ++ B" " ++ show_Z (m_root m) ++ B" " ++ hex (m_sql m)) rows ++ [show_flow f]
      else [B"unknown"]
    | [cmd; root; a] =>
      if bytes_eqb cmd B"scan" then
        show_trows (lim a) (table_scan pg op npages _ (read_Z root) (collect_row (lim a)) [])
      else if bytes_eqb cmd B"iscan" then
        show_rows (lim a) (index_scan pg op npages _ (read_Z root) (collect_rec (lim a)) [])
      else if bytes_eqb cmd B"rowid" then
        [match table_rowid pg op npages (read_Z root) (read_Z a) with
         | Ok (Some r) => B"found " ++ show_record r
         | Ok None => B"notfound"
         | Err e => B"err " ++ show_err e end]
      else if bytes_eqb cmd B"page" then
        (* page ROOT x : dump a parsed page of the database *)
        match op (read_Z root) with
        | Ok p => show_page p ++ [B"end ok"]
        | Err e => [B"end err " ++ show_err e]
        end
      else [B"unknown"]
    | [cmd; root; a; k] =>
      if bytes_eqb cmd B"imin" then
        show_rows (lim a) (index_scan_min pg op npages _ (read_Z root) (read_key k) (collect_rec (lim a)) [])
      else if bytes_eqb cmd B"ieq" then
        show_rows (lim a) (index_scan_eq pg op npages _ (read_Z root) (read_key k) (collect_rec (lim a)) [])
      else [B"unknown"]
    | [cmd; root; a; k1; k2] =>
      if bytes_eqb cmd B"irange" then
        show_rows (lim a) (index_scan_range pg op npages _ (read_Z root) (read_key k1) (read_key k2)
                                    (collect_rec (lim a)) [])
      else [B"unknown"]
    | _ => [B"unknown"]
    end.
End Db.

(* ---- high level API ---- *)
(* schema dump: W;R;COLS;PK;PKNAME;INDEXES (see harness/hcommon ShowSchema) *)
Definition is_dash (s : list byte) : bool := bytes_eqb s B"-".
Definition read_icol (s : list byte) : icol :=
  match split_on ":"%byte s [] with
  | [n; c; d] => {| ic_name := unhex n; ic_coll := unhex c; ic_desc := bytes_eqb d B"d" |}
  | _ => {| ic_name := []; ic_coll := []; ic_desc := false |}
  end.
Definition read_icols (s : list byte) : list icol :=
  if is_dash s then [] else map read_icol (split_on "+"%byte s []).
Definition read_tcol (s : list byte) : tcol :=
  match split_on ":"%byte s [] with
  | [n; r; d] => {| tc_name := unhex n; tc_rowid := bytes_eqb r B"1"; tc_default := read_value d |}
  | _ => {| tc_name := []; tc_rowid := false; tc_default := VNull |}
  end.
Definition read_sindex (s : list byte) : sindex :=
  match split_on "="%byte s [] with
  | [n; cs] => {| si_name := unhex n; si_cols := read_icols cs |}
  | _ => {| si_name := []; si_cols := [] |}
  end.
Definition read_schema (s : list byte) : option schema :=
  match split_on ";"%byte s [] with
  | [w; r; cols; pk; pkname; inds] =>
    Some {| s_worowid := bytes_eqb w B"1";
            s_cols := if is_dash cols then [] else map read_tcol (split_on ","%byte cols []);
            s_rowidpk := bytes_eqb r B"1";
            s_pk := read_icols pk;
            s_pkname := if is_dash pkname then [] else unhex pkname;
            s_indexes := if is_dash inds then [] else map read_sindex (split_on "/"%byte inds []) |}
  | _ => None
  end.
Definition read_names (s : list byte) : list (list byte) :=
  if is_dash s then [] else map unhex (split_on ","%byte s []).
Definition read_hkey (s : list byte) : list value :=
  if is_dash s then [] else map read_value (split_on ","%byte s []).

(* every entry point of sqlittle.go takes the read lock and releases it by a
   deferred call: the events the pager sees around the operation *)
Definition rlock_events : list byte := B"locks lock,unlock locked=false".

Section Hl.
  Variable pg : Z -> res (list byte).
  Variable op : Z -> res page.   (* Database.openPage: the parsed page n *)
  Variable npages : nat.

  Definition show_hrows (limit : option Z) (x : flow * list row) : list (list byte) :=
    map (fun r => B"row " ++ show_record r) (rev_append (snd x) []) ++ [show_flow (caller_flow limit x); rlock_events].

  (* a high level command once the schema record is known: cmd, table, remaining arguments *)
  Definition run_hl_sc (cmd : list byte) (sc : schema) (table : list byte) (rest : list (list byte)) : option (list (list byte)) :=
    match rest with
    | [a; cols] =>
      if bytes_eqb cmd B"hselect" then
        Some (show_hrows (lim a) (h_select pg op npages _ (collect_hrow (lim a)) sc table (read_names cols) []))
      else if bytes_eqb cmd B"hselectrowid" then
        Some (show_hrows None (h_select_rowid pg op npages _ (collect_hrow None) sc table (read_Z a) (read_names cols) []))
      else if bytes_eqb cmd B"hiselect" then
        Some (show_hrows None (h_indexed_select pg op npages _ (collect_hrow None) sc table (unhex a) (read_names cols) []))
      else if bytes_eqb cmd B"hpkselect" then
        Some (show_hrows None (h_pk_select pg op npages _ (collect_hrow None) sc table (read_hkey a) (read_names cols) []))
      else None
    | [a; k; cols] =>
      if bytes_eqb cmd B"hiselecteq" then
        Some (show_hrows None (h_indexed_select_eq pg op npages _ (collect_hrow None) sc table (unhex a) (read_hkey k) (read_names cols) []))
      else None
    | _ => None
    end.

  Definition run_hl (w : list (list byte)) : option (list (list byte)) :=
    match w with
    | cmd :: sch :: table :: rest =>
      match read_schema sch with
      | None => None
      | Some sc => run_hl_sc cmd sc (unhex table) rest
      end
    | _ => None
    end.
End Hl.

(* [op] is the page store: [openp pg U], possibly memoised by the driver *)
Definition run_line_with (pg : Z -> res (list byte)) (op : Z -> res page) (npages : nat) (line : list byte)
  : list (list byte) :=
  let w := words line in
  match run_pure w with
  | Some out => out
  | None =>
    match run_hl pg op npages w with
    | Some out => out
    | None => run_db pg op npages w
    end
  end.

Definition run_line (pg : Z -> res (list byte)) (U : Z) (npages : nat) (line : list byte)
  : list (list byte) := run_line_with pg (openp pg U) npages line.
