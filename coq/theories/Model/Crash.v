(* SQLite's rollback-journal commit (atomiccommit.html, pager.c) as the
   sequence of file operations a writer performs, and the states a crash -
   the process dies before, or in the middle of, any of them - leaves behind.
   Only what the reader looks at is modelled bytewise: the journal's first
   header.  The database file is abstract: untouched / partly overwritten. *)
From SQ Require Import Model.Base Model.Header.

Definition magic_bytes : list byte := map z2b journal_magic.

(* overwrite the beginning of a file *)
Definition overwrite (f bs : list byte) : list byte := bs ++ skipn (length bs) f.

Inductive wop :=
| OJCreate (sector : list byte)  (* open the journal; first header sector with magic and nRec ZEROED (writeJournalHdr without SAFE_APPEND) *)
| OJAppend (bs : list byte)      (* page records, later headers: appended beyond the first sector *)
| OJPatch (off : nat) (bs : list byte)  (* a later header's magic and record count: an overwrite beyond the first 28 bytes *)
| OJSync
| OJMagic (nrec : list byte)     (* syncJournal: the real magic and record count go into bytes 0..11 *)
| ODbWrite                       (* a page of the database file is overwritten (needs EXCLUSIVE) *)
| ODbSync
| OCommitDelete                  (* journal_mode=DELETE: unlink *)
| OCommitTruncate                (* TRUNCATE: truncate to 0 *)
| OCommitZero.                   (* PERSIST: the header is overwritten with zeros *)

Record cstate := {
  cj : option (list byte);       (* the journal file (None: no such file) *)
  cmod : bool;                   (* the database file differs from the pre-transaction image *)
  cdone : bool }.                (* the commit point has been passed: the database file is the post-image *)

Definition cinit (old : option (list byte)) : cstate := {| cj := old; cmod := false; cdone := false |}.

(* pwrite at an offset: the file is zero-filled up to the offset if shorter *)
Definition patch (f : list byte) (off : nat) (bs : list byte) : list byte :=
  firstn off (f ++ repeat x00 (off - length f)) ++ bs ++ skipn (off + length bs) f.

(* [part]: how many bytes of a write reach the file (None: all of it) *)
Definition cut (part : option nat) (bs : list byte) : list byte :=
  match part with None => bs | Some i => firstn i bs end.

Definition jbytes (s : cstate) : list byte := match cj s with Some j => j | None => [] end.

Definition cstep (part : option nat) (s : cstate) (o : wop) : cstate :=
  match o with
  | OJCreate sector => {| cj := Some (overwrite (jbytes s) (cut part sector)); cmod := cmod s; cdone := cdone s |}
  | OJAppend bs => {| cj := Some (jbytes s ++ cut part bs); cmod := cmod s; cdone := cdone s |}
  | OJPatch off bs => {| cj := Some (patch (jbytes s) off (cut part bs)); cmod := cmod s; cdone := cdone s |}
  | OJMagic nrec => {| cj := Some (overwrite (jbytes s) (cut part (magic_bytes ++ nrec))); cmod := cmod s; cdone := cdone s |}
  | ODbWrite => {| cj := cj s; cmod := true; cdone := cdone s |}
  | OJSync | ODbSync => s
  | OCommitDelete => {| cj := None; cmod := cmod s; cdone := true |}
  | OCommitTruncate => {| cj := Some []; cmod := cmod s; cdone := true |}
  | OCommitZero =>
    match part with
    | Some O => s                                   (* nothing written yet *)
    | _ => {| cj := Some (overwrite (jbytes s) (cut part (repeat x00 28))); cmod := cmod s; cdone := true |}
    end
  end.

(* the state after the first k operations completed and the next one was cut *)
Definition crash (old : option (list byte)) (ops : list wop) (k : nat) (part : option nat) : cstate :=
  let s := fold_left (cstep None) (firstn k ops) (cinit old) in
  match part, nth_error ops k with
  | Some i, Some o => cstep (Some i) s o
  | _, _ => s
  end.

(* the order SQLite keeps: create; records; MAGIC; then - only then - database
   writes and further appends; one commit operation; nothing afterwards *)
Inductive phase := PStart | PBuilding | PHot | PDone.

Definition next (p : phase) (o : wop) : option phase :=
  match p, o with
  | PStart, OJCreate _ => Some PBuilding
  | PBuilding, (OJAppend _ | OJSync) => Some PBuilding
  | PBuilding, OJMagic _ => Some PHot
  | PHot, (OJAppend _ | OJSync | ODbWrite | ODbSync) => Some PHot
  | PHot, OJPatch off _ => if Nat.leb 28 off then Some PHot else None
  | PHot, (OCommitDelete | OCommitTruncate | OCommitZero) => Some PDone
  | PDone, (OJSync | ODbSync) => Some PDone      (* the directory / journal sync after the commit operation *)
  | _, _ => None
  end.

Fixpoint phases (p : phase) (ops : list wop) : option phase :=
  match ops with
  | [] => Some p
  | o :: rest => match next p o with Some q => phases q rest | None => None end
  end.

(* a well-formed first header sector: a sector size in range, the sector full *)
Definition sector_ok (sector : list byte) : Prop :=
  let ss := twos 32 (fld sector 20 4) in
  512 <= ss <= 65536 /\ ss <= len sector /\ 28 <= len sector.

Definition wf_ops (ops : list wop) : Prop :=
  (exists p, phases PStart ops = Some p) /\
  (forall sector, In (OJCreate sector) ops -> sector_ok sector) /\
  (forall nrec, In (OJMagic nrec) ops -> length nrec = 4%nat).
