(* sql/parser.go: goyacc's driver loop ($$run), transcribed once and generic
   in the tables; the tables, token numbers, keyword table and all semantic
   actions come from Gen/ParserTables.v, regenerated from the source on every
   run.  Value-stack slots carry a freshness bit per field: a reduction's
   yyVAL starts as a copy of the slot it will overwrite (stale), the action
   assigns one field (fresh); reading a stale field is reported - that is how
   "what the parser reports about an element depends only on that element" is
   decided on a run. *)
From Coq Require Import ZArith List String Bool Ascii.
From SQ Require Import Gen.ParserTables.
Import ListNotations.
Open Scope string_scope.
Open Scope Z_scope.

(* semantic values *)
Inductive val :=
| VZero                                   (* nil / the zero value *)
| VStr (s : string) | VInt (z : Z) | VFloat (bits : Z) | VBool (b : bool)
| VNamed (ty : string) (v : val)          (* a value of a named non-struct type: ExColumn("a"), SortOrder(1), ccNull(true) *)
| VList (l : list val)
| VStruct (n : string) (fs : list (string * val)).

Record slot := { st : Z; fields : list (string * (val * bool)) }.   (* bool: fresh *)
Definition zero_slot : slot := {| st := 0; fields := [] |}.

Fixpoint get (f : string) (fs : list (string * (val * bool))) : val * bool :=
  match fs with
  | [] => (VZero, true)              (* never written: Go's zero value, nothing stale about it *)
  | (g, v) :: r => if String.eqb f g then v else get f r
  end.
Definition set (f : string) (v : val * bool) (fs : list (string * (val * bool))) := (f, v) :: fs.
Definition stale_all (fs : list (string * (val * bool))) : list (string * (val * bool)) :=
  map (fun x => (fst x, (fst (snd x), false))) fs.

Inductive outcome :=
| Accept (r : val)                       (* yyParse returned 0: (result, nil) *)
| Reject (r : val)                       (* syntax error: (result so far, error) *)
| StaleRead (prod : nat) (k : nat) (f : string)
| BadTable (why : string)                (* an index out of range in the Go code: a panic *)
| OutOfFuel.

Definition nthZ (l : list Z) (i : Z) : option Z := if i <? 0 then None else nth_error l (Z.to_nat i).

Record token := { ttyp : Z; ts : string; tn : Z; tf : Z }.

(* yylex1: the lexer's token number to the parser's internal numbering *)
Definition lex1 (c : Z) : option Z :=
  let r :=
    if c <=? 0 then nthZ yyTok1 0
    else if c <? Z.of_nat (List.length yyTok1) then nthZ yyTok1 c
    else if (yyPrivate <=? c) && (c <? yyPrivate + Z.of_nat (List.length yyTok2)) then nthZ yyTok2 (c - yyPrivate)
    else Some 0 in                        (* yyTok3 is empty *)
  match r with Some 0 => nthZ yyTok2 1 | x => x end.

(* constants and conversions the actions use *)
Definition const_val (c : string) : val :=
  if String.eqb c "Asc" then VNamed "SortOrder" (VInt 0)
  else if String.eqb c "Desc" then VNamed "SortOrder" (VInt 1)
  else if String.eqb c "ActionSetNull" then VNamed "TriggerAction" (VInt 0)
  else if String.eqb c "ActionSetDefault" then VNamed "TriggerAction" (VInt 1)
  else if String.eqb c "ActionCascade" then VNamed "TriggerAction" (VInt 2)
  else if String.eqb c "ActionRestrict" then VNamed "TriggerAction" (VInt 3)
  else if String.eqb c "ActionNoAction" then VNamed "TriggerAction" (VInt 4)
  else VNamed c VZero.

Definition strip (v : val) : val := match v with VNamed _ x => x | x => x end.

Definition positional (n : string) : list string :=
  if String.eqb n "ccPrimaryKey" then ["sort"; "autoincrement"]
  else if String.eqb n "TablePrimaryKey" then ["IndexedColumns"]
  else if String.eqb n "ExFunction" then ["F"; "Args"]
  else if String.eqb n "ExBinaryOp" then ["Op"; "Left"; "Right"]
  else [].

Fixpoint name_fields (names : list string) (fs : list (string * val)) : list (string * val) :=
  match fs with
  | [] => []
  | (g, v) :: r =>
    if String.eqb g "" then
      match names with n :: ns => (n, v) :: name_fields ns r | [] => (g, v) :: name_fields [] r end
    else (g, v) :: name_fields (tl names) r
  end.

Fixpoint field (f : string) (fs : list (string * val)) : val :=
  match fs with [] => VZero | (g, v) :: r => if String.eqb f g then v else field f r end.

(* sql.go: AsString / AsColumn / newIndexColumn (the text of an expression column) *)
Definition str_of (v : val) : string := match strip v with VStr s => s | _ => "" end.

Fixpoint join_str (sep : string) (l : list string) : string :=
  match l with [] => "" | [x] => x | x :: r => x ++ sep ++ join_str sep r end.

Fixpoint dec_fuel (fuel : nat) (z : Z) (acc : string) : string :=
  match fuel with
  | O => acc
  | S k => let acc' := String (ascii_of_nat (48 + Z.to_nat (z mod 10))) acc in
           if z <? 10 then acc' else dec_fuel k (z / 10) acc'
  end.
Definition dec_of_Z (z : Z) : string := if z <? 0 then "-" ++ dec_fuel 30 (- z) "" else dec_fuel 30 z "".
(* AsString: only what can be compared without Go's number formatting; the
   rest is marked (the check compares expression texts only when simple) *)
Fixpoint as_string (fuel : nat) (e : val) : string :=
  match fuel with
  | O => "?"
  | S k =>
    match e with
    | VNamed "ExColumn" (VStr s) => """" ++ s ++ """"
    | VStr s => "'" ++ s ++ "'"
    | VStruct "ExFunction" fs =>
      """" ++ str_of (field "F" fs) ++ """(" ++
      join_str ", " (match field "Args" fs with VList l => map (as_string k) l | _ => [] end) ++ ")"
    | VStruct "ExBinaryOp" fs => as_string k (field "Left" fs) ++ str_of (field "Op" fs) ++ as_string k (field "Right" fs)
    | VInt z => dec_of_Z z
    | VFloat _ => "#float"
    | _ => "bug"
    end
  end.

Definition new_index_column (e coll sort : val) : val :=
  let col := match e with VNamed "ExColumn" (VStr s) => s | _ => "" end in
  let ex := if String.eqb col "" then as_string 50 e else "" in
  VStruct "IndexedColumn" [("Column", VStr col); ("Expression", VStr ex); ("Collate", coll); ("SortOrder", sort)].

(* sql.go: makeColumnDef *)
Definition set_field (f : string) (v : val) (fs : list (string * val)) : list (string * val) :=
  (f, v) :: filter (fun x => negb (String.eqb (fst x) f)) fs.

Definition make_column_def (name typ cs : val) : val :=
  let init := [("Name", name); ("Type", typ); ("Null", VBool true)] in
  let step (fs : list (string * val)) (c : val) :=
    match c with
    | VNamed "ccNull" b => set_field "Null" b fs
    | VStruct "ccPrimaryKey" pk =>
      set_field "AutoIncrement" (field "autoincrement" pk)
        (set_field "PrimaryKeyDir" (field "sort" pk) (set_field "PrimaryKey" (VBool true) fs))
    | VNamed "ccUnique" b => set_field "Unique" b fs
    | VNamed "ccCollate" s => set_field "Collate" s fs
    | VNamed "ccReferences" clause => set_field "References" clause fs
    | VStruct "ccCheck" ck =>
      set_field "Checks" (VList ((match field "Checks" fs with VList l => l | _ => [] end) ++ [field "expr" ck])) fs
    | VZero => set_field "Default" VZero fs
    | other => set_field "Default" other fs       (* ccDefault is an interface type: any other value *)
    end in
  VStruct "ColumnDef" (fold_left step (match cs with VList l => l | _ => [] end) init).

(* strings.ToUpper on ASCII letters (all that matters for comparing with TRUE / FALSE) *)
Definition upper_ascii (c : Ascii.ascii) : Ascii.ascii :=
  let n := Ascii.nat_of_ascii c in
  if (Nat.leb 97 n && Nat.leb n 122)%bool then Ascii.ascii_of_nat (n - 32) else c.
Fixpoint upper_str (s : string) : string :=
  match s with EmptyString => EmptyString | String c r => String (upper_ascii c) (upper_str r) end.
(* sql.go: bareDefault *)
Definition bare_default (v : val) : val :=
  match v with
  | VStr s => if String.eqb (upper_str s) "TRUE" then VBool true else if String.eqb (upper_str s) "FALSE" then VBool false else v
  | _ => v
  end.

Definition call (f : string) (args : list val) : option val :=
  match args with
  | [a] =>
    if String.eqb f "ExColumn" then Some (VNamed "ExColumn" a)
    else if String.eqb f "TriggerOnDelete" then Some (VNamed "TriggerOnDelete" (strip a))
    else if String.eqb f "TriggerOnUpdate" then Some (VNamed "TriggerOnUpdate" (strip a))
    else if String.eqb f "ccNull" then Some (VNamed "ccNull" a)
    else if String.eqb f "ccUnique" then Some (VNamed "ccUnique" a)
    else if String.eqb f "ccCollate" then Some (VNamed "ccCollate" a)
    else if String.eqb f "ccReferences" then Some (VNamed "ccReferences" a)
    else if String.eqb f "ccDefault" then Some a
    else if String.eqb f "bareDefault" then Some (bare_default a)
    else None
  | [a; b; c] =>
    if String.eqb f "makeColumnDef" then Some (make_column_def a b c)
    else if String.eqb f "newIndexColumn" then Some (new_index_column a b c)
    else None
  | _ => None
  end.

Definition neg_val (v : val) : val :=
  match v with
  | VInt z => VInt (let n := (- z) mod 2 ^ 64 in if n <? 2 ^ 63 then n else n - 2 ^ 64)   (* int64 negation wraps *)
  | VFloat b => VFloat (if b <? 2 ^ 63 then b + 2 ^ 63 else b - 2 ^ 63)                    (* flip the sign bit *)
  | x => x
  end.

Section Eval.
  Variable dollars : list slot.   (* $1 .. $L *)
  Inductive ev := EvOk (v : val) | EvStale (k : nat) (f : string) | EvBad.

  Fixpoint eval (e : expr) : ev :=
    match e with
    | EField k f =>
      match nth_error dollars (k - 1) with
      | Some s => let '(v, fresh) := get f (fields s) in if fresh then EvOk v else EvStale k f
      | None => EvBad
      end
    | EStr s => EvOk (VStr s)
    | EBool b => EvOk (VBool b)
    | ENil => EvOk VZero
    | EConst c => EvOk (const_val c)
    | ENeg e => match eval e with EvOk v => EvOk (neg_val v) | x => x end
    | EAppend a b =>
      match eval a, eval b with
      | EvOk (VList l), EvOk v => EvOk (VList (l ++ [v])%list)
      | EvOk VZero, EvOk v => EvOk (VList [v])
      | EvOk _, EvOk _ => EvBad
      | EvOk _, x => x
      | x, _ => x
      end
    | EList es =>
      (fix go es acc := match es with
                        | [] => EvOk (VList (rev acc))
                        | e :: r => match eval e with EvOk v => go r (v :: acc) | x => x end
                        end) es []
    | EStruct n fs =>
      (fix go fs acc := match fs with
                        | [] => EvOk (VStruct n (name_fields (positional n) (rev acc)))
                        | (g, e) :: r => match eval e with EvOk v => go r ((g, v) :: acc) | x => x end
                        end) fs []
    | ECall f es =>
      (fix go es acc := match es with
                        | [] => match call f (rev acc) with Some v => EvOk v | None => EvBad end
                        | e :: r => match eval e with EvOk v => go r (v :: acc) | x => x end
                        end) es []
    end.
End Eval.

Fixpoint find_action (n : nat) (l : list (nat * action)) : action :=
  match l with [] => ANone | (m, a) :: r => if Nat.eqb n m then a else find_action n r end.

(* live stack (top first); dead = the slots above the top of stack, nearest
   first, exactly as the Go array keeps them after pops *)
Record cfg := { live : list slot; dead : list slot; look : option (Z * token);
                input : list token; result : val }.

Definition eof_token : token := {| ttyp := 0; ts := ""; tn := 0; tf := 0 |}.

Definition next_tok (c : cfg) : option (cfg * Z * token) :=
  match look c with
  | Some (t, tk) => Some (c, t, tk)
  | None =>
    let '(tk, rest) := match input c with [] => (eof_token, []) | t :: r => (t, r) end in
    match lex1 (ttyp tk) with
    | Some t => Some ({| live := live c; dead := dead c; look := Some (t, tk); input := rest; result := result c |}, t, tk)
    | None => None
    end
  end.

(* the exception table lookup of yydefault *)
Definition exca_lookup (state tok : Z) : option Z :=
  (fix find (l : list Z) (fuel : nat) :=
     match fuel with
     | O => None
     | S k =>
       match l with
       | a :: b :: r =>
         if (a =? -1) && (b =? state) then
           (fix scan (l : list Z) (fuel : nat) :=
              match fuel with
              | O => None
              | S k => match l with
                       | a :: b :: r => if (a <? 0) || (a =? tok) then Some b else scan r k
                       | _ => None end
              end) r k
         else find r k
       | _ => None
       end
     end) yyExca (List.length yyExca).

(* what to do in a state with a lookahead: shift to a state, reduce by a
   production, accept, or syntax error - the table accesses of yynewstate /
   yydefault, without the stacks *)
Inductive decision := DShift (s : Z) | DReduce (p : Z) | DAccept | DError | DNeedTok | DBad (why : string).

Definition default_decision (yystate : Z) (tok : option Z) : decision :=
  match nthZ yyDef yystate with
  | None => DBad "yyDef"
  | Some d =>
    if d =? -2 then
      match tok with
      | None => DNeedTok
      | Some t =>
        match exca_lookup yystate t with
        | None => DBad "yyExca"
        | Some yyn => if yyn <? 0 then DAccept else if yyn =? 0 then DError else DReduce yyn
        end
      end
    else if d =? 0 then DError else DReduce d
  end.

Definition decide (yystate : Z) (tok : option Z) : decision :=
  match nthZ yyPact yystate with
  | None => DBad "yyPact"
  | Some yyn0 =>
    if yyn0 <=? yyFlag then default_decision yystate tok
    else
      match tok with
      | None => DNeedTok
      | Some t =>
        let yyn := yyn0 + t in
        if (yyn <? 0) || (yyLast <=? yyn) then default_decision yystate tok
        else match nthZ yyAct yyn with
             | None => DBad "yyAct"
             | Some a =>
               match nthZ yyChk a with
               | None => DBad "yyChk"
               | Some ch => if ch =? t then DShift a else default_decision yystate tok
               end
             end
      end
  end.

(* the goto after a reduction to nonterminal [lhs] with state [below] exposed *)
Definition goto_state (lhs below : Z) : option Z :=
  match nthZ yyPgo lhs with
  | None => None
  | Some yyg =>
    let yyj := yyg + below + 1 in
    if yyLast <=? yyj then nthZ yyAct yyg
    else match nthZ yyAct yyj with
         | Some s => match nthZ yyChk s with
                     | Some ch => if ch =? - lhs then Some s else nthZ yyAct yyg
                     | None => None end
         | None => None
         end
  end.

Inductive stepres := Next (c : cfg) | Done (o : outcome).
Definition top_state (c : cfg) : Z := match live c with s :: _ => st s | [] => 0 end.

Definition lex_slot (a : Z) (tk : token) : slot :=
  {| st := a; fields := [("identifier", (VStr (ts tk), true)); ("signedNumber", (VInt (tn tk), true)); ("float", (VFloat (tf tk), true))] |}.

Definition reduce (c : cfg) (yyn : Z) : stepres :=
  let n := Z.to_nat yyn in
  match nthZ yyR2 yyn, nthZ yyR1 yyn with
  | Some L, Some lhs =>
    let Ln := Z.to_nat L in
    let popped := firstn Ln (live c) in
    let rest := skipn Ln (live c) in
    let dollars := rev popped in
    let dead' := (dollars ++ dead c)%list in
    (* yyVAL = yyS[yyp+1]: $1 when the production has symbols, otherwise whatever the slot held *)
    let yyval0 := match Ln with
                  | O => match dead' with s :: _ => {| st := st s; fields := stale_all (fields s) |} | [] => zero_slot end
                  | _ => match dead' with s :: _ => s | [] => zero_slot end
                  end in
    let below := match rest with s :: _ => st s | [] => 0 end in
    match goto_state lhs below with
    | None => Done (BadTable "goto")
    | Some ns =>
      let finish (fs : list (string * (val * bool))) (res : val) :=
        Next {| live := {| st := ns; fields := fs |} :: rest; dead := tl dead'; look := look c; input := input c; result := res |} in
      match find_action n actions with
      | ANone => finish (fields yyval0) (result c)
      | ASet f e => match eval dollars e with
                    | EvOk v => finish (set f (v, true) (fields yyval0)) (result c)
                    | EvStale k g => Done (StaleRead n k g)
                    | EvBad => Done (BadTable "eval") end
      | AResult e => match eval dollars e with
                     | EvOk v => finish (fields yyval0) v
                     | EvStale k g => Done (StaleRead n k g)
                     | EvBad => Done (BadTable "eval") end
      end
    end
  | _, _ => Done (BadTable "yyR")
  end.

Definition step (c : cfg) : stepres :=
  let yystate := top_state c in
  match decide yystate (option_map fst (look c)) with
  | DNeedTok =>
    match next_tok c with
    | None => Done (BadTable "lex")
    | Some (c', _, _) => Next c'
    end
  | DShift a =>
    match look c with
    | Some (_, tk) => Next {| live := lex_slot a tk :: live c; dead := tl (dead c); look := None; input := input c; result := result c |}
    | None => Done (BadTable "shift without lookahead")
    end
  | DReduce p => reduce c p
  | DAccept => Done (Accept (result c))
  | DError => Done (Reject (result c))     (* no state shifts `error`: the stack is popped to empty, yyParse returns 1 *)
  | DBad why => Done (BadTable why)
  end.

Fixpoint run (fuel : nat) (c : cfg) : outcome :=
  match fuel with O => OutOfFuel | S k => match step c with Done o => o | Next c' => run k c' end end.

Definition parse_tokens (fuel : nat) (toks : list token) : outcome :=
  run fuel {| live := [zero_slot]; dead := []; look := None; input := toks; result := VZero |}.

(* ---------- static checks over the translated tables (finite) ---------- *)
Definition nstates : nat := List.length yyPact.
Definition ntokens : Z := fold_left Z.max (yyTok1 ++ yyTok2)%list 0 + 1.   (* internal token numbers: 0 .. the largest one in the lexer's tables *)
Definition zrange (n : nat) : list Z := map Z.of_nat (seq 0 n).

Definition decision_ok (d : decision) : bool :=
  match d with
  | DShift s => (0 <=? s) && (s <? Z.of_nat nstates)
  | DReduce p => (0 <? p) && (p <? Z.of_nat (List.length yyR1)) && (p <? Z.of_nat (List.length yyR2))
  | DAccept | DError | DNeedTok => true
  | DBad _ => false
  end.

(* every state x every token class (and no lookahead): in range *)
Definition decisions_ok : bool :=
  forallb (fun s => decision_ok (decide s None) &&
                    forallb (fun t => decision_ok (decide s (Some t))) (zrange (Z.to_nat ntokens + 2)))
          (zrange nstates).

(* every production's left-hand side x every exposed state: the goto is a state *)
Definition gotos_ok : bool :=
  forallb (fun lhs => forallb (fun b => match goto_state lhs b with
                                        | Some s => (0 <=? s) && (s <? Z.of_nat nstates)
                                        | None => false end) (zrange nstates))
          (tl yyR1).

(* locality, statically: a semantic field of a nonterminal that some action
   reads is assigned by every production of that nonterminal (or inherited
   from a first symbol that defines it); tokens' fields are set by the lexer *)
Fixpoint assoc (k : string) (l : list (string * string)) : string :=
  match l with [] => "" | (a, b) :: r => if String.eqb a k then b else assoc k r end.

Definition prods_of (nt : string) : list (nat * (string * list gsym)) :=
  filter (fun p => String.eqb (fst (snd p)) nt) productions.

Fixpoint defines (fuel : nat) (nt f : string) : bool :=
  match fuel with
  | O => false
  | S k =>
    forallb (fun p =>
               match find_action (fst p) actions with
               | ASet g _ => String.eqb g f
               | AResult _ => false
               | ANone => match snd (snd p) with
                          | SNt x :: _ => defines k x f            (* default action: $$ = $1 *)
                          | STok t :: _ => String.eqb (assoc t tok_field) f
                          | _ => false
                          end
               end) (prods_of nt)
  end.

Fixpoint reads (e : expr) : list (nat * string) :=
  match e with
  | EField k f => [(k, f)]
  | ENeg e => reads e
  | EAppend a b => (reads a ++ reads b)%list
  | EList es => flat_map reads es
  | EStruct _ fs => flat_map (fun x => reads (snd x)) fs
  | ECall _ es => flat_map reads es
  | _ => []
  end.

Definition action_reads (a : action) : list (nat * string) :=
  match a with ANone => [] | ASet _ e | AResult e => reads e end.

Definition read_ok (rhs : list gsym) (r : nat * string) : bool :=
  match nth_error rhs (fst r - 1) with
  | Some (SNt x) => defines 20 x (snd r)
  | Some (STok t) => String.eqb (assoc t tok_field) (snd r)
  | Some (SChar _) => false
  | None => false
  end.

Definition locality_ok : bool :=
  forallb (fun p => forallb (read_ok (snd (snd p))) (action_reads (find_action (fst p) actions))) productions.

(* ---------- canonical text of a statement (same format as harness/hcommon DumpAST) ---------- *)
Definition hexdigit (n : nat) : ascii := ascii_of_nat (if Nat.ltb n 10 then 48 + n else 87 + n).
Fixpoint hex_of_string (s : string) : string :=
  match s with
  | EmptyString => EmptyString
  | String a r => let n := nat_of_ascii a in String (hexdigit (Nat.div n 16)) (String (hexdigit (Nat.modulo n 16)) (hex_of_string r))
  end.

Definition hex16 (z : Z) : string :=
  fold_right (fun i acc => String (hexdigit (Z.to_nat ((z / 16 ^ (15 - Z.of_nat i)) mod 16))) acc) "" (seq 0 16).

Fixpoint zero_like (v : val) : bool :=
  match v with
  | VZero => true | VStr s => String.eqb s "" | VInt z => z =? 0 | VFloat b => b =? 0 | VBool b => negb b
  | VNamed _ x => zero_like x | VList l => match l with [] => true | _ => false end | VStruct _ _ => false
  end.

(* fields whose static type is an interface: present unless nil *)
Definition iface_field (ty f : string) : bool :=
  (String.eqb ty "ColumnDef" && String.eqb f "Default") || (String.eqb ty "CreateIndexStmt" && String.eqb f "Where")
  || (String.eqb ty "ExBinaryOp" && (String.eqb f "Left" || String.eqb f "Right")).

Fixpoint insert_sorted (x : string * string) (l : list (string * string)) : list (string * string) :=
  match l with
  | [] => [x]
  | y :: r => if String.leb (fst x) (fst y) then x :: l else y :: insert_sorted x r
  end.

Fixpoint show_ast (fuel : nat) (v : val) : string :=
  match fuel with
  | O => "?"
  | S k =>
    match v with
    | VZero => "nil"
    | VStr s => "s" ++ hex_of_string s
    | VInt z => "i" ++ dec_of_Z z
    | VFloat b => "f" ++ hex16 b
    | VBool b => if b then "true" else "false"
    | VNamed ty x => ty ++ "(" ++ show_ast k x ++ ")"
    | VList l => "[" ++ join_str "," (map (show_ast k) l) ++ "]"
    | VStruct ty fs =>
      let keep := filter (fun x => if iface_field ty (fst x) then negb (match snd x with VZero => true | _ => false end)
                                   else negb (zero_like (snd x))) fs in
      let shown := fold_right insert_sorted [] (map (fun x => (fst x, show_ast k (snd x))) keep) in
      ty ++ "{" ++ join_str ";" (map (fun x => fst x ++ "=" ++ snd x) shown) ++ "}"
    end
  end.

Definition show_outcome (o : outcome) : string :=
  match o with
  | Accept r => "accept " ++ show_ast 60 r
  | Reject r => "reject " ++ show_ast 60 r
  | StaleRead p k f => "stale " ++ dec_of_Z (Z.of_nat p) ++ " " ++ dec_of_Z (Z.of_nat k) ++ " " ++ f
  | BadTable w => "PANIC " ++ w
  | OutOfFuel => "DIVERGE"
  end.
