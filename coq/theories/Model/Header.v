(* db/database.go: parseHeader; db/journal.go: validJournal *)
From SQ Require Import Model.Base.

Record header := { h_pagesize : Z; h_change : Z; h_cookie : Z }.

(* "SQLite format 3\000" *)
Definition header_magic : list Z :=
  [83; 81; 76; 105; 116; 101; 32; 102; 111; 114; 109; 97; 116; 32; 51; 0].

Definition fld (b : list byte) (off n : Z) : Z := be (take n (drop off b)).

(* reasons: 1 magic, 2 page size, 3 WAL, 4 incompatible, 5 reserved space, 6 encoding *)
Definition parse_header (b : list byte) : res header :=
  if len b <? 100 then Err EIO      (* binary.Read: unexpected EOF *)
  else if negb (forallb (fun p => b2z (fst p) =? snd p) (combine (take 16 b) header_magic))
  then Err (EHeader 1)
  else
    let s0 := fld b 16 2 in
    let s := if s0 =? 1 then 65536 else s0 in
    if (s <? 512) || (65536 <? s) || negb (existsb (Z.eqb s) [512; 1024; 2048; 4096; 8192; 16384; 32768; 65536])
    then Err (EHeader 2)
    else
      let rv := fld b 19 1 in
      if rv =? 2 then Err (EHeader 3)
      else if negb (rv =? 1) then Err (EHeader 4)
      else if negb (fld b 20 1 =? 0) then Err (EHeader 5)
      else if negb ((fld b 21 1 =? 64) && (fld b 22 1 =? 32) && (fld b 23 1 =? 32)) then Err (EHeader 4)
      else
        let sf := fld b 44 4 in
        if negb ((sf =? 2) || (sf =? 3) || (sf =? 4)) then Err (EHeader 4)
        else
          let te := fld b 56 4 in
          if (te =? 2) || (te =? 3) then Err (EHeader 6)
          else if negb (te =? 1) then Err (EHeader 4)
          else if negb (forallb (fun c => b2z c =? 0) (take 20 (drop 72 b))) then Err (EHeader 4)
          else Ok {| h_pagesize := s; h_change := fld b 24 4; h_cookie := fld b 40 4 |}.

Definition journal_magic : list Z := [217; 213; 5; 249; 32; 161; 99; 215].

(* validJournal on the bytes of an existing, readable journal file *)
Definition valid_journal (j : list byte) : bool :=
  if len j <? 28 then false
  else if negb (forallb (fun p => b2z (fst p) =? snd p) (combine (take 8 j) journal_magic)) then false
  else
    let ss := twos 32 (fld j 20 4) in
    if (ss <? 512) || (65536 <? ss) then false
    else ss <=? len j.
