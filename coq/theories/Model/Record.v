(* db/record.go: parseRecord, ChompRowid *)
From SQ Require Import Model.Base Model.Varint.

Inductive value :=
| VNull
| VInt (z : Z)
| VReal (bits : Z)            (* the 64-bit IEEE-754 pattern, 0 <= bits < 2^64 *)
| VText (s : list byte)
| VBlob (s : list byte).

Definition record := list value.

(* one iteration of the `for len(header) > 0` loop: decode the value of
   serial type [c] from [body]; returns the value and the rest of the body *)
Definition parse_value (c : Z) (body : list byte) : res (value * list byte) :=
  if c =? 0 then Ok (VNull, body)
  else if c =? 1 then
    if len body <? 1 then Err ECorrupt else Ok (VInt (twos 8 (be (take 1 body))), drop 1 body)
  else if c =? 2 then
    if len body <? 2 then Err ECorrupt else Ok (VInt (twos 16 (be (take 2 body))), drop 2 body)
  else if c =? 3 then
    if len body <? 3 then Err ECorrupt else Ok (VInt (read_twos24 body), drop 3 body)
  else if c =? 4 then
    if len body <? 4 then Err ECorrupt else Ok (VInt (twos 32 (be (take 4 body))), drop 4 body)
  else if c =? 5 then
    if len body <? 6 then Err ECorrupt else Ok (VInt (read_twos48 body), drop 6 body)
  else if c =? 6 then
    if len body <? 8 then Err ECorrupt else Ok (VInt (twos 64 (be (take 8 body))), drop 8 body)
  else if c =? 7 then
    if len body <? 8 then Err ECorrupt else Ok (VReal (be (take 8 body)), drop 8 body)
  else if c =? 8 then Ok (VInt 0, body)
  else if c =? 9 then Ok (VInt 1, body)
  else if (c =? 10) || (c =? 11) then Err EInternal
  else if c <? 0 then Err ECorrupt
  else if Z.even c then
    let l := (c - 12) / 2 in
    if len body <? l then Err ECorrupt
    else do p <- slice_to body l; do b' <- slice_from body l; Ok (VBlob p, b')
  else
    let l := (c - 13) / 2 in
    if len body <? l then Err ECorrupt
    else do p <- slice_to body l; do b' <- slice_from body l; Ok (VText p, b').

Fixpoint parse_cols (fuel : nat) (header body : list byte) (acc : list value) : res record :=
  match header with
  | [] => Ok (rev acc)
  | _ :: _ =>
    match fuel with
    | O => Err EFuel
    | S f =>
      match read_varint header with
      | None => Err ECorrupt
      | Some (c, n) =>
        do header' <- slice_from header n;
        do vb <- parse_value c body;
        parse_cols f header' (snd vb) (fst vb :: acc)
      end
    end
  end.

Definition parse_record (r : list byte) : res record :=
  match read_varint r with
  | None => Err ECorrupt
  | Some (hsize, n) =>
    if (hsize <? n) || (len r <? hsize) then Err ECorrupt
    else
      do header <- slice r n hsize;
      do body <- slice_from r hsize;
      parse_cols (S (length header)) header body []
  end.

(* ChompRowid: (rowid, record without the last column) *)
Definition chomp_rowid (rec : record) : res (Z * record) :=
  match rev rec with
  | [] => Err EOther
  | VInt z :: r => Ok (z, rev r)
  | _ :: _ => Err EOther
  end.
