(* C11 - Values compare in SQLite's order.  Property theorems only; proofs
   are in Proofs/. *)
From SQ Require Import Model.Base Model.Record Model.Float Model.Cmp Spec.Order Proofs.CmpP Proofs.IntRealP Gen.CmpFloat Proofs.CmpFloatP.

(* SQLite's order (Spec/Order.v: NULL < numbers by exact value < text by
   collation < blobs bytewise) is a total preorder on storable values *)
Theorem C11_refl : forall c a, s_cmp c a a = Eq.
Proof. exact s_cmp_refl. Qed.
Print Assumptions C11_refl.

Theorem C11_total : forall c a b, s_cmp c b a = CompOpp (s_cmp c a b).
Proof. exact s_cmp_antisym. Qed.
Print Assumptions C11_total.

Theorem C11_trans : forall c x y z, storable x -> storable y -> storable z ->
  cle (s_cmp c x y) -> cle (s_cmp c y z) -> cle (s_cmp c x z).
Proof. exact s_cmp_trans. Qed.
Print Assumptions C11_trans.

(* compare() of db/cmp.go computes that order on every pair of storable values
   (int64, every non-NaN binary64 bit pattern, text, blobs, NULL), the
   integer-against-real case included: truncating the real, comparing the
   integers and breaking the tie through float64(i) is the exact comparison of
   the integer with the real's dyadic value (Proofs/IntRealP.v) *)
Theorem C11_compare_spec : forall c a b, storable a -> storable b ->
  compare a b c = of_cmp (s_cmp c a b).
Proof. exact compare_spec. Qed.
Print Assumptions C11_compare_spec.

Theorem C11_int_real : forall i r, - 2 ^ 63 <= i < 2 ^ 63 -> 0 <= r < 2 ^ 64 -> is_nan r = false ->
  cmp_int_float i r = of_cmp (exact_cmp i r).
Proof. exact cmp_int_float_spec. Qed.
Print Assumptions C11_int_real.

(* Equals and Search are the lexicographic liftings of the order to keys, for
   ascending and descending columns and per-column collations: [kcmp] places
   an index entry before / at / after the key *)
Theorem C11_equals : forall k r, Forall (fun kc => storable (kv kc)) k -> Forall storable r ->
  equals k r = match kcmp k r with Eq => true | _ => false end.
Proof. exact (fun k r Hk Hr => equals_kcmp k r (agrees_storable k r Hk Hr)). Qed.
Print Assumptions C11_equals.

Theorem C11_search : forall k r, Forall (fun kc => storable (kv kc)) k -> Forall storable r ->
  search k r = match kcmp k r with Lt => false | _ => true end.
Proof. exact (fun k r Hk Hr => search_kcmp k r (agrees_storable k r Hk Hr)). Qed.
Print Assumptions C11_search.

Theorem C11_equals_search : forall k r, Forall (fun kc => storable (kv kc)) k -> Forall storable r ->
  equals k r = true -> search k r = true.
Proof. exact (fun k r Hk Hr => equals_search k r (agrees_storable k r Hk Hr)). Qed.
Print Assumptions C11_equals_search.

(* the boundary grid of the integer/real case evaluated inside Coq (now a corollary of
   C11_compare_spec; kept as a regression example (2^53 +- 1, +-2^63, +-0, +-Inf, subnormal) *)
Definition ir_ints : list Z :=
  [0; 1; -1; 2 ^ 53 - 1; 2 ^ 53; 2 ^ 53 + 1; 2 ^ 53 + 2; - 2 ^ 53 - 1; 2 ^ 62; 2 ^ 63 - 1; - 2 ^ 63; - 2 ^ 63 + 1; 9007199254740993; 123456789012345678].
Definition ir_reals : list Z :=   (* bit patterns *)
  [0; 2 ^ 63; 1; 4607182418800017408; 13830554455654793216; 4845873199050653696; 4845873199050653697; 4845873199050653695;
   14069245235905429504; 4890909195324358656; 14114281232179134464; 4890909195324358655; 9218868437227405312; 18442240474082181120;
   4602678819172646912; 4890909195324358657].
Example C11_intreal_grid :
  forallb (fun i => forallb (fun r =>
    (compare (VInt i) (VReal r) CBinary =? of_cmp (s_cmp CBinary (VInt i) (VReal r))) &&
    (compare (VReal r) (VInt i) CBinary =? of_cmp (s_cmp CBinary (VReal r) (VInt i)))) ir_reals) ir_ints = true.
Proof. vm_compute. reflexivity. Qed.

(* the two defects of the original code, as evaluated on the repaired model:
   2^53+1 is greater than the real 2^53, and "a<TAB>" differs from "a" under RTRIM *)
Example C11_repaired :
  compare (VInt (2 ^ 53 + 1)) (VReal 4845873199050653696) CBinary = 1 /\
  compare (VText [x61; x09]) (VText [x61]) CRtrim = 1 /\
  compare (VText [x61; x20]) (VText [x61]) CRtrim = 0.
Proof. vm_compute. repeat split; reflexivity. Qed.

(* NOCASE is SQLite's (nocaseCollatingFunc = sqlite3StrNICmp over the common length, then the lengths): the loop of
   nocaseCompare orders two texts as their keys order bytewise, the key of a text being its bytes up to the first NUL
   with A-Z folded to a-z, then a zero byte, then its total length in unary - i.e. by the folded prefix before the
   first NUL, a proper prefix first, and then by length.  So 'a\0b' = 'a\0c' < 'a\0bc', and it is a total preorder
   (C11_refl / C11_total / C11_trans are stated over it). *)
Theorem C11_nocase_order : forall a b, collate_cmp CNocase a b = bytes_cmp (nocase_key a) (nocase_key b).
Proof. exact nocase_cmp_key. Qed.
Print Assumptions C11_nocase_order.
Example C11_nocase_nul :
  collate_cmp CNocase [x61; x00; x62] [x41; x00; x63] = Eq /\ collate_cmp CNocase [x61; x00; x62] [x61; x00; x62; x63] = Lt /\
  collate_cmp CNocase [x61; x00] [x61; x62] = Lt /\ collate_cmp CNocase [x61; x5f] [x61; x41] = Lt.
Proof. vm_compute. repeat split; reflexivity. Qed.

(* cmpIntFloat and cmpFloat64 ARE the model's: Gen/CmpFloat.v holds their statements as translated from db/cmp.go on every build
   (the NaN test r != r, the two range guards against the float literals given by their bit patterns, int64(r), the two integer
   comparisons, the tie-break through float64(i)); for every integer and every bit pattern they compute what Model/Cmp.v computes,
   which C11_int_real proves to be the exact comparison *)
Theorem C11_source_int_real : forall i r, go_cmpIntFloat i r = cmp_int_float i r.
Proof. exact go_cmpIntFloat_spec. Qed.
Print Assumptions C11_source_int_real.
Theorem C11_source_float : forall a b, go_cmpFloat64 a b = cmp_float64 a b.
Proof. exact go_cmpFloat64_spec. Qed.
Print Assumptions C11_source_float.
