(* C20 - independent handles can be used from concurrent goroutines.
   Property theorems only; proofs are in Proofs/ConcP.v and Proofs/DriverP.v.
   Model/Conc.v: any number of goroutines, each with its own handle, any
   operations (functions of the package-level state, the files and the own
   handle's state), any interleaving.  Gen/Footprint.v is regenerated from the
   sources on every build: the package-level variables and every use of one
   outside init that is not a plain read. *)
From Coq Require Import List String ZArith.
From SQ Require Import Model.Conc Proofs.ConcP Model.Driver Proofs.DriverP Gen.Footprint Model.DbState.
Import ListNotations.

(* the code's side of the frame condition: nothing outside package initialisation writes a
   package-level variable, takes its address, mutates through it or hands a writable one on *)
Theorem C20_shared_state_is_read_only : shared_uses = [].
Proof. reflexivity. Qed.
Print Assumptions C20_shared_state_is_read_only.
(* and the only goroutine the library itself starts is the driver's producer, which
   Model/Driver.v models (C19) *)
Theorem C20_library_goroutines : goroutines = ["github.com/alicebob/sqlittle/driver.*Statement.QueryContext"%string].
Proof. reflexivity. Qed.
Print Assumptions C20_library_goroutines.

Section C20.
  Variables (G F H op res : Type) (exec : G -> F -> op -> H -> H * res).

  (* every operation returns what it returns when its handle is used alone: for every
     schedule, every goroutine's results (and its handle's final state) are those of its own
     operations run in isolation from the same initial state *)
  Theorem C20_isolation : forall g f (s : list (nat * op)) (w : world H) i,
    fst (Conc.run G F H op res exec g f w s) i = fst (alone G F H op res exec g f (w i) (ops_of op i s)) /\
    results_of res i (snd (Conc.run G F H op res exec g f w s)) = snd (alone G F H op res exec g f (w i) (ops_of op i s)).
  Proof. exact (isolation G F H op res exec). Qed.
  Theorem C20_independent_of_others : forall g f s1 s2 (w : world H) i,
    ops_of op i s1 = ops_of op i s2 ->
    results_of res i (snd (Conc.run G F H op res exec g f w s1)) = results_of res i (snd (Conc.run G F H op res exec g f w s2)).
  Proof. exact (independent_of_others G F H op res exec). Qed.
  (* no two accesses of different goroutines to the same location include a write *)
  Theorem C20_race_free : forall (s : list (nat * op)) a b, In a (accesses op s) -> In b (accesses op s) -> conflict a b = false.
  Proof. exact (race_free op). Qed.
End C20.
Print Assumptions C20_isolation.
Print Assumptions C20_independent_of_others.
Print Assumptions C20_race_free.

(* instance: handles of Model/DbState.v (dirty flag, header, page cache) reading the same
   file image in read transactions *)
Definition db_exec (_ : unit) (e : env) (reqs : list Z) (st : dbstate) : dbstate * list (Base.res Page.page) :=
  let '(r, st') := txn e st reqs in (st', r).
Theorem C20_dbstate_handles : forall e (s : list (nat * list Z)) (w : world dbstate) i,
  results_of _ i (snd (Conc.run _ _ _ _ _ db_exec tt e w s)) = snd (alone _ _ _ _ _ db_exec tt e (w i) (ops_of _ i s)).
Proof. intros e s w i. exact (proj2 (isolation unit env dbstate (list Z) _ db_exec tt e s w i)). Qed.
Print Assumptions C20_dbstate_handles.

(* the one cell the driver's two goroutines share (rows.err) is read by the consumer only
   after the producer's write and the synchronising event (wg.Done / close) *)
Theorem C20_driver_err_cell_ordered : forall (row err : Type) rows fin prog (s : st row err),
  reach (init rows fin prog) s -> consumer_reads_err row err s = true ->
  (closing s = true /\ (pc s = PWgDone \/ pc s = PClosed)) \/ (closing s = false /\ pc s = PClosed).
Proof. exact (fun row err rows fin => err_read_after_write row err rows fin). Qed.
Print Assumptions C20_driver_err_cell_ordered.

(* non-vacuity: two goroutines with a counter each; the interleaving does not matter *)
Example C20_two_counters :
  let exec := fun (g f : nat) (o : nat) (h : nat) => (h + o + g + f, h) in
  results_of nat 1 (snd (Conc.run nat nat nat nat nat exec 1 2 (fun _ => 0) [(0, 5); (1, 7); (0, 1); (1, 1)])) = [0; 10] /\
  results_of nat 1 (snd (Conc.run nat nat nat nat nat exec 1 2 (fun _ => 0) [(1, 7); (1, 1); (0, 5)])) = [0; 10].
Proof. vm_compute. split; reflexivity. Qed.
