(* C13 - Low-level range scans agree with the full scan and the comparison
   order.  Property theorems only; proofs are in Proofs/. *)
From SQ Require Import Model.Base Model.Record Model.Btree Model.Cmp Model.Low
     Spec.Flat Spec.Deliver Spec.Order Proofs.SearchP Proofs.BtreeMinP Proofs.DeliverP Proofs.LowP Proofs.ScanP Proofs.CmpP Proofs.SortedP.
From Coq Require Import Sorting.Sorted.

(* generic in the tree: the from-key traversal (with Go's sort.Search
   bisection at every page, entries stored in interior pages, at every depth
   the code accepts) delivers the rows from the first one not less than the
   key, for every callback *)
Theorem C13_itermin : forall P R openp load S icb pred r pg l s,
  iflat P R openp load r pg = (l, None) -> mono pred l ->
  iiter_min P R openp load S icb pred r pg s = run_cb icb (drop_lt pred l) s.
Proof. exact iiter_min_flat. Qed.
Print Assumptions C13_itermin.

Theorem C13_scan_min : forall pg op npages S root from (cb : record -> S -> flow * S) l s,
  index_rows pg op npages root = (l, None) -> mono (search from) l ->
  index_scan_min pg op npages S root from cb s = run_cb cb (drop_lt (search from) l) s.
Proof. exact index_scan_min_rows. Qed.
Print Assumptions C13_scan_min.

Theorem C13_scan_range : forall pg op npages S root from to (cb : record -> S -> flow * S) l s,
  index_rows pg op npages root = (l, None) -> mono (search from) l ->
  outcome (index_scan_range pg op npages S root from to cb s)
  = outcome (run_cb cb (take_while (fun r => negb (search to r)) (drop_lt (search from) l)) s).
Proof. exact index_scan_range_rows. Qed.
Print Assumptions C13_scan_range.

Theorem C13_scan_eq : forall pg op npages S root k (cb : record -> S -> flow * S) l s,
  index_rows pg op npages root = (l, None) -> mono (search k) l ->
  outcome (index_scan_eq pg op npages S root k cb s)
  = outcome (run_cb cb (take_while (equals k) (drop_lt (search k) l)) s).
Proof. exact index_scan_eq_rows. Qed.
Print Assumptions C13_scan_eq.

(* "the suffix that begins at the first entry not less than the key" is the
   set of entries not less than the key, when the scan is ordered for the key *)
Theorem C13_min_is_filter : forall (A : Type) (ge : A -> bool) l, mono ge l ->
  drop_lt ge l = filter ge l.
Proof. exact min_suffix_is_filter. Qed.
Print Assumptions C13_min_is_filter.

(* "exactly the entries equal to the key": for an index laid out as
   less* equal* greater* with respect to the key (sorted by the index order,
   key flags agreeing with the index flags - see C11_three_runs) *)
Theorem C13_eq_is_filter : forall (A : Type) (ge eq : A -> bool) l, three_runs A ge eq l ->
  take_while eq (drop_lt ge l) = filter eq l.
Proof. exact eq_segment_is_filter. Qed.
Print Assumptions C13_eq_is_filter.

Theorem C13_scan_min_collect : forall pg op npages root from l,
  index_rows pg op npages root = (l, None) -> mono (search from) l ->
  index_scan_min pg op npages _ root from (stop_after None) [] = (Continue, rev (drop_lt (search from) l)).
Proof. exact index_scan_min_all. Qed.
Print Assumptions C13_scan_min_collect.

(* the monotonicity hypothesis, derived from C11: on an index sorted entry to entry by its own
   order, Search(key) is false* true* for every key carrying the index's collations and
   directions on a prefix of its columns, so ScanMin returns exactly the entries not less than
   the key - the filter of the full scan *)
Theorem C13_sorted_mono : forall cols k l, key_matches cols k ->
  Forall (fun kc => storable (kv kc)) k -> Forall (Forall storable) l ->
  Sorted (fun r1 r2 => cle (rcmp cols r1 r2)) l -> mono (search k) l.
Proof. intros cols k l Hm Hk Hl Hs. eapply three_runs_mono. exact (sorted_index_three_runs cols k l Hm Hk Hl Hs). Qed.
Print Assumptions C13_sorted_mono.

Theorem C13_scan_min_sorted : forall pg op npages root cols l,
  index_rows pg op npages root = (l, None) -> Forall (Forall storable) l ->
  Sorted (fun r1 r2 => cle (rcmp cols r1 r2)) l ->
  forall from, key_matches cols from -> Forall (fun kc => storable (kv kc)) from ->
  index_scan_min pg op npages _ root from (stop_after None) [] = (Continue, rev (filter (search from) l)).
Proof. exact scan_min_sorted. Qed.
Print Assumptions C13_scan_min_sorted.
