(* C07 - Readers yield to writers and only ever see committed data.  Property
   theorems only; proofs are in Proofs/. *)
From Coq Require Import List Arith.
From SQ Require Import Model.Base Model.Lock Model.Header Model.DbState Proofs.LockP Proofs.DbStateP Proofs.ConstsP Gen.Consts.
Import ListNotations.
Close Scope Z_scope.

(* another connection in PENDING or EXCLUSIVE: RLock fails at its first system
   call; the handle stays idle, so it reads no page and delivers no row *)
Theorem C07_pending_excl : forall n nh nw hpid wpid,
  (forall a b, a < nh -> b < nw -> hpid a <> wpid b) -> (forall a, a < nw -> wpid a < n) ->
  forall s h w, Inv n nh nw hpid wpid s -> h < nh -> w < nw ->
  hst s h = HIdle -> (wst s w = WPending \/ wst s w = WExclusive) ->
  do_step n hpid wpid s (HLock1 h) = busy s (HLock1 h).
Proof. exact pending_blocks_rlock. Qed.
Print Assumptions C07_pending_excl.

(* connections that hold at most RESERVED do not keep the reader out ... *)
Theorem C07_reserved_admits : forall n nh nw hpid wpid s h,
  Inv n nh nw hpid wpid s -> h < nh ->
  (forall w, w < nw -> at_most_reserved (wst s w)) -> hst s h = HIdle ->
  exists t1 t2, setlk n (tbl s) (hpid h) Pending Rd = Some t1 /\ setlk n t1 (hpid h) Shared Rd = Some t2.
Proof. exact reserved_admits_reader. Qed.
Print Assumptions C07_reserved_admits.

(* ... and what it then reads is the committed image: the file is written only
   under EXCLUSIVE, which cannot coexist with the reader (C06), and a journal
   that looks hot while RESERVED is live does not stop it *)
Theorem C07_no_writer_while_reading : forall n nh nw hpid wpid,
  (forall a b, a < nh -> b < nw -> hpid a <> wpid b) ->
  (forall a, a < nh -> hpid a < n) -> (forall a, a < nw -> wpid a < n) ->
  forall s h w, Inv n nh nw hpid wpid s -> h < nh -> w < nw -> hst s h = HLocked -> wst s w <> WExclusive.
Proof. exact locked_excludes_exclusive. Qed.
Print Assumptions C07_no_writer_while_reading.

Theorem C07_reserved_journal_ok : forall e, e_reserved e = true -> journal_check e = Ok tt.
Proof. intros e H. unfold journal_check. destruct (e_journal e) as [j|]; [|reflexivity]. destruct (valid_journal j); [rewrite H|]; reflexivity. Qed.
Print Assumptions C07_reserved_journal_ok.

(* the pending byte is asked for before the shared range, as SQLite does, so a
   waiting writer is not starved *)
Theorem C07_order : go_rlock_order = [0; 2]%Z.
Proof. exact rlock_order_pending_first. Qed.
Print Assumptions C07_order.
