(* C08 - Each read transaction reflects the latest committed database state.
   Property theorems only; proofs are in Proofs/.
   Model/DbState.v is the handle's state machine (dirty flag, header, page
   cache with its drop-everything-at-100 rule, object cache; RLock,
   resolveDirty, openPage, master).  [pure_open img n] is what an uncached
   reader of the file image would get for page n. *)
From SQ Require Import Model.Base Model.Btree Model.Page Model.Header Model.Low Model.DbState Proofs.DbStateP.

(* one read transaction, whatever an earlier image left in the caches *)
Theorem C08_txn : forall img0 e st reqs,
  W img0 st -> A1 img0 (e_img e) -> A2 img0 (e_img e) -> journal_check e = Ok tt ->
  fst (txn e st reqs) = map (pure_open (e_img e)) reqs /\
  (W (e_img e) (snd (txn e st reqs)) \/ W img0 (snd (txn e st reqs))).
Proof. exact txn_spec. Qed.
Print Assumptions C08_txn.

(* every history (commit | read transaction)* of one handle, from open: each
   transaction's page requests - any sequence, hence any operation - are
   answered from the then-current committed image.  [protocol]: committed
   images with equal change counters are equal, with equal schema cookies have
   equal sqlite_master (SQLite's writer discipline; fewer than 2^32 commits
   between two reads). *)
Theorem C08_coherent : forall hist st img0,
  protocol (img0 :: map (fun x => e_img (fst x)) hist) ->
  (forall x, In x hist -> journal_check (fst x) = Ok tt) ->
  W img0 st ->
  run_history st hist = map (fun x => map (pure_open (e_img (fst x))) (snd x)) hist.
Proof. exact history_coherent. Qed.
Print Assumptions C08_coherent.

Theorem C08_from_open : forall img0, W img0 init_state.
Proof. exact W_init. Qed.
Print Assumptions C08_from_open.

(* repeated reads without an intervening write: identical results *)
Theorem C08_idempotent : forall e reqs st img0,
  protocol [img0; e_img e] -> journal_check e = Ok tt -> W img0 st ->
  exists r, run_history st [(e, reqs); (e, reqs)] = [r; r].
Proof. exact history_idempotent. Qed.
Print Assumptions C08_idempotent.

(* schema: the cached sqlite_master is the current image's *)
Theorem C08_master : forall e st, d_dirty st = false -> valid_for (e_img e) st ->
  fst (master_st e st) = pure_master (e_img e) /\ valid_for (e_img e) (snd (master_st e st)).
Proof. exact master_spec. Qed.
Print Assumptions C08_master.

(* (C15) a header that is not acceptable fails every call of the transaction *)
Theorem C08_bad_header : forall img0 e st reqs x,
  W img0 st -> A1 img0 (e_img e) -> A2 img0 (e_img e) -> journal_check e = Ok tt ->
  hdr (e_img e) = Err x -> fst (txn e st reqs) = map (fun _ => Err x) reqs.
Proof. exact txn_bad_header. Qed.
Print Assumptions C08_bad_header.

(* (C07, C09) a hot journal with no live RESERVED lock refuses every call *)
Theorem C08_hot_journal : forall e st reqs j,
  e_journal e = Some j -> valid_journal j = true -> e_reserved e = false ->
  fst (txn e st reqs) = map (fun _ => Err EHotJournal) reqs.
Proof. exact txn_hot_journal. Qed.
Print Assumptions C08_hot_journal.
