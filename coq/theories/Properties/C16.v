(* C16 - The SQL parser is total, deterministic and local in what it reports.
   Property theorems only.  Everything here is about Gen/ParserTables.v: the
   LALR tables, token numbers and semantic actions translated from
   sql/parser.go, and the grammar translated from sql/parser.go.y, on THIS run. *)
From Coq Require Import ZArith List String.
From SQ Require Import Gen.ParserTables Model.SqlParse Proofs.ParseP.
Import ListNotations.
Open Scope string_scope.
Open Scope Z_scope.

(* every state x every lookahead token (and no lookahead): the table accesses
   of yynewstate / yydefault / the exception table stay in range and name a
   state or a production - no index-out-of-range panic in the driver *)
Theorem C16_decisions_in_range : decisions_ok = true.
Proof. vm_compute. reflexivity. Qed.
Print Assumptions C16_decisions_in_range.

(* every production's left-hand side x every state that can be exposed: the
   goto computation stays in range and yields a state *)
Theorem C16_gotos_in_range : gotos_ok = true.
Proof. vm_compute. reflexivity. Qed.
Print Assumptions C16_gotos_in_range.

(* ... lifted to EVERY token list and any step budget: the driver loop never makes an
   out-of-range access to yyPact / yyDef / yyExca / yyAct / yyChk / yyPgo / yyR1 / yyR2 / yyTok1 /
   yyTok2 and never shifts without a lookahead; every state it pushes is a state (invariant of
   the loop; the lexer adapter always yields a token class the tables cover).  The one other
   BadTable of the model, "eval" (an action reading below the stack or applying a function to a
   value of the wrong shape), is excluded by goyacc's construction and Go's typing, not here. *)
Theorem C16_no_table_panic : forall fuel toks, ~ table_panic (parse_tokens fuel toks).
Proof. exact parse_no_table_panic. Qed.
Print Assumptions C16_no_table_panic.

(* locality, statically: every semantic value an action reads ($k.field) is
   assigned by EVERY production of the grammar symbol at position k (or set by
   the lexer for a token) - so no action can pick up what an earlier,
   unrelated reduction left in the reused stack slot.  This is the obligation
   the empty productions (collate, autoincrement, where, triggerList,
   tableConstraintList) violated before they were given explicit actions. *)
Theorem C16_local : locality_ok = true.
Proof. vm_compute. reflexivity. Qed.
Print Assumptions C16_local.

(* determinism: the driver is a function of the token list (no state survives
   a call in the model; for the code that is C20's footprint) *)
Theorem C16_deterministic : forall fuel toks, parse_tokens fuel toks = parse_tokens fuel toks.
Proof. reflexivity. Qed.

(* non-vacuity: the translated parser accepts a statement and reports it *)
Example C16_sample :
  show_outcome (parse_tokens 1000 [ {| ttyp := tok_SELECT; ts := "SELECT"; tn := 0; tf := 0 |};
                                    {| ttyp := tok_tBare; ts := "a"; tn := 0; tf := 0 |};
                                    {| ttyp := tok_FROM; ts := "FROM"; tn := 0; tf := 0 |};
                                    {| ttyp := tok_tBare; ts := "t"; tn := 0; tf := 0 |} ])
  = "accept SelectStmt{Columns=[s61];Table=s74}"%string.
Proof. vm_compute. reflexivity. Qed.

(* ---------- the tokenizer (Model/Tokenizer.v, tied to sql/tokenizer.go token by token on every run) ---------- *)
From SQ Require Import Model.Base Model.Tokenizer Model.ParseBudget Proofs.TokenizerP Proofs.ParseCertP Proofs.ParseTermP.

(* for EVERY byte string tokenize() returns tokens or an error: no slice out of range (Go: panic),
   and its loop ends within len(s) + 1 iterations - every iteration moves the index forward *)
Theorem C16_tokenize_total : forall s, tok_fine (tokenize s).
Proof. exact tokenize_total. Qed.
Print Assumptions C16_tokenize_total.

(* locality at the level of tokens: what the loop reports from byte i on is what it reports for the
   string with its first i bytes removed - nothing read earlier influences it *)
Theorem C16_tokens_suffix_local : forall fuel s i j acc, 0 <= i -> 0 <= j -> i <= len s ->
  tok_loop fuel s (i + j) acc = tok_loop fuel (drop i s) j acc.
Proof. exact tok_loop_suffix. Qed.
Print Assumptions C16_tokens_suffix_local.

(* ... and the tokens already reported are never changed by what follows *)
Theorem C16_tokens_prefix_kept : forall fuel s i acc, tok_loop fuel s i acc = tok_prepend (rev acc) (tok_loop fuel s i []).
Proof. exact tok_loop_acc. Qed.
Print Assumptions C16_tokens_prefix_kept.

(* ---------- termination of the generated parser ---------- *)
(* for EVERY token list the driver loop ends (accept, syntax error, or a detected stale read)
   within parse_budget iterations: a bound linear in the number of tokens.  Proved from a
   certificate (Gen/ParserCert.v) that is recomputed from the tables and re-checked on every run. *)
Theorem C16_parse_terminates : forall toks, parse_tokens (parse_budget toks) toks <> OutOfFuel.
Proof. exact parse_terminates. Qed.
Print Assumptions C16_parse_terminates.

(* no reduction pops more states than the stack holds (Go: a negative slice index, a panic) *)
Theorem C16_no_stack_underflow : forall c p, TInv c -> decide (top_state c) (option_map fst (look c)) = DReduce p ->
  exists L, nthZ yyR2 p = Some L /\ 0 <= L /\ (Z.to_nat L < List.length (live c))%nat.
Proof. exact reduce_never_underflows. Qed.
Print Assumptions C16_no_stack_underflow.

(* sql.Parse as a whole, for EVERY input string: it returns - a statement, a syntax error, or (in
   the model only) a detected stale read; never a panic in the tokenizer or the tables, never
   non-termination *)
Theorem C16_parse_total : forall s, parse_sql s <> OutOfFuel /\ ~ table_panic (parse_sql s).
Proof. exact parse_sql_total. Qed.
Print Assumptions C16_parse_total.

(* the operator table and the character lists of tokenize()'s inner switch, and the shape of readOp, were
   read from sql/tokenizer.go on this run (false: the translator could not read them and the model runs on
   the pinned source's tables) *)
Theorem C16_lexer_tables_translated : Gen.Lexer.lexer_tables_translated = true.
Proof. reflexivity. Qed.
Print Assumptions C16_lexer_tables_translated.
