(* C05 - Corrupt or hostile files never crash or hang the reader.  Property
   theorems only; proofs are in Proofs/.
   In the model a Go run-time panic (slice bounds incl. the capacity rule,
   index out of range, nil dereference) is the result Err EPanic and a loop
   without a bound that runs out of its budget is Err EFuel; [np x] says x is
   neither, [fl_ok x] says the same of a traversal's outcome. *)
From SQ Require Import Model.Base Model.Varint Model.Record Model.Payload Model.Btree
     Model.Page Model.Cmp Model.Low Model.High Proofs.PayloadP Proofs.TotalP Proofs.TotalLowP Proofs.TotalHighP.

(* every byte string as a record *)
Theorem C05_record : forall r, np (parse_record r).
Proof. exact parse_record_np. Qed.
Print Assumptions C05_record.

(* every byte string of at least one page as a b-tree page: cell counts,
   cell pointers, payload lengths, 9-byte negative varints, ... *)
Theorem C05_page : forall b first u, 512 <= u -> 512 <= len b -> np (parse_page b first u).
Proof. exact parse_page_np. Qed.
Print Assumptions C05_page.

(* overflow chains: cyclic, self-referential, too short, too long - the walk
   reads each page at most once and ends *)
Theorem C05_overflow : forall pg U, 512 <= U -> (forall n buf, pg n = Ok buf -> len buf = U) -> (forall n, np (pg n)) ->
  forall ps npages pl, NoDup ps -> readable pg ps -> (length ps <= npages)%nat -> 0 <= pl_len pl ->
  np (add_overflow pg npages pl).
Proof. exact add_overflow_np. Qed.
Print Assumptions C05_overflow.

(* EVERY byte string as a database file, every legal page size: every scan,
   search and lookup of the low level API, for every root page number, key
   and (non-panicking) callback, ends in rows and/or an ordinary error *)
Theorem C05_table_scan : forall img U, 512 <= U -> forall S root (cb : Z -> record -> S -> flow * S) s,
  (forall k r s, fl_ok (cb k r s)) ->
  fl_ok (table_scan (image_pager img U) (openp (image_pager img U) U) (image_pages img U) S root cb s).
Proof. exact image_table_scan_ok. Qed.
Print Assumptions C05_table_scan.

Theorem C05_index_scan : forall img U, 512 <= U -> forall S root (cb : record -> S -> flow * S) s,
  (forall r s, fl_ok (cb r s)) ->
  fl_ok (index_scan (image_pager img U) (openp (image_pager img U) U) (image_pages img U) S root cb s).
Proof. exact image_index_scan_ok. Qed.
Print Assumptions C05_index_scan.

Theorem C05_scan_min : forall img U, 512 <= U -> forall S root from (cb : record -> S -> flow * S) s,
  (forall r s, fl_ok (cb r s)) ->
  fl_ok (index_scan_min (image_pager img U) (openp (image_pager img U) U) (image_pages img U) S root from cb s).
Proof. exact image_index_scan_min_ok. Qed.
Print Assumptions C05_scan_min.

Theorem C05_scan_eq : forall img U, 512 <= U -> forall S root k (cb : record -> S -> flow * S) s,
  (forall r s, fl_ok (cb r s)) ->
  fl_ok (index_scan_eq (image_pager img U) (openp (image_pager img U) U) (image_pages img U) S root k cb s).
Proof. exact image_index_scan_eq_ok. Qed.
Print Assumptions C05_scan_eq.

Theorem C05_scan_range : forall img U, 512 <= U -> forall S root from to (cb : record -> S -> flow * S) s,
  (forall r s, fl_ok (cb r s)) ->
  fl_ok (index_scan_range (image_pager img U) (openp (image_pager img U) U) (image_pages img U) S root from to cb s).
Proof. exact image_index_scan_range_ok. Qed.
Print Assumptions C05_scan_range.

Theorem C05_rowid : forall img U, 512 <= U -> forall root rowid,
  np (table_rowid (image_pager img U) (openp (image_pager img U) U) (image_pages img U) root rowid).
Proof. exact image_table_rowid_np. Qed.
Print Assumptions C05_rowid.

(* reading sqlite_master (schema inspection) *)
Theorem C05_master : forall img U, 512 <= U ->
  fl_ok (master (image_pager img U) (openp (image_pager img U) U) (image_pages img U)).
Proof. exact image_master_ok. Qed.
Print Assumptions C05_master.

(* the high level API (select.go, indexed_select.go, sqlite.go, key.go; Model/High.v): EVERY byte
   string as a database file, every page size, EVERY schema record - whether or not it fits
   the file, hostile sqlite_master texts included - every table / index / column name, key and
   non-panicking callback: rows and/or an ordinary error, never a panic, never a divergence.
   (Column positions, the WITHOUT ROWID store order, the primary key positions inside index
   entries and the lengths of the keys built from them are all covered.) *)
Theorem C05_select : forall img U, 512 <= U -> forall S (cb : row -> S -> flow * S), (forall r s, fl_ok (cb r s)) ->
  forall sc table columns s,
  fl_ok (h_select (image_pager img U) (openp (image_pager img U) U) (image_pages img U) S cb sc table columns s).
Proof. exact h_select_ok. Qed.
Print Assumptions C05_select.

Theorem C05_select_rowid : forall img U, 512 <= U -> forall S (cb : row -> S -> flow * S), (forall r s, fl_ok (cb r s)) ->
  forall sc table rowid columns s,
  fl_ok (h_select_rowid (image_pager img U) (openp (image_pager img U) U) (image_pages img U) S cb sc table rowid columns s).
Proof. exact h_select_rowid_ok. Qed.
Print Assumptions C05_select_rowid.

Theorem C05_indexed_select : forall img U, 512 <= U -> forall S (cb : row -> S -> flow * S), (forall r s, fl_ok (cb r s)) ->
  forall sc table iname columns s,
  fl_ok (h_indexed_select (image_pager img U) (openp (image_pager img U) U) (image_pages img U) S cb sc table iname columns s).
Proof. exact h_indexed_select_ok. Qed.
Print Assumptions C05_indexed_select.

Theorem C05_indexed_select_eq : forall img U, 512 <= U -> forall S (cb : row -> S -> flow * S), (forall r s, fl_ok (cb r s)) ->
  forall sc table iname k columns s,
  fl_ok (h_indexed_select_eq (image_pager img U) (openp (image_pager img U) U) (image_pages img U) S cb sc table iname k columns s).
Proof. exact h_indexed_select_eq_ok. Qed.
Print Assumptions C05_indexed_select_eq.

Theorem C05_pk_select : forall img U, 512 <= U -> forall S (cb : row -> S -> flow * S), (forall r s, fl_ok (cb r s)) ->
  forall sc table k columns s,
  fl_ok (h_pk_select (image_pager img U) (openp (image_pager img U) U) (image_pages img U) S cb sc table k columns s).
Proof. exact h_pk_select_ok. Qed.
Print Assumptions C05_pk_select.

(* ---------- end to end: nothing but the bytes of the file ---------- *)
From SQ Require Import Model.E2E Proofs.E2EP.

(* the high level API with the schema taken from the file itself (sqlite_master's SQL text through the
   tokenizer model, the translated parser and the model of newSchema): EVERY byte string as a
   database file, every page size, every table / index / column name, key and non-panicking
   callback: rows and/or an ordinary error.  sql.Parse's own totality is C16_parse_total. *)
Theorem C05_e2e_select : forall img U, 512 <= U -> forall S (cb : row -> S -> flow * S), (forall r s, fl_ok (cb r s)) ->
  forall table columns s,
  fl_ok (e_select (image_pager img U) (openp (image_pager img U) U) (image_pages img U) S cb table columns s).
Proof. exact e_select_ok. Qed.
Print Assumptions C05_e2e_select.

Theorem C05_e2e_select_rowid : forall img U, 512 <= U -> forall S (cb : row -> S -> flow * S), (forall r s, fl_ok (cb r s)) ->
  forall table rowid columns s,
  fl_ok (e_select_rowid (image_pager img U) (openp (image_pager img U) U) (image_pages img U) S cb table rowid columns s).
Proof. exact e_select_rowid_ok. Qed.
Print Assumptions C05_e2e_select_rowid.

Theorem C05_e2e_indexed_select : forall img U, 512 <= U -> forall S (cb : row -> S -> flow * S), (forall r s, fl_ok (cb r s)) ->
  forall table iname columns s,
  fl_ok (e_indexed_select (image_pager img U) (openp (image_pager img U) U) (image_pages img U) S cb table iname columns s).
Proof. exact e_indexed_select_ok. Qed.
Print Assumptions C05_e2e_indexed_select.

Theorem C05_e2e_indexed_select_eq : forall img U, 512 <= U -> forall S (cb : row -> S -> flow * S), (forall r s, fl_ok (cb r s)) ->
  forall table iname k columns s,
  fl_ok (e_indexed_select_eq (image_pager img U) (openp (image_pager img U) U) (image_pages img U) S cb table iname k columns s).
Proof. exact e_indexed_select_eq_ok. Qed.
Print Assumptions C05_e2e_indexed_select_eq.

Theorem C05_e2e_pk_select : forall img U, 512 <= U -> forall S (cb : row -> S -> flow * S), (forall r s, fl_ok (cb r s)) ->
  forall table k columns s,
  fl_ok (e_pk_select (image_pager img U) (openp (image_pager img U) U) (image_pages img U) S cb table k columns s).
Proof. exact e_pk_select_ok. Qed.
Print Assumptions C05_e2e_pk_select.
