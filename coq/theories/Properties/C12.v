(* C12 - Read failures are reported, never turned into silently missing rows.
   Property theorems only; proofs are in Proofs/. *)
From SQ Require Import Model.Base Model.Record Model.Btree Model.Cmp Model.Low
     Spec.Flat Spec.Deliver Proofs.BtreeP Proofs.DeliverP Proofs.LowP Proofs.FaultP Proofs.ScanP Proofs.FaultMinP Model.High Proofs.FaultHighP.

(* the traversals deliver the rows up to the first failing page / cell and
   then report that failure: iter = deliver the flattening, where the
   flattening stops at the first error (Spec/Flat.v) *)
Theorem C12_table_iter : forall P openp S tcb r pg s,
  titer P openp S tcb r pg s = run_flat (fun x s => tcb (fst x) (snd x) s) (tflat P openp r pg) s.
Proof. exact titer_flat. Qed.
Print Assumptions C12_table_iter.

Theorem C12_index_iter : forall P R openp load S icb r pg s,
  iiter P R openp load S icb r pg s = run_flat icb (iflat P R openp load r pg) s.
Proof. exact iiter_flat. Qed.
Print Assumptions C12_index_iter.

(* any set of page reads turned into failures (I/O error, short read):
   the rows seen are the fault-free rows, or a prefix of them and an error *)
Theorem C12_table_rows : forall pg' pg op' op npages, (forall n, le_res (pg' n) (pg n)) -> (forall n, le_res (op' n) (op n)) ->
  forall root, flat_le (table_rows pg' op' npages root) (table_rows pg op npages root).
Proof. exact table_rows_fault. Qed.
Print Assumptions C12_table_rows.

Theorem C12_index_rows : forall pg' pg op' op npages, (forall n, le_res (pg' n) (pg n)) -> (forall n, le_res (op' n) (op n)) ->
  forall root, flat_le (index_rows pg' op' npages root) (index_rows pg op npages root).
Proof. exact index_rows_fault. Qed.
Print Assumptions C12_index_rows.

(* hence for the scans: same result as without faults, or an error after a
   correct prefix (the collected rows are kept newest first) *)
Theorem C12_table_scan : forall pg' pg op' op npages, (forall n, le_res (pg' n) (pg n)) -> (forall n, le_res (op' n) (op n)) -> forall root,
  let run p := table_scan (fst p) (snd p) npages _ root (fun k r s => stop_after None (k, r) s) [] in
  run (pg', op') = run (pg, op) \/
  exists e rest, fst (run (pg', op')) = Fail e /\ snd (run (pg, op)) = rest ++ snd (run (pg', op')).
Proof. exact table_scan_fault. Qed.
Print Assumptions C12_table_scan.

Theorem C12_index_scan : forall pg' pg op' op npages, (forall n, le_res (pg' n) (pg n)) -> (forall n, le_res (op' n) (op n)) -> forall root,
  let run p := index_scan (fst p) (snd p) npages _ root (stop_after None) [] in
  run (pg', op') = run (pg, op) \/
  exists e rest, fst (run (pg', op')) = Fail e /\ snd (run (pg, op)) = rest ++ snd (run (pg', op')).
Proof. exact index_scan_fault. Qed.
Print Assumptions C12_index_scan.

Theorem C12_scan_err : forall pg op npages root l e,
  table_rows pg op npages root = (l, Some e) ->
  table_scan pg op npages _ root (tcollect None) [] = (Fail e, rev l).
Proof. exact table_scan_err. Qed.
Print Assumptions C12_scan_err.

(* the page store of a pager inherits the pager's failures, so the above
   applies to every pair of pagers that differ only by failing reads *)
Theorem C12_store : forall pg' pg U, (forall n, le_res (pg' n) (pg n)) ->
  forall n, le_res (openp pg' U n) (openp pg U n).
Proof. exact openp_of_le. Qed.
Print Assumptions C12_store.

(* the from-key operations (Go's error-remembering bisection at every page, first child
   searched, later children iterated): with ANY callback that only adds to the rows it has
   collected - any early stop included - the faulty run equals the fault-free run, or fails
   having collected a prefix (the lists are newest first) of what the fault-free run collects *)
Theorem C12_scan_min : forall pg' pg op' op npages, (forall n, le_res (pg' n) (pg n)) -> (forall n, le_res (op' n) (op n)) ->
  forall root from (cb : record -> list record -> flow * list record), (forall r, grows _ lext (cb r)) -> forall s,
  out_le _ lext (index_scan_min pg' op' npages _ root from cb s) (index_scan_min pg op npages _ root from cb s).
Proof. exact index_scan_min_fault. Qed.
Print Assumptions C12_scan_min.

Theorem C12_scan_range : forall pg' pg op' op npages, (forall n, le_res (pg' n) (pg n)) -> (forall n, le_res (op' n) (op n)) ->
  forall root from to (cb : record -> list record -> flow * list record), (forall r, grows _ lext (cb r)) -> forall s,
  out_le _ lext (index_scan_range pg' op' npages _ root from to cb s) (index_scan_range pg op npages _ root from to cb s).
Proof. exact index_scan_range_fault. Qed.
Print Assumptions C12_scan_range.

Theorem C12_scan_eq : forall pg' pg op' op npages, (forall n, le_res (pg' n) (pg n)) -> (forall n, le_res (op' n) (op n)) ->
  forall root k (cb : record -> list record -> flow * list record), (forall r, grows _ lext (cb r)) -> forall s,
  out_le _ lext (index_scan_eq pg' op' npages _ root k cb s) (index_scan_eq pg op npages _ root k cb s).
Proof. exact index_scan_eq_fault. Qed.
Print Assumptions C12_scan_eq.

(* the collecting callbacks of the checks are of that kind *)
Theorem C12_collectors_grow : forall k (r : record), grows _ lext (stop_after k r).
Proof. exact stop_after_grows. Qed.
Print Assumptions C12_collectors_grow.

(* Table.Rowid under faults: the fault-free answer or an error - never "not found" for a
   row that is there, never another row *)
Theorem C12_rowid : forall pg' pg op' op npages, (forall n, le_res (pg' n) (pg n)) -> (forall n, le_res (op' n) (op n)) ->
  forall root rowid, le_res (table_rowid pg' op' npages root rowid) (table_rowid pg op npages root rowid).
Proof. exact table_rowid_fault. Qed.
Print Assumptions C12_rowid.

(* ---- the high level API (select.go, indexed_select.go, sqlittle.go) ----
   For every schema record, table / index name, column list, key and every callback whose state only
   grows (ext is any preorder on the caller's state; collecting rows is one): run against a pager on
   which any set of page reads fails, the operation - sqlite_master read, index scan, the nested rowid
   / primary key lookup per entry, row mapping - equals the fault-free run, or fails having handed the
   callback a prefix of what the fault-free run hands it.  A row is never skipped, a lookup that fails
   is never "no such row". *)
Theorem C12_select : forall pg' pg op' op npages, (forall n, le_res (pg' n) (pg n)) -> (forall n, le_res (op' n) (op n)) ->
  forall S (ext : S -> S -> Prop), (forall s, ext s s) -> (forall a b c, ext a b -> ext b c -> ext a c) ->
  forall cb, (forall r, grows S ext (cb r)) -> forall sc table columns s,
  out_le S ext (h_select pg' op' npages S cb sc table columns s) (h_select pg op npages S cb sc table columns s).
Proof. exact h_select_fault. Qed.
Print Assumptions C12_select.

Theorem C12_select_rowid : forall pg' pg op' op npages, (forall n, le_res (pg' n) (pg n)) -> (forall n, le_res (op' n) (op n)) ->
  forall S (ext : S -> S -> Prop), (forall s, ext s s) ->
  forall cb, (forall r, grows S ext (cb r)) -> forall sc table rowid columns s,
  out_le S ext (h_select_rowid pg' op' npages S cb sc table rowid columns s) (h_select_rowid pg op npages S cb sc table rowid columns s).
Proof. exact h_select_rowid_fault. Qed.
Print Assumptions C12_select_rowid.

Theorem C12_indexed_select : forall pg' pg op' op npages, (forall n, le_res (pg' n) (pg n)) -> (forall n, le_res (op' n) (op n)) ->
  forall S (ext : S -> S -> Prop), (forall s, ext s s) -> (forall a b c, ext a b -> ext b c -> ext a c) ->
  forall cb, (forall r, grows S ext (cb r)) -> forall sc table iname columns s,
  out_le S ext (h_indexed_select pg' op' npages S cb sc table iname columns s) (h_indexed_select pg op npages S cb sc table iname columns s).
Proof. exact h_indexed_select_fault. Qed.
Print Assumptions C12_indexed_select.

Theorem C12_indexed_select_eq : forall pg' pg op' op npages, (forall n, le_res (pg' n) (pg n)) -> (forall n, le_res (op' n) (op n)) ->
  forall S (ext : S -> S -> Prop), (forall s, ext s s) -> (forall a b c, ext a b -> ext b c -> ext a c) ->
  forall cb, (forall r, grows S ext (cb r)) -> forall sc table iname k columns s,
  out_le S ext (h_indexed_select_eq pg' op' npages S cb sc table iname k columns s) (h_indexed_select_eq pg op npages S cb sc table iname k columns s).
Proof. exact h_indexed_select_eq_fault. Qed.
Print Assumptions C12_indexed_select_eq.

Theorem C12_pk_select : forall pg' pg op' op npages, (forall n, le_res (pg' n) (pg n)) -> (forall n, le_res (op' n) (op n)) ->
  forall S (ext : S -> S -> Prop), (forall s, ext s s) -> (forall a b c, ext a b -> ext b c -> ext a c) ->
  forall cb, (forall r, grows S ext (cb r)) -> forall sc table k columns s,
  out_le S ext (h_pk_select pg' op' npages S cb sc table k columns s) (h_pk_select pg op npages S cb sc table k columns s).
Proof. exact h_pk_select_fault. Qed.
Print Assumptions C12_pk_select.

(* the row collecting callback of the checks grows its state *)
Theorem C12_row_collector_grows : forall limit (r : row), grows (list row) lext (collect_hrow limit r).
Proof. exact collect_hrow_grows. Qed.
Print Assumptions C12_row_collector_grows.

(* ---- end to end, from the bytes of the file alone (Model/E2E.v): the schema record is not given but read through the
   same faulty pager - sqlite_master, the SQL texts, the tokenizer, the translated parser, newSchema - and then the
   operation runs.  Same statement: the fault-free outcome, or a failure after a prefix of the fault-free rows. *)
From SQ Require Import Model.E2E.
Theorem C12_e2e_select : forall pg' pg op' op npages, (forall n, le_res (pg' n) (pg n)) -> (forall n, le_res (op' n) (op n)) ->
  forall S (ext : S -> S -> Prop), (forall s, ext s s) -> (forall a b c, ext a b -> ext b c -> ext a c) ->
  forall cb, (forall r, grows S ext (cb r)) -> forall table columns s,
  out_le S ext (e_select pg' op' npages S cb table columns s) (e_select pg op npages S cb table columns s).
Proof. exact e_select_fault. Qed.
Print Assumptions C12_e2e_select.
Theorem C12_e2e_select_rowid : forall pg' pg op' op npages, (forall n, le_res (pg' n) (pg n)) -> (forall n, le_res (op' n) (op n)) ->
  forall S (ext : S -> S -> Prop), (forall s, ext s s) ->
  forall cb, (forall r, grows S ext (cb r)) -> forall table rowid columns s,
  out_le S ext (e_select_rowid pg' op' npages S cb table rowid columns s) (e_select_rowid pg op npages S cb table rowid columns s).
Proof. exact e_select_rowid_fault. Qed.
Print Assumptions C12_e2e_select_rowid.
Theorem C12_e2e_indexed_select : forall pg' pg op' op npages, (forall n, le_res (pg' n) (pg n)) -> (forall n, le_res (op' n) (op n)) ->
  forall S (ext : S -> S -> Prop), (forall s, ext s s) -> (forall a b c, ext a b -> ext b c -> ext a c) ->
  forall cb, (forall r, grows S ext (cb r)) -> forall table iname columns s,
  out_le S ext (e_indexed_select pg' op' npages S cb table iname columns s) (e_indexed_select pg op npages S cb table iname columns s).
Proof. exact e_indexed_select_fault. Qed.
Print Assumptions C12_e2e_indexed_select.
Theorem C12_e2e_indexed_select_eq : forall pg' pg op' op npages, (forall n, le_res (pg' n) (pg n)) -> (forall n, le_res (op' n) (op n)) ->
  forall S (ext : S -> S -> Prop), (forall s, ext s s) -> (forall a b c, ext a b -> ext b c -> ext a c) ->
  forall cb, (forall r, grows S ext (cb r)) -> forall table iname k columns s,
  out_le S ext (e_indexed_select_eq pg' op' npages S cb table iname k columns s) (e_indexed_select_eq pg op npages S cb table iname k columns s).
Proof. exact e_indexed_select_eq_fault. Qed.
Print Assumptions C12_e2e_indexed_select_eq.
Theorem C12_e2e_pk_select : forall pg' pg op' op npages, (forall n, le_res (pg' n) (pg n)) -> (forall n, le_res (op' n) (op n)) ->
  forall S (ext : S -> S -> Prop), (forall s, ext s s) -> (forall a b c, ext a b -> ext b c -> ext a c) ->
  forall cb, (forall r, grows S ext (cb r)) -> forall table k columns s,
  out_le S ext (e_pk_select pg' op' npages S cb table k columns s) (e_pk_select pg op npages S cb table k columns s).
Proof. exact e_pk_select_fault. Qed.
Print Assumptions C12_e2e_pk_select.
