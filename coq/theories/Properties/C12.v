(* C12 - Read failures are reported, never turned into silently missing rows.
   Property theorems only; proofs are in Proofs/. *)
From SQ Require Import Model.Base Model.Record Model.Btree Model.Cmp Model.Low
     Spec.Flat Spec.Deliver Proofs.BtreeP Proofs.DeliverP Proofs.LowP Proofs.FaultP Proofs.ScanP Proofs.FaultMinP.

(* the traversals deliver the rows up to the first failing page / cell and
   then report that failure: iter = deliver the flattening, where the
   flattening stops at the first error (Spec/Flat.v) *)
Theorem C12_table_iter : forall P openp S tcb r pg s,
  titer P openp S tcb r pg s = run_flat (fun x s => tcb (fst x) (snd x) s) (tflat P openp r pg) s.
Proof. exact titer_flat. Qed.
Print Assumptions C12_table_iter.

Theorem C12_index_iter : forall P R openp load S icb r pg s,
  iiter P R openp load S icb r pg s = run_flat icb (iflat P R openp load r pg) s.
Proof. exact iiter_flat. Qed.
Print Assumptions C12_index_iter.

(* any set of page reads turned into failures (I/O error, short read):
   the rows seen are the fault-free rows, or a prefix of them and an error *)
Theorem C12_table_rows : forall pg' pg op' op npages, (forall n, le_res (pg' n) (pg n)) -> (forall n, le_res (op' n) (op n)) ->
  forall root, flat_le (table_rows pg' op' npages root) (table_rows pg op npages root).
Proof. exact table_rows_fault. Qed.
Print Assumptions C12_table_rows.

Theorem C12_index_rows : forall pg' pg op' op npages, (forall n, le_res (pg' n) (pg n)) -> (forall n, le_res (op' n) (op n)) ->
  forall root, flat_le (index_rows pg' op' npages root) (index_rows pg op npages root).
Proof. exact index_rows_fault. Qed.
Print Assumptions C12_index_rows.

(* hence for the scans: same result as without faults, or an error after a
   correct prefix (the collected rows are kept newest first) *)
Theorem C12_table_scan : forall pg' pg op' op npages, (forall n, le_res (pg' n) (pg n)) -> (forall n, le_res (op' n) (op n)) -> forall root,
  let run p := table_scan (fst p) (snd p) npages _ root (fun k r s => stop_after None (k, r) s) [] in
  run (pg', op') = run (pg, op) \/
  exists e rest, fst (run (pg', op')) = Fail e /\ snd (run (pg, op)) = rest ++ snd (run (pg', op')).
Proof. exact table_scan_fault. Qed.
Print Assumptions C12_table_scan.

Theorem C12_index_scan : forall pg' pg op' op npages, (forall n, le_res (pg' n) (pg n)) -> (forall n, le_res (op' n) (op n)) -> forall root,
  let run p := index_scan (fst p) (snd p) npages _ root (stop_after None) [] in
  run (pg', op') = run (pg, op) \/
  exists e rest, fst (run (pg', op')) = Fail e /\ snd (run (pg, op)) = rest ++ snd (run (pg', op')).
Proof. exact index_scan_fault. Qed.
Print Assumptions C12_index_scan.

Theorem C12_scan_err : forall pg op npages root l e,
  table_rows pg op npages root = (l, Some e) ->
  table_scan pg op npages _ root (tcollect None) [] = (Fail e, rev l).
Proof. exact table_scan_err. Qed.
Print Assumptions C12_scan_err.

(* the page store of a pager inherits the pager's failures, so the above
   applies to every pair of pagers that differ only by failing reads *)
Theorem C12_store : forall pg' pg U, (forall n, le_res (pg' n) (pg n)) ->
  forall n, le_res (openp pg' U n) (openp pg U n).
Proof. exact openp_of_le. Qed.
Print Assumptions C12_store.

(* the from-key operations (Go's error-remembering bisection at every page, first child
   searched, later children iterated): with ANY callback that only adds to the rows it has
   collected - any early stop included - the faulty run equals the fault-free run, or fails
   having collected a prefix (the lists are newest first) of what the fault-free run collects *)
Theorem C12_scan_min : forall pg' pg op' op npages, (forall n, le_res (pg' n) (pg n)) -> (forall n, le_res (op' n) (op n)) ->
  forall root from (cb : record -> list record -> flow * list record), (forall r, grows _ lext (cb r)) -> forall s,
  out_le _ lext (index_scan_min pg' op' npages _ root from cb s) (index_scan_min pg op npages _ root from cb s).
Proof. exact index_scan_min_fault. Qed.
Print Assumptions C12_scan_min.

Theorem C12_scan_range : forall pg' pg op' op npages, (forall n, le_res (pg' n) (pg n)) -> (forall n, le_res (op' n) (op n)) ->
  forall root from to (cb : record -> list record -> flow * list record), (forall r, grows _ lext (cb r)) -> forall s,
  out_le _ lext (index_scan_range pg' op' npages _ root from to cb s) (index_scan_range pg op npages _ root from to cb s).
Proof. exact index_scan_range_fault. Qed.
Print Assumptions C12_scan_range.

Theorem C12_scan_eq : forall pg' pg op' op npages, (forall n, le_res (pg' n) (pg n)) -> (forall n, le_res (op' n) (op n)) ->
  forall root k (cb : record -> list record -> flow * list record), (forall r, grows _ lext (cb r)) -> forall s,
  out_le _ lext (index_scan_eq pg' op' npages _ root k cb s) (index_scan_eq pg op npages _ root k cb s).
Proof. exact index_scan_eq_fault. Qed.
Print Assumptions C12_scan_eq.

(* the collecting callbacks of the checks are of that kind *)
Theorem C12_collectors_grow : forall k (r : record), grows _ lext (stop_after k r).
Proof. exact stop_after_grows. Qed.
Print Assumptions C12_collectors_grow.

(* Table.Rowid under faults: the fault-free answer or an error - never "not found" for a
   row that is there, never another row *)
Theorem C12_rowid : forall pg' pg op' op npages, (forall n, le_res (pg' n) (pg n)) -> (forall n, le_res (op' n) (op n)) ->
  forall root rowid, le_res (table_rowid pg' op' npages root rowid) (table_rowid pg op npages root rowid).
Proof. exact table_rowid_fault. Qed.
Print Assumptions C12_rowid.
