(* C02 - Index-ordered select visits exactly the indexed rows in index order.
   Property theorems only; proofs are in Proofs/. *)
From SQ Require Import Model.Base Model.Record Model.Btree Model.Low
     Spec.Flat Spec.Deliver Proofs.BtreeP Proofs.LowP Proofs.ScanP.

(* the index traversal, generic in the tree, including entries stored in
   interior pages (emitted between their left child and the next child) *)
Theorem C02_iter_flat : forall P R openp load S icb r pg s,
  iiter P R openp load S icb r pg s = run_flat icb (iflat P R openp load r pg) s.
Proof. exact iiter_flat. Qed.
Print Assumptions C02_iter_flat.

Theorem C02_scan_rows : forall pg op npages S root (cb : record -> S -> flow * S) s,
  index_scan pg op npages S root cb s = run_flat cb (index_rows pg op npages root) s.
Proof. exact index_scan_rows. Qed.
Print Assumptions C02_scan_rows.

Theorem C02_scan_all : forall pg op npages root l,
  index_rows pg op npages root = (l, None) ->
  index_scan pg op npages _ root (stop_after None) [] = (Continue, rev l).
Proof. exact index_scan_all. Qed.
Print Assumptions C02_scan_all.
