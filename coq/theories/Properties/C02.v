(* C02 - Index-ordered select visits exactly the indexed rows in index order.
   Property theorems only; proofs are in Proofs/. *)
From SQ Require Import Model.Base Model.Record Model.Btree Model.Cmp Model.Low Model.High
     Spec.Flat Spec.Deliver Proofs.BtreeP Proofs.LowP Proofs.ScanP Proofs.HighP.

(* the index traversal, generic in the tree, including entries stored in
   interior pages (emitted between their left child and the next child) *)
Theorem C02_iter_flat : forall P R openp load S icb r pg s,
  iiter P R openp load S icb r pg s = run_flat icb (iflat P R openp load r pg) s.
Proof. exact iiter_flat. Qed.
Print Assumptions C02_iter_flat.

Theorem C02_scan_rows : forall pg op npages S root (cb : record -> S -> flow * S) s,
  index_scan pg op npages S root cb s = run_flat cb (index_rows pg op npages root) s.
Proof. exact index_scan_rows. Qed.
Print Assumptions C02_scan_rows.

Theorem C02_scan_all : forall pg op npages root l,
  index_rows pg op npages root = (l, None) ->
  index_scan pg op npages _ root (stop_after None) [] = (Continue, rev l).
Proof. exact index_scan_all. Qed.
Print Assumptions C02_scan_all.

(* the high level IndexedSelect on a rowid table (indexed_select.go: Model/High.v): per index
   entry, in index order, each once, the row mapping of the table row the entry's rowid names -
   a failing lookup or a missing row ends the select with that error *)
Theorem C02_indexed_select : forall pg op npages S cb sc ms table columns, master pg op npages = (Continue, ms) ->
  forall iname ind ci troot iroot s, s_worowid sc = false ->
  find_index sc iname = Some ind -> to_ci_rowid sc columns = Ok ci ->
  find_root ms name_table table = Ok troot -> find_root ms name_index (si_name ind) = Ok iroot ->
  h_indexed_select pg op npages S cb sc table iname columns s
  = run_flat (via_rowid pg op npages S cb ci troot) (index_rows pg op npages iroot) s.
Proof. exact indexed_select_rowid_table. Qed.
Print Assumptions C02_indexed_select.

(* ... and on a WITHOUT ROWID table: per index entry, in index order, each once, the row of the
   primary key tree found by the equality scan with the key taken from the entry's primary key
   columns; a failing lookup or a missing row ends the select with that error *)
Theorem C02_indexed_select_without_rowid : forall pg op npages S cb sc ms table columns, master pg op npages = (Continue, ms) ->
  forall iname ind ci troot iroot pk s, s_worowid sc = true ->
  find_index sc iname = Some ind -> to_ci_nonrowid sc columns = Ok ci ->
  find_root ms name_table table = Ok troot -> find_root ms name_index (si_name ind) = Ok iroot ->
  as_dbkey (null_key (length (s_pk sc))) (s_pk sc) = Ok pk ->
  h_indexed_select pg op npages S cb sc table iname columns s
  = run_flat (via_pk pg op npages S cb ci troot (pk_columns (s_pk sc) (si_cols ind)) pk) (index_rows pg op npages iroot) s.
Proof. exact indexed_select_norowid_table. Qed.
Print Assumptions C02_indexed_select_without_rowid.

(* the per-entry lookup key: setKey changes the values only - collation and direction stay those of
   the primary key's columns - and the values are the entry's columns at the primary key's positions *)
Theorem C02_lookup_key_keeps_flags : forall r idx k k', length idx = length k -> set_key r idx k = Ok k' ->
  map kcoll k' = map kcoll k /\ map kdesc k' = map kdesc k /\
  map kv k' = map (fun v => nth (Z.to_nat v) r VNull) idx /\ Forall (fun v => v < Z.of_nat (length r)) idx.
Proof. exact set_key_flags. Qed.
Print Assumptions C02_lookup_key_keeps_flags.

(* end to end (Model/E2E.v): IndexedSelect from the bytes of the file alone is C02_indexed_select's operation on
   the schema record the file itself defines *)
From SQ Require Import Model.Tokenizer Model.Schema Model.E2E Proofs.E2EP.
Theorem C02_e2e_indexed_select : forall pg op n S cb table iname columns (s : S) ms st fl,
  master pg op n = (fl, ms) -> (forall e, fl <> Fail e) -> db_schema ms table = Ok st ->
  e_indexed_select pg op n S cb table iname columns s = h_indexed_select pg op n S cb (schema_of st) table iname columns s.
Proof. exact e_indexed_select_is_h. Qed.
Print Assumptions C02_e2e_indexed_select.
