(* C18 - Row.Scan conversions are total, documented, and yield independent
   copies.  Property theorems only; proofs are in Proofs/.
   Model/RowScan.v is a total function of (stored value | missing column) x
   destination kind: every combination yields a value or SErr - there is no
   third outcome (the "impossible" panics of row.go have no counterpart because
   the value type is closed).  strconv.FormatFloat / ParseFloat and time.Parse
   are parameters. *)
From SQ Require Import Model.Base Model.Record Model.Float Model.RowScan Proofs.RowScanP.

Theorem C18_null : forall ff pf pt d, scan1 ff pf pt d (Some VNull) = zero_of d.
Proof. exact scan_null. Qed.
Print Assumptions C18_null.
Theorem C18_missing : forall ff pf pt d, scan1 ff pf pt d None = zero_of d.
Proof. exact scan_missing. Qed.
Print Assumptions C18_missing.

Theorem C18_integers : forall ff pf pt z,
  scan1 ff pf pt DInt64 (Some (VInt z)) = SInt z /\ scan1 ff pf pt DInt (Some (VInt z)) = SInt z /\
  scan1 ff pf pt DInt32 (Some (VInt z)) = SInt (wrap 32 z) /\ scan1 ff pf pt DBool (Some (VInt z)) = SBool (negb (z =? 0)) /\
  scan1 ff pf pt DFloat64 (Some (VInt z)) = SFloat (f_of_int z) /\ scan1 ff pf pt DString (Some (VInt z)) = SString (format_int z) /\
  scan1 ff pf pt DTime (Some (VInt z)) = STime z 0.
Proof. exact scan_int_table. Qed.
Print Assumptions C18_integers.

Theorem C18_reals : forall ff pf pt f,
  scan1 ff pf pt DFloat64 (Some (VReal f)) = SFloat f /\ scan1 ff pf pt DInt64 (Some (VReal f)) = SInt (int_of_float f) /\
  scan1 ff pf pt DBool (Some (VReal f)) = SBool (negb (int_of_float f =? 0)) /\ scan1 ff pf pt DString (Some (VReal f)) = SString (ff f) /\
  scan1 ff pf pt DTime (Some (VReal f)) = SErr.
Proof. exact scan_real_table. Qed.
Print Assumptions C18_reals.

(* numeric text strictly parsed: integer text exactly (all of int64), refused text is an error *)
Theorem C18_text_int : forall ff pf pt s v, parse_int s = Some v -> scan1 ff pf pt DInt64 (Some (VText s)) = SInt v.
Proof. exact scan_text_int. Qed.
Print Assumptions C18_text_int.
Theorem C18_text_bad : forall ff pf pt s, parse_int s = None -> pf s = None ->
  scan1 ff pf pt DInt64 (Some (VText s)) = SErr /\ scan1 ff pf pt DBool (Some (VText s)) = SErr /\ scan1 ff pf pt DFloat64 (Some (VText s)) = SErr.
Proof. exact scan_text_bad. Qed.
Print Assumptions C18_text_bad.
Theorem C18_unsupported : forall ff pf pt v, scan1 ff pf pt DUnsupported v = SErr.
Proof. exact scan_unsupported. Qed.
Print Assumptions C18_unsupported.

(* a scanned byte slice is a fresh buffer: writing to it changes no buffer that existed before *)
Theorem C18_copy : forall (h : heap) (src : nat) (junk : list byte),
  let '(h', id) := scan_bytes_ref h src in
  id = length h /\ nth id h' [] = nth src h [] /\
  forall j, (j < length h)%nat -> nth j (write h' id junk) [] = nth j h [].
Proof. exact scan_bytes_is_copy. Qed.
Print Assumptions C18_copy.
