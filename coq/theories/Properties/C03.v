(* C03 - Index and primary-key equality search returns exactly the matching
   rows.  Property theorems only; proofs are in Proofs/. *)
From SQ Require Import Model.Base Model.Record Model.Btree Model.Cmp Model.Low
     Spec.Flat Spec.Deliver Spec.Order Proofs.SearchP Proofs.DeliverP Proofs.LowP Proofs.ScanP Proofs.CmpP Proofs.SortedP Model.High Proofs.HighP Proofs.HighEqP.
From Coq Require Import Sorting.Sorted.

(* Index.ScanEq delivers, in index order, the run of entries equal to the key
   that starts at the first entry not less than the key ... *)
Theorem C03_scan_eq : forall pg op npages S root k (cb : record -> S -> flow * S) l s,
  index_rows pg op npages root = (l, None) -> mono (search k) l ->
  outcome (index_scan_eq pg op npages S root k cb s)
  = outcome (run_cb cb (take_while (equals k) (drop_lt (search k) l)) s).
Proof. exact index_scan_eq_rows. Qed.
Print Assumptions C03_scan_eq.

(* ... which is exactly the set of entries equal to the key - none missing,
   none extra - when the index is laid out as less* equal* greater* for the
   key (an index sorted by its own order and a key carrying the index's
   collations and directions: Cmp, C11) *)
Theorem C03_eq_is_filter : forall (A : Type) (ge eq : A -> bool) l, three_runs A ge eq l ->
  take_while eq (drop_lt ge l) = filter eq l.
Proof. exact eq_segment_is_filter. Qed.
Print Assumptions C03_eq_is_filter.

Theorem C03_scan_eq_collect : forall pg op npages root key l,
  index_rows pg op npages root = (l, None) -> mono (search key) l ->
  outcome (index_scan_eq pg op npages _ root key (stop_after None) [])
  = (None, rev (take_while (equals key) (drop_lt (search key) l))).
Proof. exact index_scan_eq_all. Qed.
Print Assumptions C03_scan_eq_collect.

(* the layout hypothesis, derived from C11: an index whose entries are sorted entry to entry
   by the index's own order (per column SQLite's order under the column's collation, DESC
   reversed; lexicographic) is less* equal* greater* for every key that carries the index's
   collations and directions on a prefix of its columns ... *)
Theorem C03_sorted_layout : forall cols k l, key_matches cols k ->
  Forall (fun kc => storable (kv kc)) k -> Forall (Forall storable) l ->
  Sorted (fun r1 r2 => cle (rcmp cols r1 r2)) l ->
  three_runs record (search k) (equals k) l.
Proof. exact sorted_index_three_runs. Qed.
Print Assumptions C03_sorted_layout.

(* ... so that on such an index the equality search returns exactly the entries equal to the
   key - none missing, none extra - in index order *)
Theorem C03_scan_eq_sorted : forall pg op npages root cols l,
  index_rows pg op npages root = (l, None) -> Forall (Forall storable) l ->
  Sorted (fun r1 r2 => cle (rcmp cols r1 r2)) l ->
  forall key, key_matches cols key -> Forall (fun kc => storable (kv kc)) key ->
  outcome (index_scan_eq pg op npages _ root key (stop_after None) []) = (None, rev (filter (equals key) l)).
Proof. exact scan_eq_sorted. Qed.
Print Assumptions C03_scan_eq_sorted.

(* the high level selects (key.go, indexed_select.go; Model/High.v).  The key built from the
   caller's values carries, column by column, the index's collation and direction ... *)
Theorem C03_key_carries_index_flags : forall k cols dk, as_dbkey k cols = Ok dk ->
  key_matches (index_order cols) dk /\ map kv dk = k.
Proof. exact as_dbkey_matches. Qed.
Print Assumptions C03_key_carries_index_flags.

(* ... IndexedSelectEq on a rowid table is the equality scan of the index with that key, each
   entry mapped through the lookup of the table row its rowid names ... *)
Theorem C03_indexed_select_eq : forall pg op npages S cb sc ms table columns, master pg op npages = (Continue, ms) ->
  forall iname ind k dbkey ci troot iroot s, s_worowid sc = false ->
  find_index sc iname = Some ind -> as_dbkey k (si_cols ind) = Ok dbkey -> to_ci_rowid sc columns = Ok ci ->
  find_root ms name_table table = Ok troot -> find_root ms name_index (si_name ind) = Ok iroot ->
  h_indexed_select_eq pg op npages S cb sc table iname k columns s
  = index_scan_eq pg op npages S iroot dbkey (via_rowid pg op npages S cb ci troot) s.
Proof. exact indexed_select_eq_rowid_table. Qed.
Print Assumptions C03_indexed_select_eq.

(* ... and PKSelect on a WITHOUT ROWID table whose tree is sorted by its primary key order returns,
   end to end, exactly the rows whose key columns equal the caller's values under the key
   columns' collations and directions - none missing, none extra, in key order, mapped *)
Theorem C03_pk_select_sorted : forall pg op npages sc ms table columns k dbkey ci troot l,
  master pg op npages = (Continue, ms) -> s_worowid sc = true ->
  to_ci_nonrowid sc columns = Ok ci -> find_root ms name_table table = Ok troot -> as_dbkey k (s_pk sc) = Ok dbkey ->
  index_rows pg op npages troot = (l, None) -> Forall (Forall storable) l -> Forall storable k ->
  Sorted (fun r1 r2 => cle (rcmp (index_order (s_pk sc)) r1 r2)) l ->
  outcome (h_pk_select pg op npages _ (stop_after None) sc table k columns [])
  = (None, rev (map (to_row 0 ci) (filter (equals dbkey) l))).
Proof. exact pk_select_sorted. Qed.
Print Assumptions C03_pk_select_sorted.

(* end to end: IndexedSelectEq and PKSelect answered from the bytes of the file alone (Model/E2E.v) are the operations above on
   the schema record the file itself defines - the theorems of this file apply to them as they stand *)
From SQ Require Import Model.Tokenizer Model.Schema Model.E2E Proofs.E2EP.
Theorem C03_e2e_indexed_select_eq : forall pg op n S cb table iname k columns (s : S) ms st fl,
  master pg op n = (fl, ms) -> (forall e, fl <> Fail e) -> db_schema ms table = Ok st ->
  e_indexed_select_eq pg op n S cb table iname k columns s = h_indexed_select_eq pg op n S cb (schema_of st) table iname k columns s.
Proof. exact e_indexed_select_eq_is_h. Qed.
Print Assumptions C03_e2e_indexed_select_eq.
Theorem C03_e2e_pk_select : forall pg op n S cb table k columns (s : S) ms st fl,
  master pg op n = (fl, ms) -> (forall e, fl <> Fail e) -> db_schema ms table = Ok st ->
  e_pk_select pg op n S cb table k columns s = h_pk_select pg op n S cb (schema_of st) table k columns s.
Proof. exact e_pk_select_is_h. Qed.
Print Assumptions C03_e2e_pk_select.
