(* C15 - Unsupported or invalid database headers are refused, valid ones
   accepted.  Property theorems only; proofs are in Proofs/. *)
From SQ Require Import Model.Base Model.Header Proofs.HeaderP Gen.Layout Proofs.LayoutP.

(* exactly the headers of plain UTF-8 rollback-journal databases of a legal
   page size are accepted, and the page size read is the declared one *)
Theorem C15_accept : forall b, accept b ->
  parse_header b = Ok {| h_pagesize := declared_pagesize b; h_change := fld b 24 4; h_cookie := fld b 40 4 |}.
Proof. exact parse_header_accept. Qed.
Print Assumptions C15_accept.

Theorem C15_only_accept : forall b hd, parse_header b = Ok hd -> accept b.
Proof. exact parse_header_ok_accept. Qed.
Print Assumptions C15_only_accept.

(* the must-reject classes, each decided by one field whatever the rest holds *)
Theorem C15_reject_wal : forall b, fld b 19 1 = 2 -> exists e, parse_header b = Err e.
Proof. exact reject_wal. Qed.
Print Assumptions C15_reject_wal.
Theorem C15_reject_read_version : forall b, fld b 19 1 <> 1 -> exists e, parse_header b = Err e.
Proof. exact reject_read_version. Qed.
Print Assumptions C15_reject_read_version.
Theorem C15_reject_utf16 : forall b, fld b 56 4 = 2 \/ fld b 56 4 = 3 -> exists e, parse_header b = Err e.
Proof. exact reject_utf16. Qed.
Print Assumptions C15_reject_utf16.
Theorem C15_reject_reserved : forall b, fld b 20 1 <> 0 -> exists e, parse_header b = Err e.
Proof. exact reject_reserved. Qed.
Print Assumptions C15_reject_reserved.
Theorem C15_reject_schema_format : forall b, 4 < fld b 44 4 -> exists e, parse_header b = Err e.
Proof. exact reject_schema_format. Qed.
Print Assumptions C15_reject_schema_format.
Theorem C15_reject_magic : forall b, magic_ok b = false -> exists e, parse_header b = Err e.
Proof. exact reject_magic. Qed.
Print Assumptions C15_reject_magic.
Theorem C15_reject_pagesize : forall b, ~ In (declared_pagesize b) legal_sizes -> exists e, parse_header b = Err e.
Proof. exact reject_pagesize. Qed.
Print Assumptions C15_reject_pagesize.

(* fields that do not affect reading (change counter, size, free list, cookie,
   cache size, vacuum fields, user version, application id, version stamps:
   bytes 24..43, 48..55, 60..71, 92..99) may hold any value *)
Theorem C15_dont_care : forall b b', length b = length b' ->
  (forall i, relevant i = true -> nth_error b i = nth_error b' i) ->
  accept b -> accept b' /\ declared_pagesize b' = declared_pagesize b.
Proof. exact accept_irrelevant. Qed.
Print Assumptions C15_dont_care.

(* non-vacuity: a real header (page size 65536 encoded as 1) is accepted *)
Definition sample_header : list byte :=
  map z2b ([83; 81; 76; 105; 116; 101; 32; 102; 111; 114; 109; 97; 116; 32; 51; 0; 0; 1; 1; 1; 0; 64; 32; 32;
            0; 0; 0; 7; 0; 0; 0; 3; 0; 0; 0; 0; 0; 0; 0; 0; 0; 0; 0; 2; 0; 0; 0; 4] ++
           [0; 0; 0; 0; 0; 0; 0; 0; 0; 0; 0; 1] ++ repeat 0 12 ++ repeat 0 20 ++ [0; 0; 0; 7; 0; 46; 91; 9])%Z.
Example C15_sample : parse_header sample_header = Ok {| h_pagesize := 65536; h_change := 7; h_cookie := 2 |}.
Proof. vm_compute. reflexivity. Qed.

(* the offsets, widths and signedness the model reads the header fields with are those of the struct the source decodes the
   100 bytes into (Gen/Layout.v is translated from parseHeader's struct literal and its binary.Read(.., binary.BigEndian, ..)
   on every build), and the source's struct names no field the model does not read *)
Theorem C15_source_layout :
  go_header_struct_size = 100%Z /\
  forall name x, In (name, x) model_header_reads -> go_field go_header_fields name = Some x.
Proof. exact header_layout. Qed.
Print Assumptions C15_source_layout.
Theorem C15_source_fields_modelled : map fst go_header_fields = map fst model_header_reads.
Proof. exact header_fields_all_modelled. Qed.
Print Assumptions C15_source_fields_modelled.
