(* C19 - the database/sql driver returns the native API's rows and cleans up.
   Property theorems only; proofs are in Proofs/DriverP.v.
   Model/Driver.v is driver.go's QueryContext goroutine and Rows.Next / Close /
   context cancellation as a transition system with one atomic action per step;
   [reach] is every interleaving of the producer with any consumer program.  The
   native scan is a parameter: the rows it would deliver and how it ends. *)
From Coq Require Import List.
From SQ Require Import Model.Driver Proofs.DriverP.
Import ListNotations.

Section C19.
  Variables (row err : Type) (rows : list row) (fin : option err) (prog : list cop).
  Notation reachable := (reach (init rows fin prog)).

  (* same rows, same order: at every moment the consumer holds a prefix of the native result *)
  Theorem C19_prefix : forall s, reachable s -> exists suf, rows = obs_rows row err (seen s) ++ suf.
  Proof. exact (received_prefix row err rows fin prog). Qed.

  (* EOF without a cancel means every row was delivered and the scan ended without error:
     never a silently short result *)
  Theorem C19_eof_complete : forall s, reachable s -> In OEof (seen s) -> cancelled s = false ->
    obs_rows row err (seen s) = rows /\ fin = None.
  Proof.
    intros s H Hin Hc. split.
    - exact (eof_means_all_rows row err rows fin prog s H Hin Hc).
    - destruct (eof_means_no_error row err rows fin prog s H Hin) as [G|G]; [exact G|congruence].
  Qed.

  (* an error Next reports is the scan's own error *)
  Theorem C19_error_is_scans : forall s e, reachable s -> In (OErr e) (seen s) -> fin = Some e.
  Proof. exact (fun s e => error_is_the_scans row err rows fin prog s e). Qed.

  (* Close returns only after the producer is past the scan, with the lock released *)
  Theorem C19_close_unlocked : forall s e, reachable s -> In (OClosed e) (seen s) ->
    locked s = false /\ (pc s = PWgDone \/ pc s = PClosed).
  Proof.
    intros s e H Hin. split.
    - exact (close_returns_unlocked row err rows fin prog s e H Hin).
    - exact (close_waits row err rows fin prog s e H Hin).
  Qed.

  (* stops the producer, leaks no goroutine, releases the lock - for every schedule:
     executions are finite, and one that saw a cancel or a Close can only end with the
     producer exited, the channel closed and the lock dropped *)
  Theorem C19_finite : forall s s' : st row err, In s' (steps s) -> total row err s' < total row err s.
  Proof. exact (every_step_decreases row err). Qed.
  Theorem C19_clean_end : forall s, reachable s -> steps s = [] -> cancelled s = true ->
    pc s = PClosed /\ locked s = false /\ closed s = true.
  Proof. exact (cancelled_runs_end_clean row err rows fin prog). Qed.
  (* no deadlock otherwise either *)
  Theorem C19_terminal : forall s, reachable s -> steps s = [] ->
    todo s = [] /\ closing s = false /\
    ((pc s = PClosed /\ locked s = false /\ closed s = true) \/ (exists r, pc s = PSelect r /\ cancelled s = false)).
  Proof. exact (terminal_states row err rows fin prog). Qed.
  (* the producer cannot spin, whatever the consumer does *)
  Theorem C19_producer_bounded : forall s k s2, path row err s k s2 -> k + measure row err s2 <= measure row err s.
  Proof. exact (producer_steps_bounded row err). Qed.
  Theorem C19_cancelled_producer_exits : forall n (s : st row err), measure row err s <= n -> cancelled s = true ->
    pc (prun row err n s) = PClosed.
  Proof. exact (cancelled_producer_finishes row err). Qed.
End C19.
Print Assumptions C19_prefix.
Print Assumptions C19_eof_complete.
Print Assumptions C19_error_is_scans.
Print Assumptions C19_close_unlocked.
Print Assumptions C19_finite.
Print Assumptions C19_clean_end.
Print Assumptions C19_terminal.
Print Assumptions C19_producer_bounded.
Print Assumptions C19_cancelled_producer_exits.

(* "*" expands to all columns in definition order, other names pass through *)
Theorem C19_star : forall (name : Type) (is_star : name -> bool) (all : list name),
  forall star, is_star star = true -> expand is_star all [star] = all.
Proof. intros name is_star all star H. unfold expand. cbn. rewrite H. apply app_nil_r. Qed.
Theorem C19_names : forall (name : Type) (is_star : name -> bool) (all sel : list name),
  forallb (fun c => negb (is_star c)) sel = true -> expand is_star all sel = sel.
Proof.
  intros name is_star all sel. unfold expand. induction sel as [|c sel IH]; cbn; [reflexivity|].
  destruct (is_star c); cbn; [discriminate|]. intros H. rewrite (IH H). reflexivity.
Qed.
Print Assumptions C19_star.
Print Assumptions C19_names.

(* non-vacuity: three rows, consumer takes two and closes; then an erroring scan read to the end *)
Example C19_run_close :
  let s := run 100 true (init [1; 2; 3] (@None nat) [CNext; CNext; CClose]) in
  seen s = [OClosed None; ORow 2; ORow 1] /\ pc s = PClosed /\ locked s = false /\ steps s = [].
Proof. vm_compute. repeat split. Qed.
Example C19_run_error :
  let s := run 100 false (init [1; 2] (Some 7) [CNext; CNext; CNext; CNext; CClose]) in
  seen s = [OClosed (Some 7); OErr 7; OErr 7; ORow 2; ORow 1] /\ pc s = PClosed.
Proof. vm_compute. repeat split. Qed.
