(* C09 - A crashed writer's unfinished transaction is never read as data.
   Property theorems only; proofs are in Proofs/. *)
From SQ Require Import Model.Base Model.Btree Model.Page Model.Header Model.Low Model.DbState Proofs.DbStateP.

(* whatever a dead writer left in the database file: while its journal is
   valid (magic, sector size, at least one full sector) and no live connection
   holds RESERVED, every page request of every transaction fails - nothing of
   the file is returned as data *)
Theorem C09_hot_journal_refuses : forall e st reqs j,
  e_journal e = Some j -> valid_journal j = true -> e_reserved e = false ->
  fst (txn e st reqs) = map (fun _ => Err EHotJournal) reqs.
Proof. exact txn_hot_journal. Qed.
Print Assumptions C09_hot_journal_refuses.

(* journals that are absent, empty, shorter than a header, zero-headered or
   cut below one sector are not hot and do not prevent reading *)
Theorem C09_benign : forall j, len j < 28 -> valid_journal j = false.
Proof. intros j H. unfold valid_journal. destruct (len j <? 28) eqn:E; [reflexivity|]. apply Z.ltb_ge in E. exfalso. apply (Z.lt_irrefl 28). eapply Z.le_lt_trans; eauto. Qed.
Print Assumptions C09_benign.

Example C09_zero_header : valid_journal (repeat x00 1024) = false.
Proof. vm_compute. reflexivity. Qed.

Example C09_magic_but_short :
  valid_journal (map z2b [217; 213; 5; 249; 32; 161; 99; 215] ++ repeat x00 12 ++ [x00; x00; x02; x00] ++ repeat x00 100) = false.
Proof. vm_compute. reflexivity. Qed.

Example C09_hot :
  valid_journal (map z2b [217; 213; 5; 249; 32; 161; 99; 215] ++ repeat x00 12 ++ [x00; x00; x02; x00] ++ repeat x00 488) = true.
Proof. vm_compute. reflexivity. Qed.

(* THE crash theorem (Model/Crash.v): the writer's file operations in SQLite's
   order - journal created with a zeroed magic, records appended, synced, THEN
   the magic and record count, synced, and only then database pages (spills
   included), later headers patched beyond the first 28 bytes, one commit
   operation (unlink / truncate / zero the header).  For every such
   transaction, every crash point k and every torn last write: a database file
   that has been touched and whose transaction did not reach its commit point
   lies next to a journal that validJournal accepts - so (C09_hot_journal_refuses)
   nothing of it is read as data. *)
From SQ Require Import Model.Crash Proofs.CrashP.
Theorem C09_crash : forall old ops k part, wf_ops ops ->
  let s := crash old ops k part in
  cmod s = true -> cdone s = false -> exists j, cj s = Some j /\ valid_journal j = true.
Proof. exact crash_safe. Qed.
Print Assumptions C09_crash.

(* the commit-point side: once the commit operation has taken effect, even partly (journal
   unlinked, truncated, or its header zeroed from the first byte on), what is left is not a
   hot journal at any later crash point - the reader reads the file, now the post-image *)
Theorem C09_committed : forall old ops k part, wf_ops ops ->
  let s := crash old ops k part in cdone s = true -> cold s.
Proof. exact committed_cold. Qed.
Print Assumptions C09_committed.

(* together: at every crash point of every transaction, with every torn last write, the reader
   faces one of three situations - a hot journal (every read refused), an untouched database
   file (the pre-image, whatever the journal looks like), or a committed one with no hot journal *)
Theorem C09_every_crash_state : forall old ops k part, wf_ops ops ->
  let s := crash old ops k part in
  (exists j, cj s = Some j /\ valid_journal j = true) \/ (cmod s = false /\ cdone s = false) \/ (cdone s = true /\ cold s).
Proof.
  intros old ops k part Hwf s. destruct (cdone s) eqn:Ed.
  - right. right. split; [reflexivity|]. exact (committed_cold old ops k part Hwf Ed).
  - destruct (cmod s) eqn:Em; [left; exact (crash_safe old ops k part Hwf Em Ed)|right; left; split; reflexivity].
Qed.
Print Assumptions C09_every_crash_state.

(* non-vacuity: a two-phase transaction with a spill, killed in the middle of
   a database write after the second phase was appended *)
Definition sample_sector : list byte :=
  repeat x00 12 ++ repeat x00 8 ++ [x00; x00; x02; x00] ++ [x00; x00; x02; x00] ++ repeat x00 484.
Definition sample_ops : list wop :=
  [OJCreate sample_sector; OJAppend (repeat x01 520); OJSync; OJMagic [x00; x00; x00; x01]; OJSync;
   ODbWrite; OJAppend (repeat x02 1032); OJSync; OJPatch 1024 (repeat x03 12); OJSync; ODbWrite; ODbSync; OCommitDelete].
Example C09_sample_wf : phases PStart sample_ops = Some PDone.
Proof. vm_compute. reflexivity. Qed.
Example C09_sample_crash :
  let s := crash None sample_ops 10 (Some 0%nat) in cmod s = true /\ cdone s = false /\ valid_journal (jbytes s) = true.
Proof. vm_compute. repeat split; reflexivity. Qed.

(* the journal header as the model reads it (magic at 0..7, the sector size as a SIGNED 32 bit big-endian integer at
   20..23, within the 28 bytes read) is the struct validJournal decodes: Gen/Layout.v is translated from
   db/journal.go on every build *)
From SQ Require Import Gen.Layout Proofs.LayoutP.
Theorem C09_source_journal_layout :
  (go_journal_struct_size <= 28)%Z /\
  map fst go_journal_fields = map fst model_journal_reads /\
  forall name x, In (name, x) model_journal_reads -> go_field go_journal_fields name = Some x.
Proof. exact journal_layout. Qed.
Print Assumptions C09_source_journal_layout.

(* ... and validJournal's own tests ARE the model's valid_journal: the 28 bytes read up front, the sanity test on the (signed)
   sector size, the rest of the first sector that must be readable, each translated from db/journal.go on every build *)
Theorem C09_source_journal_tests : forall j,
  valid_journal j =
  if (len j <? go_journal_header_bytes)%Z then false
  else if negb (forallb (fun p => (b2z (fst p) =? snd p)%Z) (combine (take 8 j) journal_magic)) then false
  else let ss := twos 32 (fld j 20 4) in
       if go_journal_sector_refused ss then false
       else (go_journal_header_bytes + go_journal_rest_bytes ss go_journal_header_bytes <=? len j)%Z.
Proof. exact valid_journal_source. Qed.
Print Assumptions C09_source_journal_tests.
