(* C10 - Table and index definitions are interpreted the way SQLite interprets
   them.  Property theorems only.  The statements come out of the parser whose
   tables and semantic actions are regenerated from sql/parser.go on every run
   (Gen/ParserTables.v); see also C16. *)
From Coq Require Import ZArith List String.
From Coq Require Import Sorted.
From SQ Require Import Gen.ParserTables Model.SqlParse Model.Schema Proofs.SchemaP Proofs.SchemaNumP.
Import ListNotations.
Open Scope string_scope.

(* the translated grammar file and the translated tables describe the same
   productions (checked by the translator: same count, same lengths) and every
   value an action reads is defined by the symbol it reads it from *)
Theorem C10_actions_read_defined_values : locality_ok = true.
Proof. vm_compute. reflexivity. Qed.
Print Assumptions C10_actions_read_defined_values.

(* db/schema.go's interpretation of a parsed CREATE TABLE (Model/Schema.v: column and table
   constraints in textual order, rowid alias rule, merging of redundant UNIQUE / PRIMARY KEY
   constraints, autoindex numbering, the late INTEGER PRIMARY KEY index of WITHOUT ROWID tables,
   DEFAULT with column affinity; run against db.Schema() on every definition of every run).
   SQLite's redundancy relation - same columns, same collations, sort order irrelevant - is an
   equivalence, and for EVERY statement value: a WITHOUT ROWID table has no rowid alias, a rowid
   table no primary key column list, and the indexes created for constraints are pairwise
   non-redundant (merging is complete: no two automatic indexes for redundant constraints) *)
Theorem C10_redundancy_is_equivalence :
  (forall a, same_index_columns a a = true) /\
  (forall a b, same_index_columns a b = same_index_columns b a) /\
  (forall a b c, same_index_columns a b = true -> same_index_columns b c = true -> same_index_columns a c = true).
Proof. exact (conj same_refl (conj same_sym same_trans)). Qed.
Print Assumptions C10_redundancy_is_equivalence.

Theorem C10_create_table_invariants : forall ct,
  let st := new_create_table ct in
  (sc_wr st = true -> sc_rowidpk st = false /\ Forall (fun c => t_rowid c = false) (sc_cols st)) /\
  (sc_wr st = false -> sc_pk st = []) /\
  distinct_ix (sc_indexes st).
Proof. exact new_create_table_inv. Qed.
Print Assumptions C10_create_table_invariants.

(* the numbering of the automatic indexes, for EVERY statement value: the indexes created for the constraints of a
   table are named sqlite_autoindex_<table>_<k> with numbers k >= 1 that strictly increase along the list - no number
   is used twice and none goes backwards, whatever mix of merged, skipped and late (WITHOUT ROWID INTEGER PRIMARY KEY)
   constraints the statement has - and the primary key index recorded for a rowid table is one of them (or none) *)
Theorem C10_autoindex_numbering : forall ct,
  let st := new_create_table ct in
  (exists ks, map i_name (sc_indexes st) = map (autoindex_name (sc_table st)) ks /\ StronglySorted Z.lt ks /\ Forall (fun k => (1 <= k)%Z) ks) /\
  (sc_wr st = false -> sc_pkname st = EmptyString \/ In (sc_pkname st) (map i_name (sc_indexes st))).
Proof. exact new_create_table_numbering. Qed.
Print Assumptions C10_autoindex_numbering.

(* the primary key of a WITHOUT ROWID table as interpreted (dedup_pk: `PRIMARY KEY(a, b, a)` counts a once, but
   `(a COLLATE nocase, a)` keeps both): the key's columns are pairwise different in (name, collation), every column the
   statement wrote is represented by one with the same name and collation, and nothing is invented *)
Theorem C10_primary_key_columns_once : forall pk,
  let r := dedup_pk pk [] in
  (forall i j x y, nth_error r i = Some x -> nth_error r j = Some y -> i <> j -> same1 x y = false) /\
  (forall c, In c pk -> exists d, In d r /\ same1 d c = true) /\
  (forall d, In d r -> In d pk).
Proof. exact dedup_pk_ok. Qed.
Print Assumptions C10_primary_key_columns_once.

(* the rules as evaluated by the model on the statements that exposed the repaired defects *)
Example C10_rowid_alias_rule :
  is_rowid false "INTEGER" false = true /\ is_rowid false "integer" true = false /\ is_rowid true "Integer" true = true /\ is_rowid true "INT" false = false.
Proof. vm_compute. repeat split; reflexivity. Qed.
Example C10_affinity_rule :
  column_affinity "VARCHAR(10)" = AText /\ column_affinity "CHARINT" = AInteger /\ column_affinity "" = ABlob /\ column_affinity "DOUBLE" = AReal /\
  column_affinity "DATETIME" = ANumeric /\ column_affinity "FLOATING POINT" = AInteger /\
  default_with_affinity "TEXT" (VInt 5) = DText "5" /\ default_with_affinity "INT" (VStr " 12 ") = DInt 12 /\
  default_with_affinity "REAL" (VInt 5) = DReal 4617315517961601024 /\ default_with_affinity "INT" (VStr "0x10") = DText "0x10".
Proof. vm_compute. repeat split; reflexivity. Qed.
