(* C10 - Table and index definitions are interpreted the way SQLite interprets
   them.  Property theorems only.  The statements come out of the parser whose
   tables and semantic actions are regenerated from sql/parser.go on every run
   (Gen/ParserTables.v); see also C16. *)
From Coq Require Import ZArith List String.
From SQ Require Import Gen.ParserTables Model.SqlParse.

(* the translated grammar file and the translated tables describe the same
   productions (checked by the translator: same count, same lengths) and every
   value an action reads is defined by the symbol it reads it from *)
Theorem C10_actions_read_defined_values : locality_ok = true.
Proof. vm_compute. reflexivity. Qed.
Print Assumptions C10_actions_read_defined_values.
