(* C17 - Stopping a scan early yields an exact prefix and ends the
   transaction.  Property theorems only; proofs are in Proofs/. *)
From SQ Require Import Model.Base Model.Record Model.Btree Model.Cmp Model.Low Model.High
     Spec.Flat Spec.Deliver Proofs.SearchP Proofs.DeliverP Proofs.LowP Proofs.ScanP Proofs.HighP.

(* any list of rows, any k: exactly the first k are delivered, unchanged, in
   order, and the result is "stopped", not an error *)
Theorem C17_prefix : forall (A : Type) (k : nat) (l : list A), (1 <= k <= length l)%nat ->
  run_cb (stop_after (Some k)) l [] = (Stop, rev (firstn k l)).
Proof. exact stop_after_firstn. Qed.
Print Assumptions C17_prefix.

(* the callback is invoked exactly k times: on the first k rows and never again *)
Theorem C17_calls : forall (A : Type) (k : nat) (l : list A), (1 <= k <= length l)%nat ->
  fst (deliver (stop_after (Some k)) l []) = firstn k l.
Proof. exact stop_after_calls. Qed.
Print Assumptions C17_calls.

(* for every callback whatsoever: it is invoked on a prefix of the rows, and
   once it has said "done" (or failed) it is not invoked again *)
Theorem C17_never_again : forall (S A : Type) (cb : A -> S -> flow * S) l s,
  fst (snd (deliver cb l s)) <> Continue ->
  exists d x s0, fst (deliver cb l s) = d ++ [x] /\
                 run_cb cb d s = (Continue, s0) /\ cb x s0 = snd (deliver cb l s).
Proof. exact deliver_cut. Qed.
Print Assumptions C17_never_again.

(* the operations of the low level API, at every tree depth the code accepts
   (the rows are the flattening of the whole tree) *)
Theorem C17_table_scan : forall pg op npages root l oe k, (1 <= k <= length l)%nat ->
  table_rows pg op npages root = (l, oe) ->
  table_scan pg op npages _ root (tcollect (Some k)) [] = (Stop, rev (firstn k l)).
Proof. exact table_scan_stop. Qed.
Print Assumptions C17_table_scan.

Theorem C17_index_scan : forall pg op npages root l oe k, (1 <= k <= length l)%nat ->
  index_rows pg op npages root = (l, oe) ->
  index_scan pg op npages _ root (stop_after (Some k)) [] = (Stop, rev (firstn k l)).
Proof. exact index_scan_stop. Qed.
Print Assumptions C17_index_scan.

Theorem C17_scan_min : forall pg op npages root from l k,
  index_rows pg op npages root = (l, None) -> mono (search from) l ->
  (1 <= k <= length (drop_lt (search from) l))%nat ->
  index_scan_min pg op npages _ root from (stop_after (Some k)) []
  = (Stop, rev (firstn k (drop_lt (search from) l))).
Proof. exact index_scan_min_stop. Qed.
Print Assumptions C17_scan_min.

Theorem C17_scan_range : forall pg op npages root from to l k,
  index_rows pg op npages root = (l, None) -> mono (search from) l ->
  let seg := take_while (fun r => negb (search to r)) (drop_lt (search from) l) in
  (1 <= k <= length seg)%nat ->
  outcome (index_scan_range pg op npages _ root from to (stop_after (Some k)) [])
  = (None, rev (firstn k seg)).
Proof. exact index_scan_range_stop. Qed.
Print Assumptions C17_scan_range.

Theorem C17_scan_eq : forall pg op npages root key l k,
  index_rows pg op npages root = (l, None) -> mono (search key) l ->
  let seg := take_while (equals key) (drop_lt (search key) l) in
  (1 <= k <= length seg)%nat ->
  outcome (index_scan_eq pg op npages _ root key (stop_after (Some k)) [])
  = (None, rev (firstn k seg)).
Proof. exact index_scan_eq_stop. Qed.
Print Assumptions C17_scan_eq.

Example C17_example :
  run_cb (stop_after (Some 2%nat)) [10; 20; 30; 40] [] = (Stop, [20; 10]) /\
  fst (deliver (stop_after (Some 2%nat)) [10; 20; 30; 40] []) = [10; 20].
Proof. vm_compute. split; reflexivity. Qed.

(* the high level SelectDone (Model/High.v): exactly the first k rows, mapped, then "stopped";
   what follows them in the tree - a damaged page included (oe) - plays no role *)
Theorem C17_select : forall pg op npages sc ms table columns ci root l oe k,
  master pg op npages = (Continue, ms) -> s_worowid sc = false ->
  to_ci_rowid sc columns = Ok ci -> find_root ms name_table table = Ok root ->
  table_rows pg op npages root = (l, oe) -> (1 <= k <= length l)%nat ->
  h_select pg op npages _ (stop_after (Some k)) sc table columns []
  = (Stop, rev (firstn k (map (fun x => to_row (fst x) ci (snd x)) l))).
Proof. exact select_stops. Qed.
Print Assumptions C17_select.
