(* C04 - Rowid lookup finds a row iff it exists.  Property theorems only;
   proofs are in Proofs/. *)
From SQ Require Import Model.Base Model.Record Model.Payload Model.Btree Model.Low Model.High Spec.Flat
     Proofs.SearchP Proofs.BtreeP Proofs.BtreeMinP Proofs.LowP Proofs.HighP.
From Coq Require Import Sorted.

(* the from-key descent of a table b-tree, generic in the tree *)
Theorem C04_descent : forall P openp S tcb rowid,
  (forall k pl s, fst (tcb k pl s) <> Continue) ->
  forall r pg l s,
  tflat P openp r pg = (l, None) -> mono (tpred P rowid) l -> sep_ok P openp rowid r pg ->
  titer_min P openp S tcb r pg rowid s = tmin_spec P S tcb rowid l s.
Proof. exact titer_min_spec. Qed.
Print Assumptions C04_descent.

(* Table.Rowid on a well-formed table tree (rowids ascending, interior keys
   bounding their left subtrees) is the lookup among the tree's rows: the
   row stored under that rowid if present, "not found" and no error if
   absent - for every rowid (any Z, in particular all of int64) and every
   depth the code accepts *)
Theorem C04_lookup : forall pg op npages root rowid p l,
  open_table _ op root = Ok p ->
  tflat _ op max_recursion p = (l, None) ->
  StronglySorted Z.lt (map fst l) ->
  sep_ok cell_payload op rowid max_recursion p ->
  table_rowid pg op npages root rowid =
  match lookup_pl rowid l with
  | None => Ok None
  | Some (_, pl) => do rec <- load pg npages pl; Ok (nonempty rec)     (* a record without columns reads as "not found": Go's nil Record *)
  end.
Proof. exact table_rowid_lookup. Qed.
Print Assumptions C04_lookup.

(* the high level SelectRowid (and PKSelect on an INTEGER PRIMARY KEY, which calls it): that
   lookup, with the row mapped - found rows are delivered once, a missing row is no row and no
   error, a failing lookup is that error *)
Theorem C04_select_rowid : forall pg op npages S (cb : row -> S -> flow * S) sc ms table columns rowid ci root s,
  master pg op npages = (Continue, ms) -> s_worowid sc = false ->
  to_ci_rowid sc columns = Ok ci -> find_root ms name_table table = Ok root ->
  h_select_rowid pg op npages S cb sc table rowid columns s =
  match table_rowid pg op npages root rowid with
  | Ok None => (Continue, s)
  | Ok (Some rec) => cb (to_row rowid ci rec) s
  | Err e => (Fail e, s)
  end.
Proof. exact select_rowid_lookup. Qed.
Print Assumptions C04_select_rowid.

(* end to end (Model/E2E.v): SelectRowid from the bytes of the file alone is C04_select_rowid's operation on
   the schema record the file itself defines *)
From SQ Require Import Model.Tokenizer Model.Schema Model.E2E Proofs.E2EP.
Theorem C04_e2e_select_rowid : forall pg op n S cb table rowid columns (s : S) ms st fl,
  master pg op n = (fl, ms) -> (forall e, fl <> Fail e) -> db_schema ms table = Ok st ->
  e_select_rowid pg op n S cb table rowid columns s = h_select_rowid pg op n S cb (schema_of st) table rowid columns s.
Proof. exact e_select_rowid_is_h. Qed.
Print Assumptions C04_e2e_select_rowid.
