(* C04 - Rowid lookup finds a row iff it exists.  (first part: the from-key
   descent of table b-trees; the statement over Table.Rowid is in LowP) *)
From SQ Require Import Model.Base Model.Btree Spec.Flat Proofs.SearchP Proofs.BtreeP Proofs.BtreeMinP.

Theorem C04_descent : forall P openp S tcb rowid,
  (forall k pl s, fst (tcb k pl s) <> Continue) ->
  forall r pg l s,
  tflat P openp r pg = (l, None) -> mono (tpred P rowid) l -> sep_ok P openp rowid r pg ->
  titer_min P openp S tcb r pg rowid s = tmin_spec P S tcb rowid l s.
Proof. exact titer_min_spec. Qed.
Print Assumptions C04_descent.
