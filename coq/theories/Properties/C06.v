(* C06 - A read holds SQLite's SHARED lock from its first page read until it
   returns.  Property theorems only; proofs are in Proofs/.
   Model/Lock.v: the kernel's record-lock table for the three regions, sqlittle
   handles stepping through filePager.RLock / page reads / RUnlock / Close, and
   SQLite connections stepping through unixLock / unixUnlock, one system call
   per step, any number of actors, every interleaving. *)
From Coq Require Import List Arith ZArith.
From SQ Require Import Model.Lock Proofs.LockP Proofs.LockEx Proofs.ConstsP Gen.Consts.
Import ListNotations.
Close Scope Z_scope.

(* the invariant holds in every reachable state (each actor in its own process) *)
Theorem C06_invariant : forall n nh nw hpid wpid,
  (forall a b, a < nh -> b < nh -> hpid a = hpid b -> a = b) ->
  (forall a b, a < nw -> b < nw -> wpid a = wpid b -> a = b) ->
  (forall a b, a < nh -> b < nw -> hpid a <> wpid b) ->
  (forall a, a < nh -> hpid a < n) -> (forall a, a < nw -> wpid a < n) ->
  forall sched, Forall (step_ok nh nw) sched -> Inv n nh nw hpid wpid (run n hpid wpid sched).
Proof. exact inv_run. Qed.
Print Assumptions C06_invariant.

(* while a handle is between RLock and RUnlock - the only states in which it
   reads pages - no connection of another process is in EXCLUSIVE, the only
   state in which the database file is written: no commit can land *)
Theorem C06_no_writer_while_reading : forall n nh nw hpid wpid,
  (forall a b, a < nh -> b < nw -> hpid a <> wpid b) ->
  (forall a, a < nh -> hpid a < n) -> (forall a, a < nw -> wpid a < n) ->
  forall s h w, Inv n nh nw hpid wpid s -> h < nh -> w < nw -> hst s h = HLocked -> wst s w <> WExclusive.
Proof. exact locked_excludes_exclusive. Qed.
Print Assumptions C06_no_writer_while_reading.

(* what the process holds is determined by the handle's state: the shared
   range exactly while locked; nothing on the pending byte and the shared range
   after RUnlock, after a failed RLock, after Close *)
Theorem C06_holds_and_releases : forall n nh nw hpid wpid s h r,
  Inv n nh nw hpid wpid s -> h < nh -> tbl s (hpid h) r = hrow (hst s h) r.
Proof. exact handle_holds. Qed.
Print Assumptions C06_holds_and_releases.

(* the lock bytes in the source are SQLite's, pending before shared *)
Theorem C06_lock_bytes :
  go_sqlitePendingByte = 1073741824%Z /\ go_sqliteReservedByte = (go_sqlitePendingByte + 1)%Z /\
  go_sqliteSharedFirst = (go_sqlitePendingByte + 2)%Z /\ go_sqliteSharedSize = 510%Z.
Proof. exact lock_bytes_are_sqlites. Qed.
Print Assumptions C06_lock_bytes.

(* the one-actor-per-process hypothesis is necessary: two handles in one
   process (known finding) *)
Theorem C06_same_process_unlock_refuted :
  let s := run 2 hpid2 wpid2 (reader_locks ++ [HLock1 1; HLock2 1; HLock3 1; HUnlock 1] ++ writer_to_reserved ++ writer_commit ++ [HPage 0]) in
  hst s 0 = HLocked /\ wst s 0 = WExclusive /\ existsb is_write (evs s) = true.
Proof. exact same_process_unlock_refutes. Qed.
Print Assumptions C06_same_process_unlock_refuted.

Theorem C06_same_process_close_refuted :
  let s := run 2 hpid2 wpid2 (reader_locks ++ [HClose 1] ++ writer_to_reserved ++ writer_commit ++ [HPage 0]) in
  hst s 0 = HLocked /\ wst s 0 = WExclusive /\ existsb is_write (evs s) = true.
Proof. exact same_process_close_refutes. Qed.
Print Assumptions C06_same_process_close_refuted.
