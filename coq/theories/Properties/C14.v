(* C14 - Records, varints and spilled payloads decode exactly per the file
   format.  Property theorems only; proofs are in Proofs/. *)
From SQ Require Import Model.Base Model.Varint Model.Record Model.Payload Model.Btree Model.Page Spec.Encode
     Proofs.BaseP Proofs.VarintP Proofs.RecordP Proofs.PayloadP Proofs.PageP Gen.Arith Proofs.ArithP Gen.VarintStep Proofs.VarintStepP Gen.RecordSwitch Proofs.RecordSwitchP.

(* every unsigned 64-bit value, hence all nine varint lengths *)
Theorem C14_varint : forall v rest, 0 <= v < 2 ^ 64 ->
  read_varint (put_varint v ++ rest) = Some (to_i64 v, len (put_varint v)).
Proof. exact read_varint_put_varint. Qed.
Print Assumptions C14_varint.

(* rowids and serial types are int64 values stored as their unsigned pattern *)
Theorem C14_varint_signed : forall i rest, - 2 ^ 63 <= i < 2 ^ 63 ->
  read_varint (put_varint (to_u64 i) ++ rest) = Some (i, len (put_varint (to_u64 i))).
Proof. exact read_varint_signed. Qed.
Print Assumptions C14_varint_signed.

(* every record: any number of columns, every serial type incl. every integer
   width at every admissible value, all float patterns, text/blob of any
   length, any consistent header size *)
Theorem C14_record : forall hsize cols tail,
  Forall scol_ok cols -> hsize_ok hsize cols ->
  parse_record (enc_record hsize cols ++ tail) = Ok (map scol_value cols).
Proof. exact parse_record_enc_record. Qed.
Print Assumptions C14_record.

(* the local-payload size is the file format's X/M/K rule, for every payload
   length, every legal page size, table and index cells *)
Theorem C14_local_size : forall p u x, legal_u u -> legal_x u x -> 0 <= p ->
  cell_in_page_bytes p u x = s_local p u x.
Proof. exact cell_in_page_spec. Qed.
Print Assumptions C14_local_size.

Theorem C14_local_iff : forall p u x, legal_u u -> legal_x u x -> 0 <= p ->
  (cell_in_page_bytes p u x = p <-> p <= x).
Proof. exact local_all_iff. Qed.
Print Assumptions C14_local_iff.

Theorem C14_local_bounds : forall p u x, legal_u u -> legal_x u x -> x < p ->
  s_M u <= cell_in_page_bytes p u x <= x /\ cell_in_page_bytes p u x < p.
Proof. exact local_bounds. Qed.
Print Assumptions C14_local_bounds.

(* cells: inline and spilled *)
Theorem C14_cell_inline : forall l c u x,
  legal_u u -> legal_x u x -> 0 <= l <= x -> l <= len c ->
  parse_payload l c u x = Ok {| pl_len := l; pl_local := c; pl_ovf := 0 |}.
Proof. exact parse_payload_local. Qed.
Print Assumptions C14_cell_inline.

Theorem C14_cell_spilled : forall l loc ptr tail u x,
  legal_u u -> legal_x u x -> x < l ->
  len loc = cell_in_page_bytes l u x -> len ptr = 4 -> be ptr <> 0 ->
  parse_payload l (loc ++ ptr ++ tail) u x = Ok {| pl_len := l; pl_local := loc; pl_ovf := be ptr |}.
Proof. exact parse_payload_spill. Qed.
Print Assumptions C14_cell_spilled.

(* overflow chains of any length: the walk returns the first pl_len bytes of
   local part ++ the content of the chain's pages *)
Theorem C14_overflow_chain : forall pg npages pl c,
  linked pg c -> NoDup (map fst c) -> needed (pl_len pl) (pl_local pl) c ->
  pl_ovf pl = first_page c -> (length c <= S npages)%nat ->
  add_overflow pg npages pl = slice_to (pl_local pl ++ chain_content c) (pl_len pl).
Proof. exact add_overflow_chain. Qed.
Print Assumptions C14_overflow_chain.

(* the four cell formats (fileformat2.html 1.6), from their encodings *)
Theorem C14_table_leaf_cell : forall l rowid body u pl, 0 <= l < 2 ^ 63 -> - 2 ^ 63 <= rowid < 2 ^ 63 ->
  parse_payload l body u (table_max_local u) = Ok pl ->
  parse_table_leaf (put_varint l ++ put_varint (to_u64 rowid) ++ body) u = Ok (rowid, pl).
Proof. exact table_leaf_cell. Qed.
Print Assumptions C14_table_leaf_cell.

Theorem C14_table_interior_cell : forall child key tail, 0 <= child < 2 ^ 32 -> - 2 ^ 63 <= key < 2 ^ 63 ->
  parse_table_interior (be_enc 4 child ++ put_varint (to_u64 key) ++ tail) = Ok (child, key).
Proof. exact table_interior_cell. Qed.
Print Assumptions C14_table_interior_cell.

Theorem C14_index_leaf_cell : forall l body u pl, 0 <= l < 2 ^ 63 ->
  parse_payload l body u (index_max_local u) = Ok pl ->
  parse_index_leaf (put_varint l ++ body) u = Ok pl.
Proof. exact index_leaf_cell. Qed.
Print Assumptions C14_index_leaf_cell.

Theorem C14_index_interior_cell : forall child l body u pl, 0 <= child < 2 ^ 32 -> 0 <= l < 2 ^ 63 ->
  parse_payload l body u (index_max_local u) = Ok pl ->
  parse_index_interior (be_enc 4 child ++ put_varint l ++ body) u = Ok (child, pl).
Proof. exact index_interior_cell. Qed.
Print Assumptions C14_index_interior_cell.

(* the cell pointer array: K two-byte big-endian offsets *)
Theorem C14_cell_pointers : forall starts rest maxlen, Forall (fun s => 0 <= s < 65536 /\ s <= maxlen) starts ->
  parse_cellpointers (Z.of_nat (length starts)) (enc_ptrs starts ++ rest) maxlen = Ok starts.
Proof. exact parse_cellpointers_enc. Qed.
Print Assumptions C14_cell_pointers.

(* a table leaf page laid out as the format says - type byte 13, cell count at bytes 3..4, the
   pointer array from byte 8, each cell at its offset - decodes to exactly those cells, in
   pointer-array order *)
Theorem C14_table_leaf_page : forall hdr starts rest cells u,
  len hdr = 8 -> index hdr 0 = Ok 13 -> slice hdr 3 5 = Ok (be_enc 2 (Z.of_nat (length starts))) ->
  Z.of_nat (length starts) < 65536 ->
  let b := hdr ++ enc_ptrs starts ++ rest in
  Forall (fun s => 0 <= s < 65536 /\ s <= len b) starts ->
  Forall2 (fun s c => 0 <= s <= len b /\ parse_table_leaf (drop s b) u = Ok c) starts cells ->
  parse_page b false u = Ok (TLeaf cells).
Proof. exact table_leaf_page. Qed.
Print Assumptions C14_table_leaf_page.

(* ... and so do the other three page kinds, and page 1 (sqlite_master's root), whose b-tree header
   follows the 100-byte file header while its cell offsets count from the start of the page *)
Theorem C14_index_leaf_page : forall hdr starts rest cells u,
  len hdr = 8 -> index hdr 0 = Ok 10 -> slice hdr 3 5 = Ok (be_enc 2 (Z.of_nat (length starts))) ->
  Z.of_nat (length starts) < 65536 ->
  let b := hdr ++ enc_ptrs starts ++ rest in
  Forall (fun s => 0 <= s < 65536 /\ s <= len b) starts ->
  Forall2 (fun s c => 0 <= s <= len b /\ parse_index_leaf (drop s b) u = Ok c) starts cells ->
  parse_page b false u = Ok (ILeaf cells).
Proof. exact index_leaf_page. Qed.
Print Assumptions C14_index_leaf_page.

Theorem C14_table_interior_page : forall hdr starts rest cells rm,
  len hdr = 12 -> index hdr 0 = Ok 5 -> slice hdr 3 5 = Ok (be_enc 2 (Z.of_nat (length starts))) ->
  slice hdr 8 12 = Ok (be_enc 4 rm) -> 0 <= rm < 2 ^ 32 ->
  Z.of_nat (length starts) < 65536 ->
  let b := hdr ++ enc_ptrs starts ++ rest in
  Forall (fun s => 0 <= s < 65536 /\ s <= len b) starts ->
  Forall2 (fun s c => 0 <= s <= len b /\ parse_table_interior (drop s b) = Ok c) starts cells ->
  forall u, parse_page b false u = Ok (TInterior cells rm).
Proof. exact table_interior_page. Qed.
Print Assumptions C14_table_interior_page.

Theorem C14_index_interior_page : forall hdr starts rest cells rm u,
  len hdr = 12 -> index hdr 0 = Ok 2 -> slice hdr 3 5 = Ok (be_enc 2 (Z.of_nat (length starts))) ->
  slice hdr 8 12 = Ok (be_enc 4 rm) -> 0 <= rm < 2 ^ 32 ->
  Z.of_nat (length starts) < 65536 ->
  let b := hdr ++ enc_ptrs starts ++ rest in
  Forall (fun s => 0 <= s < 65536 /\ s <= len b) starts ->
  Forall2 (fun s c => 0 <= s <= len b /\ parse_index_interior (drop s b) u = Ok c) starts cells ->
  parse_page b false u = Ok (IInterior cells rm).
Proof. exact index_interior_page. Qed.
Print Assumptions C14_index_interior_page.

Theorem C14_first_page_table_leaf : forall fh hdr starts rest cells u,
  len fh = 100 -> len hdr = 8 -> index hdr 0 = Ok 13 -> slice hdr 3 5 = Ok (be_enc 2 (Z.of_nat (length starts))) ->
  Z.of_nat (length starts) < 65536 ->
  let b := fh ++ hdr ++ enc_ptrs starts ++ rest in
  Forall (fun s => 0 <= s < 65536 /\ s <= len b) starts ->
  Forall2 (fun s c => 0 <= s <= len b /\ parse_table_leaf (drop s b) u = Ok c) starts cells ->
  parse_page b true u = Ok (TLeaf cells).
Proof. exact first_page_table_leaf. Qed.
Print Assumptions C14_first_page_table_leaf.

Theorem C14_first_page_table_interior : forall fh hdr starts rest cells rm,
  len fh = 100 -> len hdr = 12 -> index hdr 0 = Ok 5 -> slice hdr 3 5 = Ok (be_enc 2 (Z.of_nat (length starts))) ->
  slice hdr 8 12 = Ok (be_enc 4 rm) -> 0 <= rm < 2 ^ 32 ->
  Z.of_nat (length starts) < 65536 ->
  let b := fh ++ hdr ++ enc_ptrs starts ++ rest in
  Forall (fun s => 0 <= s < 65536 /\ s <= len b) starts ->
  Forall2 (fun s c => 0 <= s <= len b /\ parse_table_interior (drop s b) = Ok c) starts cells ->
  forall u, parse_page b true u = Ok (TInterior cells rm).
Proof. exact first_page_table_interior. Qed.
Print Assumptions C14_first_page_table_interior.

(* the model's local-payload arithmetic IS the source's: Gen/Arith.v is translated from
   db/btree.go on every build (calculateCellInPageBytes and the threshold arguments of the three
   payload-carrying cell parsers, with Go's truncated / and %); for every page size from 12 up,
   every payload length and every threshold it computes what Model/Payload.v computes *)
Theorem C14_source_arithmetic : forall l u x, 12 <= u ->
  go_calculateCellInPageBytes l u x = cell_in_page_bytes l u x /\
  go_max_local_parseTableLeaf u = table_max_local u /\
  go_max_local_parseIndexLeaf u = index_max_local u /\ go_max_local_parseIndexInterior u = index_max_local u.
Proof.
  intros l u x Hu. split; [exact (go_cell_in_page_bytes l u x Hu)|]. split; [exact (go_table_max_local u)|]. exact (go_index_max_local u Hu).
Qed.
Print Assumptions C14_source_arithmetic.

(* likewise db/bits.go's readTwos24 and readTwos48 (the 3 and 6 byte integer serial types), translated
   with their shifts, ors and the sign test by mask: on every byte string they are the model's readers *)
Theorem C14_source_twos : forall b0 b1 b2 b3 b4 b5,
  go_readTwos24 (b2z b0) (b2z b1) (b2z b2) = read_twos24 [b0; b1; b2] /\
  go_readTwos48 (b2z b0) (b2z b1) (b2z b2) (b2z b3) (b2z b4) (b2z b5) = read_twos48 [b0; b1; b2; b3; b4; b5].
Proof. exact (fun b0 b1 b2 b3 b4 b5 => conj (go_readTwos24_spec b0 b1 b2) (go_readTwos48_spec b0 b1 b2 b3 b4 b5)). Qed.
Print Assumptions C14_source_twos.

(* non-vacuity: concrete objects meeting the hypotheses *)
Example C14_record_example :
  parse_record (enc_record 7 [SNull; SInt 3 (-8388608); SInt 6 140737488355327; SReal 4607182418800017408; SText [x61; x62]; SOne])
  = Ok [VNull; VInt (-8388608); VInt 140737488355327; VReal 4607182418800017408; VText [x61; x62]; VInt 1].
Proof. vm_compute. reflexivity. Qed.

Example C14_varint_example :
  map (fun v => read_varint (put_varint v)) [0; 127; 128; 2 ^ 56 - 1; 2 ^ 56; 2 ^ 64 - 1]
  = [Some (0, 1); Some (127, 1); Some (128, 2); Some (2 ^ 56 - 1, 8); Some (2 ^ 56, 9); Some (-1, 9)].
Proof. vm_compute. reflexivity. Qed.

(* readVarint IS the model's read_varint: Gen/VarintStep.v is one iteration of the source's loop, translated statement by
   statement on every build (Go's wrapping uint64 arithmetic, <<, | and &, the bounds test before b[i], the special ninth
   byte); iterated the way `for i := 0; ; i++` iterates it, it ends within nine iterations on every byte string - the
   source's loop has no bound of its own - and returns the model's answer, (0, -1) where the model says None *)
Theorem C14_source_varint : forall bs fuel, (9 <= fuel)%nat ->
  go_rv fuel 0 0 bs = Some (go_varint_result (read_varint bs)).
Proof. exact go_readVarint_spec. Qed.
Print Assumptions C14_source_varint.

(* parseRecord's `switch c` IS the model's parse_value: Gen/RecordSwitch.v lists, for every case of the source's switch, its
   serial types, the body bytes it requires, the bytes it consumes and its value expression, and the two length expressions of
   the default case (translated from db/record.go on every build); read as a switch it decodes every serial type c - negative
   ones and the reserved 10 / 11 included - from every body exactly as the model does *)
Theorem C14_source_record_switch : forall c body, parse_value c body = go_parse_value c body.
Proof. exact go_parse_value_spec. Qed.
Print Assumptions C14_source_record_switch.
