(* C01 - Table scan returns exactly the table's rows, values and order.
   Property theorems only; proofs are in Proofs/. *)
From SQ Require Import Model.Base Model.Record Model.Btree Model.Low
     Spec.Flat Spec.Deliver Proofs.BtreeP Proofs.LowP Proofs.ScanP.

(* the table traversal, generic in the tree: every tree shape and depth the
   code accepts, every callback *)
Theorem C01_iter_flat : forall P openp S tcb r pg s,
  titer P openp S tcb r pg s = run_flat (fun x s => tcb (fst x) (snd x) s) (tflat P openp r pg) s.
Proof. exact titer_flat. Qed.
Print Assumptions C01_iter_flat.

(* Table.Scan delivers the decoded rows of the tree, in tree order, each once *)
Theorem C01_scan_rows : forall pg op npages S root (cb : Z -> record -> S -> flow * S) s,
  table_scan pg op npages S root cb s = run_flat (fun x s => cb (fst x) (snd x) s) (table_rows pg op npages root) s.
Proof. exact table_scan_rows. Qed.
Print Assumptions C01_scan_rows.

Theorem C01_scan_all : forall pg op npages root l,
  table_rows pg op npages root = (l, None) ->
  table_scan pg op npages _ root (tcollect None) [] = (Continue, rev l).
Proof. exact table_scan_all. Qed.
Print Assumptions C01_scan_all.
