(* C01 - Table scan returns exactly the table's rows, values and order.
   Property theorems only; proofs are in Proofs/. *)
From SQ Require Import Model.Base Model.Record Model.Btree Model.Low Model.High
     Spec.Flat Spec.Deliver Proofs.BtreeP Proofs.LowP Proofs.ScanP Proofs.HighP.

(* the table traversal, generic in the tree: every tree shape and depth the
   code accepts, every callback *)
Theorem C01_iter_flat : forall P openp S tcb r pg s,
  titer P openp S tcb r pg s = run_flat (fun x s => tcb (fst x) (snd x) s) (tflat P openp r pg) s.
Proof. exact titer_flat. Qed.
Print Assumptions C01_iter_flat.

(* Table.Scan delivers the decoded rows of the tree, in tree order, each once *)
Theorem C01_scan_rows : forall pg op npages S root (cb : Z -> record -> S -> flow * S) s,
  table_scan pg op npages S root cb s = run_flat (fun x s => cb (fst x) (snd x) s) (table_rows pg op npages root) s.
Proof. exact table_scan_rows. Qed.
Print Assumptions C01_scan_rows.

Theorem C01_scan_all : forall pg op npages root l,
  table_rows pg op npages root = (l, None) ->
  table_scan pg op npages _ root (tcollect None) [] = (Continue, rev l).
Proof. exact table_scan_all. Qed.
Print Assumptions C01_scan_all.

(* the high level Select (select.go, sqlite.go: Model/High.v): once sqlite_master is read and the
   column list resolved, it delivers the row mapping of every stored row of the table's tree, in
   tree order, each once - rowid tables from the table tree, WITHOUT ROWID tables from the
   primary key index tree *)
Theorem C01_select : forall pg op npages S cb sc ms table columns, master pg op npages = (Continue, ms) ->
  forall ci root s, s_worowid sc = false -> to_ci_rowid sc columns = Ok ci -> find_root ms name_table table = Ok root ->
  h_select pg op npages S cb sc table columns s
  = run_flat (fun x s => cb (to_row (fst x) ci (snd x)) s) (table_rows pg op npages root) s.
Proof. exact select_rowid_table. Qed.
Print Assumptions C01_select.

Theorem C01_select_without_rowid : forall pg op npages S cb sc ms table columns, master pg op npages = (Continue, ms) ->
  forall ci root s, s_worowid sc = true -> to_ci_nonrowid sc columns = Ok ci -> find_root ms name_table table = Ok root ->
  h_select pg op npages S cb sc table columns s
  = run_flat (fun r s => cb (to_row 0 ci r) s) (index_rows pg op npages root) s.
Proof. exact select_norowid_table. Qed.
Print Assumptions C01_select_without_rowid.

Theorem C01_select_all : forall pg op npages sc ms table columns ci root l,
  master pg op npages = (Continue, ms) -> s_worowid sc = false ->
  to_ci_rowid sc columns = Ok ci -> find_root ms name_table table = Ok root ->
  table_rows pg op npages root = (l, None) ->
  h_select pg op npages _ (collect_hrow None) sc table columns [] = (Continue, rev (map (fun x => to_row (fst x) ci (snd x)) l)).
Proof. exact select_collects. Qed.
Print Assumptions C01_select_all.

(* the row mapping, column by column: the rowid for a rowid (alias) column; otherwise the stored
   value at the column's position, or the column's DEFAULT when the stored record is shorter
   (the row was written before the column was added) *)
Theorem C01_row_mapping : forall rowid cis r i,
  nth_error (to_row rowid cis r) i =
  match nth_error cis i with
  | Some CRowid => Some (VInt rowid)
  | Some (CCol pos dflt) => Some (if Z.of_nat (length r) <=? pos then dflt else nth (Z.to_nat pos) r VNull)
  | None => None
  end.
Proof. exact to_row_nth. Qed.
Print Assumptions C01_row_mapping.

(* ---------- end to end (Model/E2E.v): the schema is the one the file itself defines ---------- *)
From SQ Require Import Model.Tokenizer Model.Schema Model.E2E Proofs.E2EP.

(* Select from the bytes of the file alone is Model/High.v's Select on the schema record computed from
   sqlite_master's text (tokenizer -> translated parser -> newSchema): C01_select / C01_select_all /
   C01_row_mapping, stated for every schema record, therefore speak about it *)
Theorem C01_e2e_select : forall pg op n S cb table columns (s : S) ms st fl,
  master pg op n = (fl, ms) -> (forall e, fl <> Fail e) -> db_schema ms table = Ok st ->
  e_select pg op n S cb table columns s = h_select pg op n S cb (schema_of st) table columns s.
Proof. exact e_select_is_h_select. Qed.
Print Assumptions C01_e2e_select.

(* "A definition sqlittle cannot interpret produces an error, never rows" *)
Theorem C01_e2e_uninterpretable : forall pg op n S cb table columns (s : S) ms fl e,
  master pg op n = (fl, ms) -> db_schema ms table = Err e ->
  exists e', e_select pg op n S cb table columns s = (Fail e', s).
Proof. exact e_select_uninterpretable. Qed.
Print Assumptions C01_e2e_uninterpretable.
