(* Encoders of the SQLite file format, written from the format description
   (fileformat2.html): the objects the decoding theorems quantify over. *)
From SQ Require Import Model.Base Model.Record.

(* k continuation bytes: the k low 7-bit groups of w, most significant first,
   each with the high bit set *)
Fixpoint groups (k : nat) (w : Z) : list byte :=
  match k with
  | O => []
  | S k' => z2b (128 + (w / 128 ^ Z.of_nat k') mod 128) :: groups k' w
  end.

(* number of bytes of the varint of an unsigned 64-bit value *)
Definition varint_len (v : Z) : nat :=
  if v <? 2 ^ 7 then 1 else if v <? 2 ^ 14 then 2 else if v <? 2 ^ 21 then 3
  else if v <? 2 ^ 28 then 4 else if v <? 2 ^ 35 then 5 else if v <? 2 ^ 42 then 6
  else if v <? 2 ^ 49 then 7 else if v <? 2 ^ 56 then 8 else 9%nat.

(* sqlite3PutVarint *)
Definition put_varint (v : Z) : list byte :=
  match varint_len v with
  | 9%nat => groups 8 (v / 256) ++ [z2b (v mod 256)]
  | n => groups (n - 1) (v / 128) ++ [z2b (v mod 128)]
  end.

(* n-byte big-endian encoding of 0 <= u < 256^n *)
Fixpoint be_enc (n : nat) (u : Z) : list byte :=
  match n with
  | O => []
  | S k => z2b (u / 256 ^ Z.of_nat k) :: be_enc k (u mod 256 ^ Z.of_nat k)
  end.

(* two's complement n-byte encoding of a signed integer *)
Definition twos_enc (n : nat) (z : Z) : list byte := be_enc n (z mod 256 ^ Z.of_nat n).

(* A stored column: the serial type chosen by the writer and the value.  SQLite
   may choose any integer width that can hold the value; types 8/9 for 0/1. *)
Inductive scol :=
| SNull
| SInt (width : nat) (z : Z)     (* width in {1,2,3,4,6,8} bytes *)
| SReal (bits : Z)
| SZero | SOne
| SText (s : list byte)
| SBlob (s : list byte).

Definition scol_ok (c : scol) : Prop :=
  match c with
  | SInt w z => In w [1; 2; 3; 4; 6; 8]%nat /\ - 2 ^ (8 * Z.of_nat w - 1) <= z < 2 ^ (8 * Z.of_nat w - 1)
  | SReal b => 0 <= b < 2 ^ 64
  | SText s | SBlob s => 13 + 2 * len s < 2 ^ 63
  | _ => True
  end.

Definition serial_type (c : scol) : Z :=
  match c with
  | SNull => 0
  | SInt 1 _ => 1 | SInt 2 _ => 2 | SInt 3 _ => 3 | SInt 4 _ => 4 | SInt 6 _ => 5 | SInt _ _ => 6
  | SReal _ => 7 | SZero => 8 | SOne => 9
  | SBlob s => 12 + 2 * len s
  | SText s => 13 + 2 * len s
  end.

Definition scol_body (c : scol) : list byte :=
  match c with
  | SInt w z => twos_enc w z
  | SReal b => be_enc 8 b
  | SText s | SBlob s => s
  | _ => []
  end.

Definition scol_value (c : scol) : value :=
  match c with
  | SNull => VNull
  | SInt _ z => VInt z
  | SReal b => VReal b
  | SZero => VInt 0 | SOne => VInt 1
  | SText s => VText s
  | SBlob s => VBlob s
  end.

(* a record: header-size varint, serial types, bodies.  [hsize] is the header
   length including its own varint; the encoder is given it (any consistent
   choice, including non-minimal varints, is a legal record as far as the
   decoder is concerned; SQLite writes the minimal one). *)
Definition enc_types (cols : list scol) : list byte := flat_map (fun c => put_varint (serial_type c)) cols.
Definition enc_bodies (cols : list scol) : list byte := flat_map scol_body cols.
Definition enc_record (hsize : Z) (cols : list scol) : list byte :=
  put_varint hsize ++ enc_types cols ++ enc_bodies cols.
Definition hsize_ok (hsize : Z) (cols : list scol) : Prop :=
  0 <= hsize < 2 ^ 63 /\ hsize = len (put_varint hsize) + len (enc_types cols).
