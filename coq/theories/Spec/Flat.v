(* Specification side of the b-tree traversals: the naive in-order flattening
   of a tree into the list of rows it holds, together with the first error
   met on the way (if any), and "deliver a list to a callback". *)
From SQ Require Import Model.Base Model.Btree.

Section Flat.
  Variable P : Type.
  Variable R : Type.
  Variable openp : Z -> res (gpage P).
  Variable load : P -> res R.

  Notation open_table := (open_table P openp).
  Notation open_index := (open_index P openp).

  (* rows delivered, then the error that ends the traversal (None: complete) *)
  Definition flat (A : Type) := (list A * option err)%type.

  Definition flat_app {A} (a : flat A) (b : unit -> flat A) : flat A :=
    match a with
    | (l, Some e) => (l, Some e)
    | (l, None) => let '(l2, oe) := b tt in (l ++ l2, oe)
    end.

  (* ---- table trees: rows are (rowid, payload) ---- *)
  Fixpoint tflat_cells (sub : Z -> flat (Z * P)) (cells : list (Z * Z)) (rgt : Z) : flat (Z * P) :=
    match cells with
    | [] => sub rgt
    | (lft, _) :: rest => flat_app (sub lft) (fun _ => tflat_cells sub rest rgt)
    end.

  Definition tsub (f : gpage P -> flat (Z * P)) (p : Z) : flat (Z * P) :=
    match open_table p with Ok page => f page | Err e => ([], Some e) end.

  Fixpoint tflat (r : nat) (pg : gpage P) {struct r} : flat (Z * P) :=
    match pg with
    | GTLeaf cells => (cells, None)
    | GTInterior cells rgt =>
      match r with
      | O => ([], Some ERecursion)
      | S r' => tflat_cells (tsub (tflat r')) cells rgt
      end
    | _ => ([], Some EKind)
    end.

  (* ---- index trees: rows are decoded records ---- *)
  Fixpoint load_all (cells : list P) : flat R :=
    match cells with
    | [] => ([], None)
    | pl :: rest =>
      match load pl with
      | Err e => ([], Some e)
      | Ok rec => let '(l, oe) := load_all rest in (rec :: l, oe)
      end
    end.

  Fixpoint iflat_cells (sub : Z -> flat R) (cells : list (Z * P)) (rgt : Z) : flat R :=
    match cells with
    | [] => sub rgt
    | (lft, pl) :: rest =>
      flat_app (sub lft)
               (fun _ => match load pl with
                         | Err e => ([], Some e)
                         | Ok rec => let '(l, oe) := iflat_cells sub rest rgt in (rec :: l, oe)
                         end)
    end.

  Definition isub (f : gpage P -> flat R) (p : Z) : flat R :=
    match open_index p with Ok page => f page | Err e => ([], Some e) end.

  Fixpoint iflat (r : nat) (pg : gpage P) {struct r} : flat R :=
    match pg with
    | GILeaf cells => load_all cells
    | GIInterior cells rgt =>
      match r with
      | O => ([], Some ERecursion)
      | S r' => iflat_cells (isub (iflat r')) cells rgt
      end
    | _ => ([], Some EKind)
    end.

  (* ---- delivering a list to a callback ---- *)
  Section Deliver.
    Variable S : Type.
    Variable A : Type.
    Variable cb : A -> S -> flow * S.

    Fixpoint run_cb (l : list A) (s : S) : flow * S :=
      match l with
      | [] => (Continue, s)
      | x :: rest => andthen S (cb x s) (run_cb rest)
      end.

    Definition run_flat (f : flat A) (s : S) : flow * S :=
      andthen S (run_cb (fst f) s)
              (fun s' => match snd f with None => (Continue, s') | Some e => (Fail e, s') end).
  End Deliver.
End Flat.

Arguments run_cb {S A}. Arguments run_flat {S A}.
Arguments flat_app {A}.
