(* Specification vocabulary for "what a traversal delivers to the caller's
   callback": the explicit list of callback invocations, prefixes, early
   stop, and the until/while wrappers used by the range and equality scans. *)
From SQ Require Import Model.Base Model.Btree Spec.Flat.

Section Deliver.
  Variable S : Type.
  Variable A : Type.

  (* what the caller can observe of a finished call: the error (if any) and
     the callback state.  Whether the traversal ended because the callback
     said "done" or because it ran out of rows is not observable in Go (Scan
     returns only an error). *)
  Definition outcome (x : flow * S) : option err * S :=
    (match fst x with Fail e => Some e | _ => None end, snd x).

  (* the callback invocations made by [run_cb cb l s], in order, with the
     final flow and state *)
  Fixpoint deliver (cb : A -> S -> flow * S) (l : list A) (s : S) : list A * (flow * S) :=
    match l with
    | [] => ([], (Continue, s))
    | x :: rest =>
      match cb x s with
      | (Continue, s') => let '(d, fs) := deliver cb rest s' in (x :: d, fs)
      | other => ([x], other)
      end
    end.

  (* the callback that records every row it is given and asks to stop after
     the k-th (k >= 1); k = None never stops *)
  Definition stop_after (k : option nat) (x : A) (s : list A) : flow * list A :=
    let s' := x :: s in
    match k with
    | Some n => if Nat.leb n (length s') then (Stop, s') else (Continue, s')
    | None => (Continue, s')
    end.

  (* wrappers of Index.ScanRange / Index.ScanEq *)
  Definition until (p : A -> bool) (cb : A -> S -> flow * S) (x : A) (s : S) : flow * S :=
    if p x then (Stop, s) else cb x s.

  Fixpoint take_while (p : A -> bool) (l : list A) : list A :=
    match l with
    | [] => []
    | x :: r => if p x then x :: take_while p r else []
    end.
End Deliver.

Arguments outcome {S}. Arguments deliver {S A}. Arguments stop_after {A}.
Arguments until {S A}. Arguments take_while {A}.
