(* SQLite's comparison rules (datatype3.html section 4), written independently
   of db/cmp.go: a denotation of every storable value into a totally ordered
   domain.  NULL < numbers < text < blobs; numbers by exact value (integers and
   finite doubles are dyadic rationals m * 2^e, plus the two infinities); text
   by the collating sequence; blobs bytewise. *)
From SQ Require Import Model.Base Model.Record Model.Float Model.Cmp.

Inductive num := NNegInf | NFin (m e : Z) | NPosInf.

(* None: NaN, which SQLite never stores (it stores NULL instead) *)
Definition num_of (v : value) : option num :=
  match v with
  | VInt z => Some (NFin z 0)
  | VReal b => if is_nan b then None
               else if is_inf b then Some (if fsign b then NNegInf else NPosInf)
               else Some (NFin (fst (fval b)) (snd (fval b)))
  | _ => None
  end.

Definition num_cmp (x y : num) : comparison :=
  match x, y with
  | NNegInf, NNegInf => Eq
  | NNegInf, _ => Lt
  | NPosInf, NPosInf => Eq
  | NPosInf, _ => Gt
  | NFin _ _, NNegInf => Gt
  | NFin _ _, NPosInf => Lt
  | NFin m1 e1, NFin m2 e2 => dy_cmp (m1, e1) (m2, e2)
  end.

Definition vclass (v : value) : Z :=
  match v with VNull => 0 | VInt _ | VReal _ => 1 | VText _ => 2 | VBlob _ => 3 end.

Definition storable (v : value) : Prop :=
  match v with
  | VInt z => - 2 ^ 63 <= z < 2 ^ 63
  | VReal b => 0 <= b < 2 ^ 64 /\ is_nan b = false
  | _ => True
  end.

(* SQLite's order *)
Definition s_cmp (c : collation) (a b : value) : comparison :=
  match Z.compare (vclass a) (vclass b) with
  | Eq =>
    match a, b with
    | VText x, VText y => collate_cmp c x y
    | VBlob x, VBlob y => bytes_cmp x y
    | (VInt _ | VReal _), (VInt _ | VReal _) =>
      match num_of a, num_of b with
      | Some x, Some y => num_cmp x y
      | _, _ => Eq            (* NaN: not storable *)
      end
    | _, _ => Eq
    end
  | o => o
  end.

(* a key against an index entry, column by column in index order:
   Lt the entry sorts before the key, Eq equal on the key's columns,
   Gt the entry sorts after the key.  An entry that runs out of columns first
   sorts before the key. *)
Fixpoint kcmp (k : key) (r : record) : comparison :=
  match k with
  | [] => Eq
  | kc :: k' =>
    match r with
    | [] => Lt
    | v :: r' =>
      match (if kdesc kc then CompOpp (s_cmp (kcoll kc) v (kv kc)) else s_cmp (kcoll kc) v (kv kc)) with
      | Eq => kcmp k' r'
      | o => o
      end
    end
  end.
