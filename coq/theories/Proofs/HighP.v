(* The high level selects in terms of the tree's rows: Select delivers the
   row mapping of every stored row, in tree order, each once (C01); the
   indexed select delivers, per index entry in index order, the mapped table
   row that the entry's rowid names (C02). *)
From SQ Require Import Model.Base Model.Varint Model.Record Model.Payload Model.Btree
     Model.Page Model.Cmp Model.Low Model.High Spec.Flat Spec.Deliver
     Proofs.BtreeP Proofs.DeliverP Proofs.LowP.

(* toRow, column by column *)
Lemma to_row_length rowid cis r : length (to_row rowid cis r) = length cis.
Proof. unfold to_row. apply map_length. Qed.

Lemma to_row_nth rowid cis r i :
  nth_error (to_row rowid cis r) i =
  match nth_error cis i with
  | Some CRowid => Some (VInt rowid)
  | Some (CCol pos dflt) => Some (if Z.of_nat (length r) <=? pos then dflt else nth (Z.to_nat pos) r VNull)
  | None => None
  end.
Proof. unfold to_row. rewrite nth_error_map. destruct (nth_error cis i) as [[|pos d]|]; reflexivity. Qed.

Section HighP.
  Variable pg : Z -> res (list byte).
  Variable op : Z -> res page.
  Variable npages : nat.
  Variable S : Type.
  Variable cb : row -> S -> flow * S.
  Variables (sc : schema) (ms : list master_row) (table : list byte) (columns : list (list byte)).
  Hypothesis Hmaster : master pg op npages = (Continue, ms).

  (* Select on a rowid table *)
  Theorem select_rowid_table ci root s : s_worowid sc = false ->
    to_ci_rowid sc columns = Ok ci -> find_root ms name_table table = Ok root ->
    h_select pg op npages S cb sc table columns s
    = run_flat (fun x s => cb (to_row (fst x) ci (snd x)) s) (table_rows pg op npages root) s.
  Proof.
    intros Hw Hci Hr. unfold h_select, with_master. rewrite Hmaster, Hw, Hci. cbn [failing]. rewrite Hr. cbn [failing].
    apply table_scan_rows.
  Qed.

  (* Select on a WITHOUT ROWID table: the rows of the primary key index tree *)
  Theorem select_norowid_table ci root s : s_worowid sc = true ->
    to_ci_nonrowid sc columns = Ok ci -> find_root ms name_table table = Ok root ->
    h_select pg op npages S cb sc table columns s
    = run_flat (fun r s => cb (to_row 0 ci r) s) (index_rows pg op npages root) s.
  Proof.
    intros Hw Hci Hr. unfold h_select, with_master. rewrite Hmaster, Hw, Hci. cbn [failing]. rewrite Hr. cbn [failing].
    apply index_scan_rows.
  Qed.

  (* IndexedSelect on a rowid table: per index entry, in index order, the table row its rowid names *)
  Theorem indexed_select_rowid_table iname ind ci troot iroot s : s_worowid sc = false ->
    find_index sc iname = Some ind -> to_ci_rowid sc columns = Ok ci ->
    find_root ms name_table table = Ok troot -> find_root ms name_index (si_name ind) = Ok iroot ->
    h_indexed_select pg op npages S cb sc table iname columns s
    = run_flat (via_rowid pg op npages S cb ci troot) (index_rows pg op npages iroot) s.
  Proof.
    intros Hw Hi Hci Ht Hr. unfold h_indexed_select, with_master. rewrite Hmaster, Hi, Hw, Hci. cbn [failing].
    rewrite Ht. cbn [failing]. rewrite Hr. cbn [failing]. apply index_scan_rows.
  Qed.

  (* IndexedSelect on a WITHOUT ROWID table: per index entry, in index order, the row of the
     primary key tree found with the key taken from the entry's primary key columns *)
  Theorem indexed_select_norowid_table iname ind ci troot iroot pk s : s_worowid sc = true ->
    find_index sc iname = Some ind -> to_ci_nonrowid sc columns = Ok ci ->
    find_root ms name_table table = Ok troot -> find_root ms name_index (si_name ind) = Ok iroot ->
    as_dbkey (null_key (length (s_pk sc))) (s_pk sc) = Ok pk ->
    h_indexed_select pg op npages S cb sc table iname columns s
    = run_flat (via_pk pg op npages S cb ci troot (pk_columns (s_pk sc) (si_cols ind)) pk) (index_rows pg op npages iroot) s.
  Proof.
    intros Hw Hi Hci Ht Hr Hk. unfold h_indexed_select, with_master. rewrite Hmaster, Hi, Hw, Hci. cbn [failing].
    rewrite Ht. cbn [failing]. rewrite Hr. cbn [failing]. rewrite Hk. cbn [failing]. apply index_scan_rows.
  Qed.
End HighP.

(* setKey replaces the values of the lookup key and nothing else: the per-entry key keeps the
   collation and direction asDbKey put on it from the primary key's columns, and its values are
   the entry's columns at the primary key's positions *)
Theorem set_key_flags r : forall idx k k', length idx = length k -> set_key r idx k = Ok k' ->
  map kcoll k' = map kcoll k /\ map kdesc k' = map kdesc k /\
  map kv k' = map (fun v => nth (Z.to_nat v) r VNull) idx /\ Forall (fun v => v < Z.of_nat (length r)) idx.
Proof.
  induction idx as [|v idx IH]; intros k k' Hl H.
  - destruct k; [|discriminate]. cbn [set_key] in H. inversion H; subst. repeat split; constructor.
  - destruct k as [|kc k]; [discriminate|]. cbn [set_key] in H.
    destruct (Z.of_nat (length r) <=? v) eqn:Hv; [discriminate|].
    destruct (set_key r idx k) as [rest|e] eqn:Er; cbn [bind] in H; [|discriminate]. inversion H; subst.
    cbn [length] in Hl. destruct (IH k rest (eq_add_S _ _ Hl) Er) as (A & B & C & D).
    cbn [map kcoll kdesc kv]. rewrite A, B, C. repeat split. constructor; [|exact D]. apply Z.leb_gt. exact Hv.
Qed.

(* with the collecting callback: exactly the mapped rows, in order, each once *)
Theorem select_collects pg op npages sc ms table columns ci root l :
  master pg op npages = (Continue, ms) -> s_worowid sc = false ->
  to_ci_rowid sc columns = Ok ci -> find_root ms name_table table = Ok root ->
  table_rows pg op npages root = (l, None) ->
  h_select pg op npages _ (collect_hrow None) sc table columns [] = (Continue, rev (map (fun x => to_row (fst x) ci (snd x)) l)).
Proof.
  intros Hm Hw Hci Hr Hl. rewrite (select_rowid_table pg op npages _ _ sc ms table columns Hm ci root [] Hw Hci Hr).
  rewrite Hl. unfold run_flat. cbn [fst snd].
  assert (G : forall (l0 : list (Z * record)) s, run_cb (fun x s => collect_hrow None (to_row (fst x) ci (snd x)) s) l0 s
                         = (Continue, rev (map (fun x => to_row (fst x) ci (snd x)) l0) ++ s)).
  { induction l0 as [|x l0 IH]; intros s; cbn [run_cb map rev]; [reflexivity|].
    unfold collect_hrow at 1. cbn [andthen]. rewrite IH. rewrite <- app_assoc. reflexivity. }
  rewrite G. cbn [andthen]. rewrite app_nil_r. reflexivity.
Qed.

(* SelectDone's early stop at the high level: the first k mapped rows, exactly, then "stopped" -
   whatever follows them in the tree, a damaged page included, is not visited *)
Lemma run_cb_map {S A B} (f : A -> B) (cb : B -> S -> flow * S) l : forall s,
  run_cb (fun x s => cb (f x) s) l s = run_cb cb (map f l) s.
Proof.
  induction l as [|x l IH]; intros s; cbn [run_cb map]; [reflexivity|].
  destruct (cb (f x) s) as [[| |e] s']; cbn [andthen]; auto.
Qed.

Theorem select_stops pg op npages sc ms table columns ci root l oe k :
  master pg op npages = (Continue, ms) -> s_worowid sc = false ->
  to_ci_rowid sc columns = Ok ci -> find_root ms name_table table = Ok root ->
  table_rows pg op npages root = (l, oe) -> (1 <= k <= length l)%nat ->
  h_select pg op npages _ (stop_after (Some k)) sc table columns []
  = (Stop, rev (firstn k (map (fun x => to_row (fst x) ci (snd x)) l))).
Proof.
  intros Hm Hw Hci Hr Hl Hk. rewrite (select_rowid_table pg op npages _ _ sc ms table columns Hm ci root [] Hw Hci Hr).
  rewrite Hl. unfold run_flat. cbn [fst snd].
  rewrite (run_cb_map (fun x : Z * record => to_row (fst x) ci (snd x)) (stop_after (Some k)) l []).
  rewrite stop_after_firstn by (rewrite map_length; exact Hk). reflexivity.
Qed.

(* SelectRowid (and PKSelect on an INTEGER PRIMARY KEY): the low level lookup, mapped *)
Theorem select_rowid_lookup pg op npages S (cb : row -> S -> flow * S) sc ms table columns rowid ci root s :
  master pg op npages = (Continue, ms) -> s_worowid sc = false ->
  to_ci_rowid sc columns = Ok ci -> find_root ms name_table table = Ok root ->
  h_select_rowid pg op npages S cb sc table rowid columns s =
  match table_rowid pg op npages root rowid with
  | Ok None => (Continue, s)
  | Ok (Some rec) => cb (to_row rowid ci rec) s
  | Err e => (Fail e, s)
  end.
Proof.
  intros Hm Hw Hci Hr. unfold h_select_rowid, with_master. rewrite Hm, Hw. unfold select_rowid_. rewrite Hci. cbn [bind]. rewrite Hr. cbn [bind].
  destruct (table_rowid pg op npages root rowid) as [[rec|]|e]; reflexivity.
Qed.
