(* readVarint inverts sqlite3PutVarint for every unsigned 64-bit value *)
From SQ Require Import Model.Base Model.Varint Spec.Encode Proofs.BaseP.
From Coq Require Import ZifyBool ZifyNat.
Ltac Zify.zify_post_hook ::= Z.div_mod_to_equations.

Lemma pow128_pos k : 0 < 128 ^ Z.of_nat k.
Proof. apply Z.pow_pos_nonneg; lia. Qed.

Lemma pow128_S k : 128 ^ Z.of_nat (S k) = 128 ^ Z.of_nat k * 128.
Proof. rewrite Nat2Z.inj_succ, Z.pow_succ_r by lia. lia. Qed.

Lemma mod_split w k : 0 <= w ->
  w mod 128 ^ Z.of_nat (S k) = ((w / 128 ^ Z.of_nat k) mod 128) * 128 ^ Z.of_nat k + w mod 128 ^ Z.of_nat k.
Proof.
  intros Hw. rewrite pow128_S. pose proof (pow128_pos k).
  rewrite Z.rem_mul_r by lia. lia.
Qed.

Lemma len_groups k w : length (groups k w) = k.
Proof. induction k as [|k IH]; cbn [groups length]; auto. Qed.

Lemma rv_groups k : forall fuel i n w rest,
  (k <= fuel)%nat -> 0 <= i -> i + Z.of_nat k <= 8 -> 0 <= n -> 0 <= w ->
  n * 128 ^ Z.of_nat k + w mod 128 ^ Z.of_nat k < 2 ^ 64 ->
  rv_loop fuel i n (groups k w ++ rest)
  = rv_loop (fuel - k) (i + Z.of_nat k) (n * 128 ^ Z.of_nat k + w mod 128 ^ Z.of_nat k) rest.
Proof.
  induction k as [|k IH]; intros fuel i n w rest Hf Hi Hik Hn Hw Hb.
  - cbn [groups app]. rewrite Nat.sub_0_r. change (Z.of_nat 0) with 0.
    rewrite Z.pow_0_r, Z.mod_1_r. f_equal; lia.
  - destruct fuel as [|f]; [lia|].
    cbn [groups app rv_loop].
    set (g := (w / 128 ^ Z.of_nat k) mod 128).
    assert (Hg: 0 <= g < 128) by (subst g; apply Z.mod_pos_bound; lia).
    rewrite b2z_z2b by lia.
    pose proof (pow128_pos k) as Hp.
    assert (Hsplit := mod_split w k Hw). fold g in Hsplit.
    rewrite pow128_S in Hb. rewrite pow128_S in Hsplit.
    assert (Hmk: 0 <= w mod 128 ^ Z.of_nat k) by (apply Z.mod_pos_bound; lia).
    destruct (i =? 8) eqn:E8; [lia|].
    replace ((128 + g) mod 128) with g by (rewrite Z.add_mod, Z.mod_same, Z.add_0_l, Z.mod_mod, Z.mod_small; lia).
    assert (Hsmall: 0 <= n * 128 + g < 2 ^ 64) by nia.
    rewrite (Z.mod_small (n * 128 + g)) by lia.
    destruct (128 + g <? 128) eqn:E; [lia|].
    rewrite IH; try lia; [|try (rewrite Hsplit in Hb; nia)..].
    f_equal; try lia.
    rewrite pow128_S. rewrite Hsplit. lia.
Qed.

(* 1..8-byte varints *)
Lemma rv_short n v rest : (1 <= n <= 8)%nat -> 0 <= v < 128 ^ Z.of_nat n ->
  rv_loop 9 0 0 (groups (n - 1) (v / 128) ++ [z2b (v mod 128)] ++ rest) = Some (v, Z.of_nat n).
Proof.
  intros Hn Hv.
  assert (Hn1: S (n - 1) = n) by lia.
  assert (Hv128: 0 <= v / 128 < 128 ^ Z.of_nat (n - 1)).
  { rewrite <- Hn1 in Hv. rewrite pow128_S in Hv. pose proof (pow128_pos (n - 1)). lia. }
  assert (Hlt: 128 ^ Z.of_nat n <= 2 ^ 56).
  { replace (2 ^ 56) with (128 ^ 8) by reflexivity. apply Z.pow_le_mono_r; lia. }
  rewrite rv_groups; try lia; [|try (rewrite Z.mod_small by lia; lia)..].
  rewrite Z.mod_small by lia. rewrite Z.mul_0_l, Z.add_0_l, Z.add_0_l.
  destruct (9 - (n - 1))%nat as [|f] eqn:Ef; [lia|].
  cbn [app rv_loop].
  assert (Hm: 0 <= v mod 128 < 128) by (apply Z.mod_pos_bound; lia).
  rewrite b2z_z2b by lia.
  destruct (Z.of_nat (n - 1) =? 8) eqn:E8; [lia|].
  rewrite Z.mod_mod by lia.
  destruct (v mod 128 <? 128) eqn:E; [|lia].
  rewrite Z.mod_small by lia. f_equal. f_equal; lia.
Qed.

(* 9-byte varints *)
Lemma rv_long v rest : 0 <= v < 2 ^ 64 ->
  rv_loop 9 0 0 (groups 8 (v / 256) ++ [z2b (v mod 256)] ++ rest) = Some (v, 9).
Proof.
  intros Hv.
  assert (H56: 0 <= v / 256 < 2 ^ 56) by lia.
  rewrite rv_groups; try lia;
    [|try (change (128 ^ Z.of_nat 8) with (2 ^ 56); rewrite Z.mod_small by lia; lia)..].
  change (128 ^ Z.of_nat 8) with (2 ^ 56). rewrite Z.mod_small by lia.
  cbn [Nat.sub app rv_loop].
  assert (Hm: 0 <= v mod 256 < 256) by (apply Z.mod_pos_bound; lia).
  rewrite b2z_z2b by lia. cbn [Z.of_nat Z.add Pos.of_succ_nat Pos.succ Z.eqb Pos.eqb].
  f_equal. f_equal. rewrite Z.mod_small; lia.
Qed.

Lemma varint_len_range v : (1 <= varint_len v <= 9)%nat.
Proof. unfold varint_len. repeat match goal with |- context [if ?c then _ else _] => destruct c end; lia. Qed.

Lemma put_varint_len v : len (put_varint v) = Z.of_nat (varint_len v).
Proof.
  unfold put_varint. pose proof (varint_len_range v).
  destruct (varint_len v) as [|[|[|[|[|[|[|[|[|[|n]]]]]]]]]] eqn:E; try lia;
    rewrite len_app; unfold len; rewrite len_groups; cbn [length Nat.sub]; lia.
Qed.

Lemma rv_put_varint v rest : 0 <= v < 2 ^ 64 ->
  rv_loop 9 0 0 (put_varint v ++ rest) = Some (v, Z.of_nat (varint_len v)).
Proof.
  intros Hv. unfold put_varint.
  assert (Hcases:
    (varint_len v = 9%nat /\ 2 ^ 56 <= v) \/
    ((1 <= varint_len v <= 8)%nat /\ v < 128 ^ Z.of_nat (varint_len v))).
  { unfold varint_len.
    change (2 ^ 7) with (128 ^ 1). change (2 ^ 14) with (128 ^ 2). change (2 ^ 21) with (128 ^ 3).
    change (2 ^ 28) with (128 ^ 4). change (2 ^ 35) with (128 ^ 5). change (2 ^ 42) with (128 ^ 6).
    change (2 ^ 49) with (128 ^ 7). change (2 ^ 56) with (128 ^ 8).
    repeat match goal with |- context [if ?c then _ else _] => destruct c eqn:? end;
      try (right; split; [lia|]; cbn [Z.of_nat Pos.of_succ_nat Pos.succ]; lia).
    left. split; [reflexivity|lia]. }
  destruct Hcases as [[E9 _]|[Hn Hlt]].
  - rewrite E9. rewrite <- app_assoc. apply rv_long. exact Hv.
  - destruct (varint_len v) as [|[|[|[|[|[|[|[|[|n]]]]]]]]] eqn:E; try lia;
      rewrite <- app_assoc;
      match goal with |- context [groups ?k _] =>
        match goal with |- _ = Some (_, Z.of_nat ?n) =>
          change k with (n - 1)%nat end end;
      apply rv_short; lia.
Qed.

Theorem read_varint_put_varint v rest : 0 <= v < 2 ^ 64 ->
  read_varint (put_varint v ++ rest) = Some (to_i64 v, len (put_varint v)).
Proof.
  intros Hv. unfold read_varint. rewrite rv_put_varint by exact Hv.
  rewrite put_varint_len. reflexivity.
Qed.

(* signed view: a rowid / serial type i (int64) is stored as the varint of
   its unsigned reinterpretation *)
Lemma to_i64_to_u64 i : - 2 ^ 63 <= i < 2 ^ 63 -> to_i64 (to_u64 i) = i.
Proof.
  intros H. unfold to_i64, to_u64. rewrite Z.mod_mod by lia.
  apply twos_id; lia.
Qed.

Corollary read_varint_signed i rest : - 2 ^ 63 <= i < 2 ^ 63 ->
  read_varint (put_varint (to_u64 i) ++ rest) = Some (i, len (put_varint (to_u64 i))).
Proof.
  intros H. rewrite read_varint_put_varint.
  - rewrite to_i64_to_u64 by exact H. reflexivity.
  - unfold to_u64. apply Z.mod_pos_bound. lia.
Qed.

Lemma to_i64_small v : 0 <= v < 2 ^ 63 -> to_i64 v = v.
Proof.
  intros H. unfold to_i64. rewrite Z.mod_small by lia. unfold twos.
  destruct (v <? 2 ^ (64 - 1)) eqn:E; [reflexivity|]. change (64 - 1) with 63 in E. lia.
Qed.

(* the decoder never reads beyond 9 bytes and never fails on >= 9 bytes *)
Lemma read_varint_some_len b v n : read_varint b = Some (v, n) -> 1 <= n <= 9 /\ n <= len b.
Proof.
  unfold read_varint. destruct (rv_loop 9 0 0 b) as [[u m]|] eqn:E; [|discriminate].
  intros H. inversion H; subst. clear H.
  assert (G: forall fuel i acc bs u m, rv_loop fuel i acc bs = Some (u, m) ->
             0 <= i -> i + 1 <= m <= i + Z.of_nat fuel /\ m - i <= len bs).
  { induction fuel as [|f IH]; intros i acc bs u0 m0 H Hi; cbn [rv_loop] in H; [discriminate|].
    destruct bs as [|c bs]; [discriminate|]. rewrite len_cons. pose proof (len_nonneg bs).
    destruct (i =? 8); [inversion H; subst; lia|].
    destruct (b2z c <? 128); [inversion H; subst; lia|].
    apply IH in H; lia. }
  apply G in E; lia.
Qed.
