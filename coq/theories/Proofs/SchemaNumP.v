(* C10: the numbering of the automatic indexes.  For EVERY statement value, the indexes newCreateTable creates for the
   constraints of a table are named sqlite_autoindex_<table>_<k> with numbers k >= 1 that strictly increase in the order
   the indexes are listed (no number is used twice, none goes backwards - a numbering slip would make a valid index
   name denote a different index), and the name recorded for the primary key of a rowid table is the name of one of
   them. *)
From Coq Require Import ZArith List String Bool Lia Sorted.
From SQ Require Import Model.Base Model.SqlParse Model.Schema Proofs.SchemaP.
Import ListNotations.
Open Scope Z_scope.

(* names numbered increasingly within [lo, hi) *)
Fixpoint numbered (t : string) (lo : Z) (ix : list sindexS) (hi : Z) : Prop :=
  match ix with
  | [] => lo <= hi
  | i :: r => exists k, lo <= k /\ i_name i = autoindex_name t k /\ numbered t (k + 1) r hi
  end.

Lemma num_lo_hi t : forall ix lo hi, numbered t lo ix hi -> lo <= hi.
Proof. induction ix as [|i r IH]; intros lo hi H; cbn in H; [exact H|]. destruct H as (k & Hk & _ & Hr). apply IH in Hr. lia. Qed.

Lemma num_weaken t : forall ix lo lo' hi hi', numbered t lo ix hi -> lo' <= lo -> hi <= hi' -> numbered t lo' ix hi'.
Proof.
  induction ix as [|i r IH]; intros lo lo' hi hi' H Hl Hh; cbn in *; [lia|].
  destruct H as (k & Hk & Hn & Hr). exists k. split; [lia|]. split; [exact Hn|]. eapply IH; [exact Hr|lia|exact Hh].
Qed.

Lemma num_snoc t : forall ix lo hi i, numbered t lo ix hi -> i_name i = autoindex_name t hi -> numbered t lo (ix ++ [i]) (hi + 1).
Proof.
  induction ix as [|x r IH]; intros lo hi i H Hn; cbn [app numbered] in *.
  - exists hi. split; [exact H|]. split; [exact Hn|]. lia.
  - destruct H as (k & Hk & Hx & Hr). exists k. split; [exact Hk|]. split; [exact Hx|]. apply IH; assumption.
Qed.

Lemma take_same_num t : forall ix cols f rest lo hi, take_same ix cols = Some (f, rest) -> numbered t lo ix hi -> numbered t lo rest hi.
Proof.
  induction ix as [|i ix IH]; intros cols f rest lo hi H Hn; cbn [take_same] in H; [discriminate|].
  cbn [numbered] in Hn. destruct Hn as (k & Hk & Hi & Hr).
  destruct (same_index_columns (i_cols i) cols).
  - inversion H; subst. eapply num_weaken; [exact Hr|lia|lia].
  - destruct (take_same ix cols) as [[f' r']|] eqn:E; [|discriminate]. inversion H; subst.
    cbn [numbered]. exists k. split; [exact Hk|]. split; [exact Hi|]. eapply IH; [exact E|exact Hr].
Qed.

(* every name in a numbered list is an autoindex name of the table *)
Lemma num_names t : forall ix lo hi, numbered t lo ix hi -> forall i, In i ix -> exists k, lo <= k < hi /\ i_name i = autoindex_name t k.
Proof.
  induction ix as [|x r IH]; intros lo hi H i []; cbn [numbered] in H; destruct H as (k & Hk & Hx & Hr).
  - subst. exists k. split; [|exact Hx]. apply num_lo_hi in Hr. lia.
  - destruct (IH _ _ Hr i H0) as (k' & Hk' & Hn). exists k'. split; [lia|exact Hn].
Qed.

(* the readable form: the list of names is the image of a strictly increasing list of numbers >= lo *)
Lemma num_sorted t : forall ix lo hi, numbered t lo ix hi ->
  exists ks, map i_name ix = map (autoindex_name t) ks /\ StronglySorted Z.lt ks /\ Forall (fun k => lo <= k < hi) ks.
Proof.
  induction ix as [|x r IH]; intros lo hi H; cbn [numbered] in H.
  - exists []. repeat split; constructor.
  - destruct H as (k & Hk & Hx & Hr). destruct (IH _ _ Hr) as (ks & Hm & Hs & Hf).
    exists (k :: ks). cbn [map]. rewrite Hx, Hm. split; [reflexivity|]. pose proof (num_lo_hi _ _ _ _ Hr). split.
    + constructor; [exact Hs|]. eapply Forall_impl; [|exact Hf]. cbv beta. intros a Ha. lia.
    + constructor; [lia|]. eapply Forall_impl; [|exact Hf]. cbv beta. intros a Ha. lia.
Qed.

(* the invariant of newCreateTable's loop: table name fixed, indexes numbered below the counter, pk name among them *)
Definition pkname_ok (st : schemaS) : Prop := sc_pkname st = EmptyString \/ In (sc_pkname st) (map i_name (sc_indexes st)).
Definition NInv (t : string) (s : nct) : Prop :=
  sc_table (n_st s) = t /\ numbered t 1 (sc_indexes (n_st s)) (n_auto s) /\ (sc_wr (n_st s) = false -> pkname_ok (n_st s)).

Lemma add_index_num t st pk cols auto : sc_table st = t -> numbered t 1 (sc_indexes st) auto -> (sc_wr st = false -> pkname_ok st) ->
  sc_table (fst (add_index st pk (autoindex_name t auto) cols)) = t /\
  numbered t 1 (sc_indexes (fst (add_index st pk (autoindex_name t auto) cols))) (if snd (add_index st pk (autoindex_name t auto) cols) then auto + 1 else auto) /\
  sc_wr (fst (add_index st pk (autoindex_name t auto) cols)) = sc_wr st /\
  (sc_wr st = false -> pkname_ok (fst (add_index st pk (autoindex_name t auto) cols))).
Proof.
  intros Ht Hn Hp. unfold add_index. destruct (same_index_columns (sc_pk st) cols); [cbn [fst snd]; auto|].
  destruct (find (fun i => same_index_columns (i_cols i) cols) (sc_indexes st)) as [i|] eqn:Ef; cbn [fst snd].
  - destruct pk; unfold pkname_ok in *; cbn; repeat split; auto. intros _. right. apply in_map. apply find_some in Ef. apply Ef.
  - assert (Hs : numbered t 1 (sc_indexes st ++ [{| i_name := autoindex_name t auto; i_cols := cols |}]) (auto + 1)) by (apply num_snoc; [exact Hn|reflexivity]).
    destruct pk; unfold pkname_ok in *; cbn; repeat split; auto.
    + intros _. right. rewrite map_app. apply in_or_app. right. left. reflexivity.
    + intros E. destruct (Hp E) as [H0|H0]; [left; exact H0|right]. rewrite map_app. apply in_or_app. left. exact H0.
Qed.

Lemma set_pk_num t st cols hi : sc_table st = t -> numbered t 1 (sc_indexes st) hi ->
  sc_table (fst (set_pk st cols)) = t /\ numbered t 1 (sc_indexes (fst (set_pk st cols))) hi /\ sc_wr (fst (set_pk st cols)) = sc_wr st.
Proof.
  intros Ht Hn. unfold set_pk. destruct (take_same (sc_indexes st) cols) as [[i rest]|] eqn:E; cbn [fst]; cbn; repeat split; auto.
  eapply take_same_num; eassumption.
Qed.

Lemma late_unique_num t wr s cols : sc_wr (n_st s) = wr -> (n_late s = true -> wr = true) -> NInv t s -> NInv t (late_unique s cols) /\ sc_wr (n_st (late_unique s cols)) = wr.
Proof.
  intros Hw Hl (Ht & Hn & Hp). unfold late_unique. destruct (n_late s && same_index_columns (sc_pk (n_st s)) cols) eqn:E; [|split; [repeat split; assumption|exact Hw]].
  apply andb_true_iff in E. destruct E as [E _]. specialize (Hl E).
  split; [|cbn; exact Hw]. repeat split; cbn; auto.
  all: try (eapply num_weaken; [exact Hn|lia|lia]).
  all: try (rewrite Hw, Hl; discriminate).
Qed.

(* the state invariant with the facts SInv gives *)
Definition NS (t : string) (wr : bool) (s : nct) : Prop := NInv t s /\ sc_wr (n_st s) = wr /\ (n_late s = true -> wr = true).

Ltac ai E :=
  match type of E with add_index ?a ?b ?c ?d = (?st', ?added) =>
    let H := fresh "Hai" in
    pose proof (add_index_num _ a b d _ ltac:(eassumption) ltac:(eassumption) ltac:(eassumption)) as H;
    rewrite E in H; cbn [fst snd] in H; destruct H as (At & An & Aw & Ap)
  end.

Lemma nct_column_num t wr s c : NS t wr s -> NS t wr (nct_column wr s c).
Proof.
  intros ((Ht & Hn & Hp) & Hw & HL). unfold nct_column.
  set (fs := fields_of c). set (name := str_of (field "Name" fs)). set (typ := str_of (field "Type" fs)).
  set (coll := str_of (field "Collate" fs)). set (pk := bool_of (field "PrimaryKey" fs)). set (pkdesc := desc_of (field "PrimaryKeyDir" fs)).
  cbv zeta.
  match goal with |- NS t wr {| n_st := set_cols (n_st ?S2) _; n_auto := _; n_late := _ |} => set (s2 := S2) end.
  assert (H2 : NS t wr s2).
  { subst s2.
    match goal with |- NS t wr (if bool_of _ then _ else ?S1) => set (s1 := S1) end.
    assert (H1 : NS t wr s1).
    { subst s1. destruct pk; [|repeat split; assumption]. destruct wr.
      - destruct (set_pk (n_st s) _) as [st' merged] eqn:E.
        match type of E with set_pk ?a ?b = _ => pose proof (set_pk_num t a b _ Ht Hn) as Hsp; rewrite E in Hsp; cbn [fst] in Hsp; destruct Hsp as (St & Sn & Sw) end.
        assert (Hpk : sc_wr st' = false -> pkname_ok st') by (rewrite Sw, Hw; discriminate).
        destruct merged; [repeat split; cbn; auto; congruence|]. destruct (is_rowid false typ pkdesc); repeat split; cbn; auto; try congruence.
        all: try (eapply num_weaken; [exact Sn|lia|lia]).
      - cbn [negb andb]. destruct (is_rowid false typ pkdesc).
        + repeat split; cbn; auto.
        + rewrite <- Ht. destruct (add_index (n_st s) true _ _) as [st' added] eqn:E. rewrite Ht in E. ai E.
          repeat split; cbn; auto; try congruence. all: try (intros E0; apply Ap; congruence). }
    destruct (bool_of (field "Unique" fs)); [|exact H1].
    destruct H1 as ((Ht1 & Hn1 & Hp1) & Hw1 & HL1).
    destruct (late_unique_num t wr s1 [{| c_col := name; c_expr := ""; c_coll := coll; c_desc := false |}] Hw1 HL1 (conj Ht1 (conj Hn1 Hp1))) as ((Ht2 & Hn2 & Hp2) & Hw2).
    rewrite <- Ht2 at 1. destruct (add_index (n_st (late_unique s1 _)) false _ _) as [st' added] eqn:E. rewrite Ht2 in E. ai E.
    repeat split; cbn; auto; try congruence.
    all: try (intros E0; apply Ap; congruence).
    all: try (intros G; apply HL1; eapply late_unique_late; exact G). }
  destruct H2 as ((Ht2 & Hn2 & Hp2) & Hw2 & HL2). repeat split; cbn; auto.
Qed.

Lemma nct_constraint_num t wr s c : NS t wr s -> NS t wr (nct_constraint wr s c).
Proof.
  intros ((Ht & Hn & Hp) & Hw & HL). unfold nct_constraint.
  destruct c as [| | | | | | |n fs]; try (repeat split; assumption).
  destruct (String.eqb n "TablePrimaryKey") eqn:En.
  - cbv zeta.
    match goal with |- NS t wr (match ?A with Some _ => _ | None => _ end) => destruct A as [i|] eqn:Ea end.
    + repeat split; cbn; auto.
    + destruct wr.
      * match goal with |- NS t true (let '(st2, merged) := set_pk ?ST ?PK in _) => destruct (set_pk ST PK) as [st2 merged] eqn:E; set (st1 := ST) in * end.
        assert (Ht1 : sc_table st1 = t) by (subst st1; cbn; exact Ht).
        assert (Hn1 : numbered t 1 (sc_indexes st1) (n_auto s)) by (subst st1; cbn; exact Hn).
        match type of E with set_pk ?a ?b = _ => pose proof (set_pk_num t a b _ Ht1 Hn1) as Hsp; rewrite E in Hsp; cbn [fst] in Hsp; destruct Hsp as (St & Sn & Sw) end.
        assert (Sw1 : sc_wr st2 = true) by (rewrite Sw; subst st1; cbn; exact Hw).
        repeat split; cbn; auto.
        all: try (rewrite Sw1; discriminate).
        all: try (destruct merged; [exact Sn|]; match goal with |- context [if ?b then _ else _] => destruct b end; [exact Sn|]; eapply num_weaken; [exact Sn|lia|lia]).
      * rewrite <- Ht at 1. destruct (add_index (n_st s) true _ _) as [st' added] eqn:E. rewrite Ht in E. ai E.
        repeat split; cbn; auto; try congruence. all: try (intros E0; apply Ap; congruence).
  - destruct (String.eqb n "TableUnique") eqn:Eu.
    + cbv zeta.
      set (cols := to_index_columns (n_st s) (list_of (field "IndexedColumns" fs))).
      destruct (late_unique_num t wr s cols Hw HL (conj Ht (conj Hn Hp))) as ((Ht2 & Hn2 & Hp2) & Hw2).
      rewrite <- Ht2 at 1. destruct (add_index (n_st (late_unique s cols)) false _ cols) as [st' added] eqn:E. rewrite Ht2 in E. ai E.
      repeat split; cbn; auto; try congruence.
      all: try (intros E0; apply Ap; congruence).
      all: try (intros G; apply HL; eapply late_unique_late; exact G).
    + repeat split; assumption.
Qed.

Lemma fold_num {A} (f : nct -> A -> nct) t wr : (forall s a, NS t wr s -> NS t wr (f s a)) ->
  forall l s, NS t wr s -> NS t wr (fold_left f l s).
Proof. intros Hf. induction l as [|a l IH]; intros s H; cbn [fold_left]; [exact H|]. apply IH. apply Hf. exact H. Qed.

Theorem new_create_table_numbering ct :
  let st := new_create_table ct in
  (exists ks, map i_name (sc_indexes st) = map (autoindex_name (sc_table st)) ks /\ StronglySorted Z.lt ks /\ Forall (fun k => 1 <= k) ks) /\
  (sc_wr st = false -> sc_pkname st = EmptyString \/ In (sc_pkname st) (map i_name (sc_indexes st))).
Proof.
  unfold new_create_table. cbv zeta.
  set (wr := bool_of (field "WithoutRowid" (fields_of ct))). set (t := str_of (field "Table" (fields_of ct))).
  match goal with |- context [fold_left (nct_constraint wr) ?L (fold_left (nct_column wr) ?C ?I)] => set (init := I); set (cs := C); set (ks := L) end.
  assert (H0 : NS t wr init).
  { subst init. repeat split; cbn; auto; try lia; try discriminate. intros _. left. reflexivity. }
  pose proof (fold_num (nct_constraint wr) t wr (fun s a => nct_constraint_num t wr s a) ks _
                (fold_num (nct_column wr) t wr (fun s a => nct_column_num t wr s a) cs _ H0)) as ((Ht & Hn & Hp) & Hw & _).
  rewrite Ht. split; [|exact Hp].
  destruct (num_sorted _ _ _ _ Hn) as (l & Hm & Hs & Hf). exists l. split; [exact Hm|]. split; [exact Hs|].
  eapply Forall_impl; [|exact Hf]. cbv beta. intros a Ha. lia.
Qed.

(* ---- the primary key of a WITHOUT ROWID table: a column repeated under the same collation counts once ---- *)
Local Open Scope list_scope.
Definition same1 (a b : icolS) : bool := same_index_columns [a] [b].

Lemma dedup_pk_spec pk : forall uniq,
  (forall i j x y, nth_error uniq i = Some x -> nth_error uniq j = Some y -> i <> j -> same1 x y = false) ->
  let r := dedup_pk pk uniq in
  (forall i j x y, nth_error r i = Some x -> nth_error r j = Some y -> i <> j -> same1 x y = false) /\
  (forall c, In c pk \/ In c uniq -> exists d, In d r /\ same1 d c = true) /\
  (exists added, r = uniq ++ added /\ forall d, In d added -> In d pk).
Proof.
  induction pk as [|co pk IH]; intros uniq Hu; cbn [dedup_pk].
  - split; [exact Hu|]. split.
    + intros c [[]|Hc]. exists c. split; [exact Hc|]. unfold same1. apply same_refl.
    + exists []. rewrite app_nil_r. split; [reflexivity|intros d []].
  - destruct (existsb (fun have => same_index_columns [have] [co]) uniq) eqn:E.
    + destruct (IH uniq Hu) as (A & B & C). split; [exact A|]. split.
      * intros c [[<-|Hc]|Hc]; [|apply B; left; exact Hc|apply B; right; exact Hc].
        apply existsb_exists in E. destruct E as (h & Hh & Hs). destruct (B h (or_intror Hh)) as (d & Hd & Hdh).
        exists d. split; [exact Hd|]. unfold same1 in *. eapply same_trans; eassumption.
      * destruct C as (added & -> & Ha). exists added. split; [reflexivity|]. intros d Hd. right. apply Ha. exact Hd.
    + assert (Hu' : forall i j x y, nth_error (uniq ++ [co]) i = Some x -> nth_error (uniq ++ [co]) j = Some y -> i <> j -> same1 x y = false).
      { assert (Hn : forall h, In h uniq -> same1 h co = false).
        { intros h Hh. destruct (same1 h co) eqn:S; [|reflexivity]. exfalso.
          assert (X : existsb (fun have => same_index_columns [have] [co]) uniq = true) by (apply existsb_exists; exists h; split; [exact Hh|exact S]). congruence. }
        intros i j x y Hi Hj Hij.
        destruct (Nat.lt_ge_cases i (length uniq)) as [Li|Li]; destruct (Nat.lt_ge_cases j (length uniq)) as [Lj|Lj].
        - rewrite nth_error_app1 in Hi, Hj by assumption. eapply Hu; eassumption.
        - rewrite nth_error_app1 in Hi by assumption. rewrite nth_error_app2 in Hj by assumption.
          destruct (j - length uniq)%nat as [|k] eqn:Ek; cbn in Hj; [|destruct k; discriminate]. inversion Hj; subst.
          apply Hn. eapply nth_error_In. exact Hi.
        - rewrite nth_error_app2 in Hi by assumption. rewrite nth_error_app1 in Hj by assumption.
          destruct (i - length uniq)%nat as [|k] eqn:Ek; cbn in Hi; [|destruct k; discriminate]. inversion Hi; subst.
          unfold same1. rewrite same_sym. apply Hn. eapply nth_error_In. exact Hj.
        - rewrite nth_error_app2 in Hi, Hj by assumption.
          destruct (i - length uniq)%nat as [|k] eqn:Ek; cbn in Hi; [|destruct k; discriminate].
          destruct (j - length uniq)%nat as [|k'] eqn:Ek'; cbn in Hj; [|destruct k'; discriminate]. lia. }
      destruct (IH (uniq ++ [co]) Hu') as (A & B & C). split; [exact A|]. split.
      * intros c [[<-|Hc]|Hc]; [apply B; right; apply in_or_app; right; left; reflexivity|apply B; left; exact Hc|apply B; right; apply in_or_app; left; exact Hc].
      * destruct C as (added & -> & Ha). exists (co :: added). split; [rewrite <- app_assoc; reflexivity|].
        intros d [<-|Hd]; [left; reflexivity|right; apply Ha; exact Hd].
Qed.

(* the key as interpreted: pairwise different (name, collation), every written column represented, in the written order *)
Theorem dedup_pk_ok pk :
  let r := dedup_pk pk [] in
  (forall i j x y, nth_error r i = Some x -> nth_error r j = Some y -> i <> j -> same1 x y = false) /\
  (forall c, In c pk -> exists d, In d r /\ same1 d c = true) /\
  (forall d, In d r -> In d pk).
Proof.
  destruct (dedup_pk_spec pk [] ltac:(intros i j x y H; destruct i; discriminate H)) as (A & B & (added & E & C)).
  split; [exact A|]. split; [intros c Hc; apply B; left; exact Hc|]. intros d Hd. cbn in E. rewrite E in Hd. apply C. exact Hd.
Qed.
