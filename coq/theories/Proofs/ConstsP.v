(* The constants of the Go source, regenerated from /repo on every run
   (Gen/Consts.v), against the values the model and SQLite use. *)
From Coq Require Import ZArith List.
From SQ Require Import Gen.Consts Model.Base Model.Btree Model.Page Model.Header Model.DbState.
Import ListNotations.
Open Scope Z_scope.

(* SQLite's lock bytes (os.h: PENDING_BYTE 0x40000000, RESERVED_BYTE +1, SHARED_FIRST +2, SHARED_SIZE 510) *)
Theorem lock_bytes_are_sqlites :
  go_sqlitePendingByte = 1073741824 /\ go_sqliteReservedByte = go_sqlitePendingByte + 1 /\
  go_sqliteSharedFirst = go_sqlitePendingByte + 2 /\ go_sqliteSharedSize = 510.
Proof. repeat split; reflexivity. Qed.

(* RLock asks for the pending byte before the shared range *)
Theorem rlock_order_pending_first : go_rlock_order = [0; 2].
Proof. reflexivity. Qed.

Theorem model_constants :
  go_CachePages = Z.of_nat cache_pages /\ go_maxRecursion = Z.of_nat max_recursion /\
  go_headerSize = header_size /\ go_journalHeader = 28 /\
  go_journalMagic = journal_magic /\ go_headerMagic = header_magic.
Proof. repeat split; reflexivity. Qed.
