(* C03 at the high level: the key IndexedSelectEq / PKSelect build from the caller's values
   (key.go: asDbKey) carries the index's collations and directions - the hypothesis
   [key_matches] of the sorted-index theorems - and the select is the equality scan of the
   index with that key, each entry mapped through the table lookup. *)
From SQ Require Import Model.Base Model.Varint Model.Record Model.Payload Model.Btree
     Model.Page Model.Cmp Model.Low Model.High Spec.Flat Spec.Deliver Spec.Order
     Proofs.SearchP Proofs.BtreeP Proofs.DeliverP Proofs.LowP Proofs.ScanP Proofs.CmpP Proofs.SortedP Proofs.HighP.

(* the order an index with these columns is sorted by *)
Definition col_flags (c : icol) : option (collation * bool) :=
  match ic_coll c with
  | [] => Some (CBinary, ic_desc c)
  | n => match coll_of_name n with Some cl => Some (cl, ic_desc c) | None => None end
  end.

Fixpoint index_order (cols : list icol) : list (collation * bool) :=
  match cols with
  | [] => []
  | c :: r => match col_flags c with Some f => f :: index_order r | None => (CBinary, ic_desc c) :: index_order r end
  end.

Theorem as_dbkey_matches k : forall cols dk, as_dbkey k cols = Ok dk ->
  key_matches (index_order cols) dk /\ map kv dk = k.
Proof.
  induction k as [|v k IH]; intros cols dk H; cbn [as_dbkey] in H.
  - inversion H; subst. split; [destruct (index_order cols); exact I|reflexivity].
  - destruct cols as [|c cols]; [discriminate|].
    unfold col_flags in *. cbn [index_order]. unfold col_flags.
    destruct (ic_coll c) as [|b bs] eqn:Ec.
    + cbn [bind] in H. destruct (as_dbkey k cols) as [rest|e] eqn:Er; cbn [bind] in H; [|discriminate]. inversion H; subst.
      destruct (IH cols rest Er) as [A B]. cbn [key_matches kcoll kdesc fst snd map kv]. repeat split; auto. f_equal. exact B.
    + destruct (coll_of_name (b :: bs)) as [cl|] eqn:En; cbn [bind] in H; [|discriminate].
      destruct (as_dbkey k cols) as [rest|e] eqn:Er; cbn [bind] in H; [|discriminate]. inversion H; subst.
      destruct (IH cols rest Er) as [A B]. cbn [key_matches kcoll kdesc fst snd map kv]. repeat split; auto. f_equal. exact B.
Qed.

Section HighEq.
  Variable pg : Z -> res (list byte).
  Variable op : Z -> res page.
  Variable npages : nat.
  Variable S : Type.
  Variable cb : row -> S -> flow * S.
  Variables (sc : schema) (ms : list master_row) (table : list byte) (columns : list (list byte)).
  Hypothesis Hmaster : master pg op npages = (Continue, ms).

  (* IndexedSelectEq on a rowid table *)
  Theorem indexed_select_eq_rowid_table iname ind k dbkey ci troot iroot s : s_worowid sc = false ->
    find_index sc iname = Some ind -> as_dbkey k (si_cols ind) = Ok dbkey -> to_ci_rowid sc columns = Ok ci ->
    find_root ms name_table table = Ok troot -> find_root ms name_index (si_name ind) = Ok iroot ->
    h_indexed_select_eq pg op npages S cb sc table iname k columns s
    = index_scan_eq pg op npages S iroot dbkey (via_rowid pg op npages S cb ci troot) s.
  Proof.
    intros Hw Hi Hk Hci Ht Hr. unfold h_indexed_select_eq, with_master. rewrite Hmaster, Hi, Hk. cbn [failing]. rewrite Hw.
    unfold indexed_select_eq_. rewrite Hci. cbn [failing]. rewrite Ht. cbn [failing]. rewrite Hr. cbn [failing]. reflexivity.
  Qed.

  (* PKSelect on a WITHOUT ROWID table: the equality scan of the table's own tree *)
  Theorem pk_select_norowid_table k dbkey ci troot s : s_worowid sc = true ->
    to_ci_nonrowid sc columns = Ok ci -> find_root ms name_table table = Ok troot -> as_dbkey k (s_pk sc) = Ok dbkey ->
    h_pk_select pg op npages S cb sc table k columns s
    = index_scan_eq pg op npages S troot dbkey (fun r s => cb (to_row 0 ci r) s) s.
  Proof.
    intros Hw Hci Ht Hk. unfold h_pk_select, with_master. rewrite Hmaster, Hw, Hci. cbn [failing]. rewrite Ht. cbn [failing]. rewrite Hk. cbn [failing]. reflexivity.
  Qed.
End HighEq.

(* PKSelect on a WITHOUT ROWID table whose tree is sorted by its primary key order: exactly the rows
   whose key columns equal the caller's values under the key columns' collations, in key order *)
Theorem pk_select_sorted pg op npages sc ms table columns k dbkey ci troot l :
  master pg op npages = (Continue, ms) -> s_worowid sc = true ->
  to_ci_nonrowid sc columns = Ok ci -> find_root ms name_table table = Ok troot -> as_dbkey k (s_pk sc) = Ok dbkey ->
  index_rows pg op npages troot = (l, None) -> Forall (Forall storable) l -> Forall storable k ->
  Sorted.Sorted (fun r1 r2 => cle (rcmp (index_order (s_pk sc)) r1 r2)) l ->
  outcome (h_pk_select pg op npages _ (stop_after None) sc table k columns [])
  = (None, rev (map (to_row 0 ci) (filter (equals dbkey) l))).
Proof.
  intros Hm Hw Hci Ht Hk Hl Hst Hks Hs.
  rewrite (pk_select_norowid_table pg op npages _ _ sc ms table columns Hm k dbkey ci troot [] Hw Hci Ht Hk).
  destruct (as_dbkey_matches k (s_pk sc) dbkey Hk) as [Hmatch Hkv].
  assert (Hkst : Forall (fun kc => storable (kv kc)) dbkey).
  { rewrite <- Hkv in Hks. clear -Hks. induction dbkey as [|kc dk IH]; [constructor|]. inversion Hks; subst. constructor; auto. }
  pose proof (sorted_index_three_runs (index_order (s_pk sc)) dbkey l Hmatch Hkst Hst Hs) as H3.
  rewrite (index_scan_eq_rows pg op npages _ troot dbkey (fun r s => stop_after None (to_row 0 ci r) s) l [] Hl (three_runs_mono _ _ _ _ H3)).
  rewrite (eq_segment_is_filter _ _ _ _ H3).
  rewrite (run_cb_map (to_row 0 ci) (stop_after None) (filter (equals dbkey) l) []).
  rewrite stop_after_none. rewrite app_nil_r. reflexivity.
Qed.
