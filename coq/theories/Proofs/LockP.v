(* C06 / C07: invariants of the lock protocol over ALL interleavings of any
   number of sqlittle handles and SQLite connections, each in its own process. *)
From Coq Require Import List Arith Bool Lia.
From SQ Require Import Model.Lock.
Import ListNotations.

Lemma region_eqb_spec a b : reflect (a = b) (region_eqb a b).
Proof. destruct a, b; cbn; constructor; congruence. Qed.

Ltac cases :=
  repeat match goal with
  | |- context[Nat.eqb ?a ?b] => destruct (Nat.eqb_spec a b)
  | H : context[Nat.eqb ?a ?b] |- _ => destruct (Nat.eqb_spec a b)
  | |- context[region_eqb ?a ?b] => destruct (region_eqb_spec a b)
  | H : context[region_eqb ?a ?b] |- _ => destruct (region_eqb_spec a b)
  end; cbn [andb] in *; subst.

(* no process holds a write lock on a region on which another holds anything *)
Definition compat (n : nat) (t : table) : Prop :=
  forall p q r, p < n -> q < n -> p <> q -> t p r = Wr -> t q r = NoLock.

Lemma others_ok_spec n t p r k : others_ok n t p r k = true ->
  forall q, q < n -> q <> p ->
  match k, t q r with Rd, Wr => False | Wr, Rd | Wr, Wr => False | _, _ => True end.
Proof.
  induction n as [|m IH]; intros H q Hq Hne; [lia|].
  cbn in H. apply andb_true_iff in H. destruct H as [H1 H2].
  destruct (Nat.eq_dec q m) as [->|Hqm].
  - destruct (Nat.eqb_spec m p); [congruence|].
    destruct k, (t m r); try exact I; discriminate.
  - apply IH; [assumption|lia|assumption].
Qed.

Lemma others_ok_intro n t p r k :
  (forall q, q < n -> q <> p -> match k, t q r with Rd, Wr => False | Wr, Rd | Wr, Wr => False | _, _ => True end) ->
  others_ok n t p r k = true.
Proof.
  induction n as [|m IH]; intros H; [reflexivity|].
  cbn. apply andb_true_iff. split; [apply IH; intros q Hq; apply H; lia|].
  destruct (Nat.eqb_spec m p) as [|Hne]; [reflexivity|].
  specialize (H m ltac:(lia) Hne). destruct k, (t m r); try reflexivity; contradiction.
Qed.

Lemma setlk_some n t p r k t' : setlk n t p r k = Some t' -> t' = upd t p r k.
Proof. unfold setlk. destruct k; [|destruct (others_ok _ _ _ _ _)..]; intros H; inversion H; reflexivity. Qed.

Lemma setlk_compat n t p r k t' : p < n -> compat n t -> setlk n t p r k = Some t' -> compat n t'.
Proof.
  intros Hp Hc H. unfold setlk in H.
  destruct k.
  - inversion H; subst; clear H.
    intros a b s Ha Hb Hab Hw. unfold upd in *. cases; try congruence; eauto.
  - destruct (others_ok n t p r Rd) eqn:E; [|discriminate]. inversion H; subst; clear H.
    pose proof (others_ok_spec _ _ _ _ _ E) as Hs.
    intros a b s Ha Hb Hab Hw. unfold upd in *. cases; try congruence; eauto.
    all: match goal with Hw : ?tt ?x ?r = Wr |- _ => specialize (Hs x ltac:(assumption) ltac:(congruence)); rewrite Hw in Hs; contradiction end.
  - destruct (others_ok n t p r Wr) eqn:E; [|discriminate]. inversion H; subst; clear H.
    pose proof (others_ok_spec _ _ _ _ _ E) as Hs.
    intros a b s Ha Hb Hab Hw. unfold upd in *. cases; try congruence; eauto.
    all: first [ match goal with Hw : ?tt ?x ?r = Wr |- _ => specialize (Hs x ltac:(assumption) ltac:(congruence)); rewrite Hw in Hs; contradiction end
               | match goal with |- ?tt ?x ?r = NoLock => specialize (Hs x ltac:(assumption) ltac:(congruence)); destruct (tt x r); auto; contradiction end ].
Qed.

Lemma unlock_compat n t p r : compat n t -> compat n (upd t p r NoLock).
Proof. intros Hc a b s Ha Hb Hab Hw. unfold upd in *. cases; try congruence; eauto. Qed.

Lemma drop_compat n t p : compat n t -> compat n (drop_all t p).
Proof. intros Hc a b s Ha Hb Hab Hw. unfold drop_all in *. cases; try congruence; eauto. Qed.

(* what each actor holds, by its state *)
Definition hrow (x : hstate) (r : region) : kind :=
  match x, r with
  | HPending, Pending | HBoth, Pending | HBoth, Shared | HLocked, Shared => Rd
  | _, _ => NoLock
  end.
Definition wrow (x : wstate) (r : region) : kind :=
  match x, r with
  | WSharedTmp1, Pending | WSharedTmp2, Pending | WSharedTmp2, Shared | WShared, Shared | WReserved, Shared | WPending, Shared => Rd
  | WReserved, Reserved | WPending, Reserved | WPending, Pending | WExclusive, Reserved | WExclusive, Pending | WExclusive, Shared => Wr
  | _, _ => NoLock
  end.

Section Inv.
  Variable n nh nw : nat.
  Variable hpid wpid : nat -> pid.
  (* every actor lives in its own process *)
  Hypothesis Hh_inj : forall a b, a < nh -> b < nh -> hpid a = hpid b -> a = b.
  Hypothesis Hw_inj : forall a b, a < nw -> b < nw -> wpid a = wpid b -> a = b.
  Hypothesis Hhw : forall a b, a < nh -> b < nw -> hpid a <> wpid b.
  Hypothesis Hh_lt : forall a, a < nh -> hpid a < n.
  Hypothesis Hw_lt : forall a, a < nw -> wpid a < n.

  Definition step_ok (st : step) : Prop :=
    match st with
    | HLock1 h | HLock2 h | HLock3 h | HPage h | HUnlock h | HClose h => h < nh
    | WS1 w | WS2 w | WS3 w | WRes w | WPend w | WExcl w | WWrite w | WUnlockAll w | WDie w => w < nw
    end.

  Definition free (p : pid) : Prop := (forall h, h < nh -> hpid h <> p) /\ (forall w, w < nw -> wpid w <> p).

  Record Inv (s : sys) : Prop := {
    inv_h : forall h r, h < nh -> tbl s (hpid h) r = hrow (hst s h) r;
    inv_w : forall w r, w < nw -> tbl s (wpid w) r = wrow (wst s w) r;
    inv_free : forall p r, free p -> tbl s p r = NoLock;
    inv_compat : compat n (tbl s) }.

  Lemma inv_init : Inv (init).
  Proof. constructor; intros; try reflexivity. intros p q r _ _ _ H. discriminate. Qed.

  Lemma bounded_dec (f : nat -> pid) m q : (exists i, i < m /\ f i = q) \/ (forall i, i < m -> f i <> q).
  Proof.
    induction m as [|m IH]; [right; intros i Hi; lia|].
    destruct IH as [(i & Hi & E)|N]; [left; exists i; split; [lia|exact E]|].
    destruct (Nat.eq_dec (f m) q) as [E|NE]; [left; exists m; split; [lia|exact E]|].
    right. intros i Hi. destruct (Nat.eq_dec i m) as [->|]; [exact NE|apply N; lia].
  Qed.

  Lemma classic_actor q : (exists h, h < nh /\ hpid h = q) \/ ((exists w, w < nw /\ wpid w = q) \/ free q).
  Proof.
    destruct (bounded_dec hpid nh q) as [H|NH]; [left; exact H|].
    destruct (bounded_dec wpid nw q) as [H|NW]; [right; left; exact H|].
    right. right. split; assumption.
  Qed.

  Lemma free_not_h p h : free p -> h < nh -> hpid h <> p.
  Proof. intros [F _] H. apply F. exact H. Qed.
  Lemma free_not_w p w : free p -> w < nw -> wpid w <> p.
  Proof. intros [_ F] H. apply F. exact H. Qed.

  Ltac norm_ids :=
    repeat match goal with
           | H : hpid ?a = hpid ?b |- _ => first [ constr_eq a b; clear H | apply Hh_inj in H; [subst|assumption..] ]
           | H : wpid ?a = wpid ?b |- _ => first [ constr_eq a b; clear H | apply Hw_inj in H; [subst|assumption..] ]
           | H : hpid ?a = wpid ?b |- _ => exfalso; exact (Hhw a b ltac:(assumption) ltac:(assumption) H)
           | H : wpid ?b = hpid ?a |- _ => exfalso; exact (Hhw a b ltac:(assumption) ltac:(assumption) (eq_sym H))
           end.

  (* close a goal about one row of the table after the case split *)
  Ltac fin Ih Iw :=
    norm_ids; try congruence; try reflexivity;
    try (rewrite ?Ih, ?Iw by assumption;
         repeat match goal with E : hst _ _ = _ |- _ => rewrite E | E : wst _ _ = _ |- _ => rewrite E end;
         try reflexivity;
         match goal with r : region |- _ => destruct r; try reflexivity; congruence end);
    try (apply Ih; assumption); try (apply Iw; assumption).

  Ltac rows Ih Iw If :=
    constructor;
    [ intros ? ? ?; cbn [tbl hst wst]; unfold upd, drop_all, set_h, set_w; cases; fin Ih Iw
    | intros ? ? ?; cbn [tbl hst wst]; unfold upd, drop_all, set_h, set_w; cases; fin Ih Iw
    | intros ? ? Hf; cbn [tbl]; unfold upd, drop_all; cases;
      try reflexivity;
      try (exfalso; first [eapply (free_not_h _ _ Hf); eauto; fail | eapply (free_not_w _ _ Hf); eauto; fail]);
      apply If; assumption
    | idtac ].

  Theorem inv_step s st : step_ok st -> Inv s -> Inv (do_step n hpid wpid s st).
  Proof.
    intros Hok [Ih Iw If Ic].
    destruct st as [h|h|h|h|h|h|w|w|w|w|w|w|w|w|w]; cbn [step_ok] in Hok; cbn [do_step].
    - (* HLock1 *) destruct (hst s h) eqn:Es; try (constructor; assumption).
      destruct (setlk n (tbl s) (hpid h) Pending Rd) as [t|] eqn:El; [|constructor; assumption].
      pose proof (setlk_some _ _ _ _ _ _ El); subst t.
      rows Ih Iw If. eapply setlk_compat; [apply Hh_lt; exact Hok|exact Ic|exact El].
    - (* HLock2 *) destruct (hst s h) eqn:Es; try (constructor; assumption).
      destruct (setlk n (tbl s) (hpid h) Shared Rd) as [t|] eqn:El.
      + pose proof (setlk_some _ _ _ _ _ _ El); subst t.
        rows Ih Iw If. eapply setlk_compat; [apply Hh_lt; exact Hok|exact Ic|exact El].
      + rows Ih Iw If. apply unlock_compat. exact Ic.
    - (* HLock3 *) destruct (hst s h) eqn:Es; try (constructor; assumption).
      rows Ih Iw If. apply unlock_compat. exact Ic.
    - (* HPage *) destruct (hst s h); constructor; assumption.
    - (* HUnlock *) destruct (hst s h) eqn:Es; try (constructor; assumption).
      rows Ih Iw If. apply unlock_compat. exact Ic.
    - (* HClose *)
      assert (G: Inv {| tbl := drop_all (tbl s) (hpid h); hst := set_h (hst s) h HClosed; wst := wst s; evs := evs s |}).
      { rows Ih Iw If. apply drop_compat. exact Ic. }
      destruct (hst s h); try exact G. constructor; assumption.
    - (* WS1 *) destruct (wst s w) eqn:Es; try (constructor; assumption).
      destruct (setlk n (tbl s) (wpid w) Pending Rd) as [t|] eqn:El; [|constructor; assumption].
      pose proof (setlk_some _ _ _ _ _ _ El); subst t.
      rows Ih Iw If. eapply setlk_compat; [apply Hw_lt; exact Hok|exact Ic|exact El].
    - (* WS2 *) destruct (wst s w) eqn:Es; try (constructor; assumption).
      destruct (setlk n (tbl s) (wpid w) Shared Rd) as [t|] eqn:El.
      + pose proof (setlk_some _ _ _ _ _ _ El); subst t.
        rows Ih Iw If. eapply setlk_compat; [apply Hw_lt; exact Hok|exact Ic|exact El].
      + rows Ih Iw If. apply unlock_compat. exact Ic.
    - (* WS3 *) destruct (wst s w) eqn:Es; try (constructor; assumption).
      rows Ih Iw If. apply unlock_compat. exact Ic.
    - (* WRes *) destruct (wst s w) eqn:Es; try (constructor; assumption).
      destruct (setlk n (tbl s) (wpid w) Reserved Wr) as [t|] eqn:El; [|constructor; assumption].
      pose proof (setlk_some _ _ _ _ _ _ El); subst t.
      rows Ih Iw If. eapply setlk_compat; [apply Hw_lt; exact Hok|exact Ic|exact El].
    - (* WPend *) destruct (wst s w) eqn:Es; try (constructor; assumption).
      destruct (setlk n (tbl s) (wpid w) Pending Wr) as [t|] eqn:El; [|constructor; assumption].
      pose proof (setlk_some _ _ _ _ _ _ El); subst t.
      rows Ih Iw If. eapply setlk_compat; [apply Hw_lt; exact Hok|exact Ic|exact El].
    - (* WExcl *) destruct (wst s w) eqn:Es; try (constructor; assumption).
      destruct (setlk n (tbl s) (wpid w) Shared Wr) as [t|] eqn:El; [|constructor; assumption].
      pose proof (setlk_some _ _ _ _ _ _ El); subst t.
      rows Ih Iw If. eapply setlk_compat; [apply Hw_lt; exact Hok|exact Ic|exact El].
    - (* WWrite *) destruct (wst s w); constructor; assumption.
    - (* WUnlockAll *)
      assert (G: Inv {| tbl := upd (upd (upd (tbl s) (wpid w) Shared NoLock) (wpid w) Pending NoLock) (wpid w) Reserved NoLock;
                        hst := hst s; wst := set_w (wst s) w WUnlocked; evs := evs s |}).
      { rows Ih Iw If. repeat apply unlock_compat. exact Ic. }
      destruct (wst s w); try exact G. constructor; assumption.
    - (* WDie *)
      rows Ih Iw If. apply drop_compat. exact Ic.
  Qed.

  Theorem inv_run sched : Forall step_ok sched -> Inv (run n hpid wpid sched).
  Proof.
    unfold run. assert (G: forall s, Inv s -> Forall step_ok sched -> Inv (fold_left (do_step n hpid wpid) sched s)).
    { induction sched as [|st rest IH]; intros s Hs Hf; cbn [fold_left]; [exact Hs|].
      inversion Hf; subst. apply IH; [apply inv_step; assumption|assumption]. }
    intros Hf. apply G; [apply inv_init|exact Hf].
  Qed.

  (* C06: while a handle is between RLock and RUnlock no connection is in
     EXCLUSIVE - the only state in which the database file is written *)
  Theorem locked_excludes_exclusive s h w : Inv s -> h < nh -> w < nw ->
    hst s h = HLocked -> wst s w <> WExclusive.
  Proof.
    intros [Ih Iw _ Ic] Hh Hw Hl He.
    pose proof (Ih h Shared Hh) as A. rewrite Hl in A. cbn in A.
    pose proof (Iw w Shared Hw) as B. rewrite He in B. cbn in B.
    pose proof (Ic (wpid w) (hpid h) Shared (Hw_lt w Hw) (Hh_lt h Hh) (fun E => Hhw h w Hh Hw (eq_sym E)) B) as C.
    congruence.
  Qed.

  (* ... and holds exactly the shared range; after RUnlock (or a failed RLock) nothing *)
  Theorem handle_holds s h r : Inv s -> h < nh -> tbl s (hpid h) r = hrow (hst s h) r.
  Proof. intros I Hh. apply (inv_h s I). exact Hh. Qed.

  (* C07: a PENDING or EXCLUSIVE lock elsewhere makes RLock fail at its first
     system call; the handle stays idle (and so reads no page) *)
  Theorem pending_blocks_rlock s h w : Inv s -> h < nh -> w < nw ->
    hst s h = HIdle -> (wst s w = WPending \/ wst s w = WExclusive) ->
    do_step n hpid wpid s (HLock1 h) = busy s (HLock1 h).
  Proof.
    intros [Ih Iw _ Ic] Hh Hw Hi Hp. cbn [do_step]. rewrite Hi.
    unfold setlk. destruct (others_ok n (tbl s) (hpid h) Pending Rd) eqn:E; [|reflexivity].
    exfalso. pose proof (others_ok_spec _ _ _ _ _ E (wpid w) (Hw_lt w Hw) (fun X => Hhw h w Hh Hw (eq_sym X))) as S.
    rewrite (Iw w Pending Hw) in S. destruct Hp as [Hp|Hp]; rewrite Hp in S; cbn in S; exact S.
  Qed.

  Lemma busy_no_page s st h : hst (busy s st) h = hst s h /\ evs (busy s st) = EvBusy st :: evs s.
  Proof. split; reflexivity. Qed.

  (* C07: writers that hold at most RESERVED do not keep a reader out *)
  Definition at_most_reserved (x : wstate) : Prop :=
    x = WUnlocked \/ x = WShared \/ x = WReserved \/ x = WDead.

  Theorem reserved_admits_reader s h : Inv s -> h < nh ->
    (forall w, w < nw -> at_most_reserved (wst s w)) ->
    hst s h = HIdle ->
    exists t1 t2, setlk n (tbl s) (hpid h) Pending Rd = Some t1 /\ setlk n t1 (hpid h) Shared Rd = Some t2.
  Proof.
    intros [Ih Iw If Ic] Hh Hall Hi.
    assert (NW: forall q r, q < n -> q <> hpid h -> (r = Pending \/ r = Shared) -> tbl s q r <> Wr).
    { intros q r Hq Hne Hr.
      destruct (classic_actor q) as [[h' [Hh' E]]|[[w [Hw E]]|F]].
      - subst q. rewrite (Ih h' r Hh'). destruct (hst s h'), r; cbn; congruence.
      - subst q. rewrite (Iw w r Hw). destruct (Hall w Hw) as [E|[E|[E|E]]]; rewrite E; destruct Hr as [Hr|Hr]; rewrite Hr; cbn; congruence.
      - rewrite (If q r F). congruence. }
    assert (O1: others_ok n (tbl s) (hpid h) Pending Rd = true).
    { apply others_ok_intro. intros q Hq Hne. pose proof (NW q Pending Hq Hne (or_introl eq_refl)). destruct (tbl s q Pending); auto. }
    unfold setlk at 1. rewrite O1. eexists. eexists. split; [reflexivity|].
    unfold setlk. rewrite (others_ok_intro n _ (hpid h) Shared Rd); [reflexivity|].
    intros q Hq Hne. unfold upd. cases; try congruence.
    pose proof (NW q Shared Hq Hne (or_intror eq_refl)). destruct (tbl s q Shared); auto.
  Qed.
End Inv.
