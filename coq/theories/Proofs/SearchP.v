(* Go's sort.Search on a false*true* predicate, and the list-side notions the
   from-key theorems use: drop_lt (suffix from the first true), nfalse, mono *)
From SQ Require Import Model.Base Model.Btree.
From Coq Require Import ZifyBool ZifyNat.

Section Search.
  Variable P : Type.

  Lemma search_fuel_mono (f : nat -> bool) k : forall fuel i j,
    (i <= k <= j)%nat -> (j - i <= fuel)%nat ->
    (forall x, (i <= x < k)%nat -> f x = false) -> (forall x, (k <= x < j)%nat -> f x = true) ->
    search_fuel fuel f i j = k.
  Proof.
    induction fuel as [|fuel IH]; intros i j Hk Hf Hlo Hhi; cbn [search_fuel].
    - lia.
    - destruct (Nat.ltb_spec i j) as [Hij|Hij]; [|lia].
      assert (Hh: (i <= Nat.div (i + j) 2 < j)%nat).
      { pose proof (Nat.div_mod (i + j) 2 ltac:(lia)).
        pose proof (Nat.mod_upper_bound (i + j) 2 ltac:(lia)). lia. }
      destruct (f (Nat.div (i + j) 2)) eqn:Ef.
      + apply IH; try lia.
        * destruct (Nat.le_gt_cases k (Nat.div (i + j) 2)); [lia|]. rewrite Hlo in Ef by lia. discriminate.
        * intros x Hx. apply Hlo. lia.
        * intros x Hx. apply Hhi; lia.
      + apply IH; try lia.
        * destruct (Nat.le_gt_cases k (Nat.div (i + j) 2)); [|lia]. rewrite Hhi in Ef by lia. discriminate.
        * intros x Hx. apply Hlo. lia.
        * intros x Hx. apply Hhi; lia.
  Qed.

  Lemma search_fuel_ext (f g : nat -> bool) : (forall x, f x = g x) ->
    forall fuel i j, search_fuel fuel f i j = search_fuel fuel g i j.
  Proof.
    intros H. induction fuel as [|fuel IH]; intros i j; cbn [search_fuel]; [reflexivity|].
    rewrite H. destruct (Nat.ltb i j); [|reflexivity]. destruct (g (Nat.div (i + j) 2)); apply IH.
  Qed.

  (* when every probe in range succeeds the error-recording search is the pure one *)
  Lemma search_fuel_e_pure (f : nat -> res bool) (g : nat -> bool) n :
    (forall x, (x < n)%nat -> f x = Ok (g x)) ->
    forall fuel i j e, (j <= n)%nat -> search_fuel_e fuel f i j e = (search_fuel fuel g i j, e).
  Proof.
    intros Hfg. induction fuel as [|fuel IH]; intros i j e Hj; cbn [search_fuel_e search_fuel]; [reflexivity|].
    destruct (Nat.ltb_spec i j) as [Hij|Hij]; [|reflexivity].
    assert (Hh: (Nat.div (i + j) 2 < j)%nat).
    { pose proof (Nat.div_mod (i + j) 2 ltac:(lia)).
      pose proof (Nat.mod_upper_bound (i + j) 2 ltac:(lia)). lia. }
    rewrite Hfg by lia. destruct (g (Nat.div (i + j) 2)); apply IH; lia.
  Qed.
End Search.

Section DropLt.
  Variable A : Type.
  Variable pred : A -> bool.

  Fixpoint drop_lt (l : list A) : list A :=
    match l with [] => [] | x :: rest => if pred x then l else drop_lt rest end.
  Fixpoint nfalse (l : list A) : nat :=
    match l with [] => 0 | x :: rest => if pred x then 0 else S (nfalse rest) end.

  Definition allf (l : list A) := Forall (fun y => pred y = false) l.
  Definition allt (l : list A) := Forall (fun y => pred y = true) l.
  (* false* true* *)
  Definition mono (l : list A) : Prop := exists lo hi, l = lo ++ hi /\ allf lo /\ allt hi.

  Lemma drop_lt_allf a b : allf a -> drop_lt (a ++ b) = drop_lt b.
  Proof. induction 1 as [|x a Hx _ IH]; cbn [drop_lt app]; [reflexivity|]. rewrite Hx. exact IH. Qed.

  Lemma drop_lt_nil_allf l : drop_lt l = [] -> allf l.
  Proof.
    induction l as [|x l IH]; intros H; [constructor|]. cbn [drop_lt] in H.
    destruct (pred x) eqn:E; [discriminate|]. constructor; [exact E|apply IH; exact H].
  Qed.

  Lemma drop_lt_cons_app l x r b : drop_lt l = x :: r -> drop_lt (l ++ b) = x :: r ++ b.
  Proof.
    induction l as [|y l IH]; intros H; [discriminate|]. cbn [drop_lt app] in *.
    destruct (pred y); [inversion H; subst; reflexivity|auto].
  Qed.

  Lemma drop_lt_head_true l x r : drop_lt l = x :: r -> pred x = true.
  Proof.
    induction l as [|y l IH]; intros H; [discriminate|]. cbn [drop_lt] in H.
    destruct (pred y) eqn:E; [inversion H; subst; exact E|auto].
  Qed.

  Lemma skipn_nfalse l : skipn (nfalse l) l = drop_lt l.
  Proof. induction l as [|x l IH]; cbn [nfalse drop_lt skipn]; [reflexivity|]. destruct (pred x); [reflexivity|exact IH]. Qed.

  Lemma firstn_nfalse_allf l : allf (firstn (nfalse l) l).
  Proof.
    induction l as [|x l IH]; cbn [nfalse firstn]; [constructor|].
    destruct (pred x) eqn:E; cbn [firstn]; [constructor|]. constructor; [exact E|exact IH].
  Qed.

  Lemma nfalse_le l : (nfalse l <= length l)%nat.
  Proof. induction l as [|x l IH]; cbn [nfalse length]; [lia|]. destruct (pred x); lia. Qed.

  Lemma mono_app_r a b : mono (a ++ b) -> mono b.
  Proof.
    intros (lo & hi & E & Hlo & Hhi). revert lo E Hlo. induction a as [|x a IH]; intros lo E Hlo.
    - exists lo, hi; auto.
    - destruct lo as [|y lo].
      + cbn in E. subst hi. exists [], b. split; [reflexivity|]. split; [constructor|].
        inversion Hhi; subst. match goal with H : Forall _ (a ++ b) |- _ => apply Forall_app in H; tauto end.
      + cbn in E. inversion E; subst. inversion Hlo; subst. eapply IH; eauto.
  Qed.

  Lemma mono_app_l a b : mono (a ++ b) -> mono a.
  Proof.
    intros (lo & hi & E & Hlo & Hhi). revert a E. induction Hlo as [|y lo Hy _ IH]; intros a E.
    - cbn in E. subst hi. exists [], a. split; [reflexivity|]. split; [constructor|].
      apply Forall_app in Hhi. tauto.
    - destruct a as [|x a].
      + exists [], []. repeat split; constructor.
      + cbn in E. inversion E as [[Hxy H1]]; subst x.
        destruct (IH a H1) as (lo' & hi' & E' & Hlo' & Hhi'). subst a.
        exists (y :: lo'), hi'. split; [reflexivity|]. split; [constructor; assumption|assumption].
  Qed.

  Lemma mono_cons_false x l : mono (x :: l) -> mono l.
  Proof. change (x :: l) with ([x] ++ l). apply mono_app_r. Qed.

  (* an element that is false makes everything before it false *)
  Lemma mono_false_prefix a x b : mono (a ++ x :: b) -> pred x = false -> allf a.
  Proof.
    intros (lo & hi & E & Hlo & Hhi) Hx. revert lo E Hlo. induction a as [|y a IH]; intros lo E Hlo.
    - constructor.
    - destruct lo as [|z lo].
      + cbn in E. subst hi. inversion Hhi as [|? ? Hy Hrest]; subst.
        apply Forall_app in Hrest. destruct Hrest as [_ H2]. inversion H2; subst. congruence.
      + cbn in E. inversion E; subst. inversion Hlo; subst. constructor; [assumption|]. eapply IH; eauto.
  Qed.

  Lemma mono_true_suffix a x b : mono (a ++ x :: b) -> pred x = true -> allt b.
  Proof.
    intros (lo & hi & E & Hlo & Hhi) Hx. revert a E. induction Hlo as [|z lo Hz _ IH]; intros a E.
    - cbn in E. subst hi. apply Forall_app in Hhi. destruct Hhi as [_ H]. inversion H; assumption.
    - destruct a as [|y a]; cbn in E; inversion E; subst.
      + congruence.
      + eapply IH; eauto.
  Qed.

  Lemma mono_nfalse_split l : mono l -> allf (firstn (nfalse l) l) /\ allt (skipn (nfalse l) l).
  Proof.
    intros Hm. split; [apply firstn_nfalse_allf|].
    rewrite skipn_nfalse. induction l as [|x l IH]; cbn [drop_lt]; [constructor|].
    destruct (pred x) eqn:E.
    - constructor; [exact E|]. apply (mono_true_suffix [] x l Hm E).
    - apply IH. eapply mono_cons_false; eauto.
  Qed.

  (* sort.Search over a monotone list finds nfalse *)
  Lemma sort_search_mono l : mono l ->
    sort_search (length l) (fun i => match nth_error l i with Some x => pred x | None => true end) = nfalse l.
  Proof.
    intros Hm. unfold sort_search. destruct (mono_nfalse_split l Hm) as [Hf Ht].
    pose proof (nfalse_le l).
    apply search_fuel_mono; try lia.
    - intros x Hx.
      assert (E: nth_error l x = nth_error (firstn (nfalse l) l) x).
      { rewrite <- (firstn_skipn (nfalse l) l) at 1. rewrite nth_error_app1; [reflexivity|].
        rewrite firstn_length. lia. }
      rewrite E. destruct (nth_error (firstn (nfalse l) l) x) eqn:En.
      + apply nth_error_In in En. unfold allf in Hf. rewrite Forall_forall in Hf. auto.
      + apply nth_error_None in En. rewrite firstn_length in En. lia.
    - intros x Hx.
      assert (E: nth_error l x = nth_error (skipn (nfalse l) l) (x - nfalse l)).
      { rewrite <- (firstn_skipn (nfalse l) l) at 1. rewrite nth_error_app2; rewrite firstn_length; [|lia].
        f_equal. lia. }
      rewrite E. destruct (nth_error (skipn (nfalse l) l) (x - nfalse l)) eqn:En; [|reflexivity].
      apply nth_error_In in En. unfold allt in Ht. rewrite Forall_forall in Ht. auto.
  Qed.
End DropLt.

Arguments drop_lt {A}. Arguments nfalse {A}. Arguments mono {A}. Arguments allf {A}. Arguments allt {A}.
