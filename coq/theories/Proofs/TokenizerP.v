(* C16 / C05: the tokenizer model (Model/Tokenizer.v) never slices out of range and never
   uses up its iteration budget, for EVERY byte string: each iteration of tokenize()'s loop
   moves the index forward by at least one byte; and what it reports from a position on
   depends only on the bytes from that position on. *)
From Coq Require Import String Ascii ZArith List Bool Lia.
From SQ Require Import Model.Base Gen.ParserTables Gen.Lexer Model.SqlParse Model.Tokenizer.
Import ListNotations.
Open Scope Z_scope.

Lemma len_nonneg (s : list byte) : 0 <= len s.
Proof. unfold len. lia. Qed.
Lemma len_cons (c : byte) (s : list byte) : len (c :: s) = 1 + len s.
Proof. unfold len. cbn [length]. lia. Qed.
Lemma len_drop n (s : list byte) : 0 <= n <= len s -> len (drop n s) = len s - n.
Proof. unfold len, drop. intros H. rewrite skipn_length. lia. Qed.
Lemma len_take n (s : list byte) : 0 <= n <= len s -> len (take n s) = n.
Proof. unfold len, take. intros H. rewrite firstn_length. lia. Qed.

(* utf8.DecodeRuneInString consumes between 1 byte and the whole of a non-empty string *)
Lemma decode_rune_width s : s <> [] -> 1 <= snd (decode_rune s) <= len s.
Proof.
  destruct s as [|c0 r]; [congruence|]. intros _. unfold decode_rune.
  rewrite len_cons. pose proof (len_nonneg r) as Hr.
  destruct (b2z c0 <? 128); [cbn [snd]; lia|].
  destruct ((b2z c0 <? 194) || (244 <? b2z c0)); [cbn [snd]; lia|].
  destruct (b2z c0 <? 224).
  { destruct r as [|c1 r1]; [cbn [snd]; lia|]. rewrite len_cons in *. pose proof (len_nonneg r1).
    destruct (cont (b2z c1)); cbn [snd]; lia. }
  destruct (b2z c0 <? 240).
  { destruct r as [|c1 [|c2 r2]]; try (cbn [snd]; rewrite ?len_cons in *; unfold len in *; cbn [length] in *; lia).
    rewrite !len_cons. pose proof (len_nonneg r2).
    match goal with |- context [if ?b then _ else _] => destruct b end; cbn [snd]; lia. }
  destruct r as [|c1 [|c2 [|c3 r3]]]; try (cbn [snd]; rewrite ?len_cons in *; unfold len in *; cbn [length] in *; lia).
  rewrite !len_cons. pose proof (len_nonneg r3).
  match goal with |- context [if ?b then _ else _] => destruct b end; cbn [snd]; lia.
Qed.

(* `for i, r := range s`: the offsets lie inside the string, the first one is where the walk starts *)
Lemma runes_from_cons k off c r :
  runes_from (S k) off (c :: r) =
  (off, fst (decode_rune (c :: r))) :: runes_from k (off + snd (decode_rune (c :: r))) (drop (snd (decode_rune (c :: r))) (c :: r)).
Proof. cbn [runes_from]. destruct (decode_rune (c :: r)); reflexivity. Qed.

Lemma runes_from_bounds fuel : forall off s, Forall (fun p => off <= fst p < off + len s) (runes_from fuel off s).
Proof.
  induction fuel as [|k IH]; intros off s; [constructor|].
  destruct s as [|c r]; [constructor|]. rewrite runes_from_cons.
  pose proof (decode_rune_width (c :: r) ltac:(discriminate)) as Hw.
  constructor; [cbn [fst]; lia|].
  specialize (IH (off + snd (decode_rune (c :: r))) (drop (snd (decode_rune (c :: r))) (c :: r))). rewrite len_drop in IH by lia.
  eapply Forall_impl; [|exact IH]. intros p Hp. cbn beta in Hp. lia.
Qed.

Lemma runes_head s : s <> [] -> exists rest, runes s = (0, fst (decode_rune s)) :: rest /\
  Forall (fun p => snd (decode_rune s) <= fst p < len s) rest.
Proof.
  intros Hne. unfold runes. destruct s as [|c r]; [congruence|].
  change (length (c :: r)) with (S (length r)). rewrite runes_from_cons.
  pose proof (decode_rune_width (c :: r) Hne) as Hw.
  eexists. split; [reflexivity|].
  pose proof (runes_from_bounds (length r) (0 + snd (decode_rune (c :: r))) (drop (snd (decode_rune (c :: r))) (c :: r))) as H. rewrite len_drop in H by lia.
  eapply Forall_impl; [|exact H]. intros p Hp. cbn beta in Hp. lia.
Qed.

(* readBareword stops at one of the offsets it walked over, or at the end *)
Lemma bareword_end_range rs total lo : Forall (fun p => lo <= fst p < total) rs -> lo <= total ->
  lo <= bareword_end rs total <= total.
Proof.
  induction rs as [|[i r] rest IH]; intros HF Hlo; cbn [bareword_end]; [lia|].
  inversion HF as [|? ? Hh Ht]; subst. cbn [fst] in Hh.
  destruct (is_letter r || ((0 <? i) && is_digit r) || (r =? 95)); [apply IH; assumption|lia].
Qed.

Lemma read_bareword_len s : s <> [] -> let c := fst (decode_rune s) in is_letter c || (c =? 95) = true ->
  snd (decode_rune s) <= snd (read_bareword s) <= len s.
Proof.
  intros Hne c Hc. unfold read_bareword. cbn [snd].
  destruct (runes_head s Hne) as (rest & -> & HF). fold c. cbn [bareword_end].
  pose proof (decode_rune_width s Hne) as Hw.
  assert (Hacc : is_letter c || ((0 <? 0) && is_digit c) || (c =? 95) = true).
  { cbn [Z.ltb Z.compare andb]. rewrite orb_false_r. exact Hc. }
  rewrite Hacc. apply bareword_end_range; [exact HF|lia].
Qed.

Lemma num_scan_range rs total lo fl hx sg : Forall (fun p => lo <= fst p < total) rs -> lo <= total ->
  lo <= fst (fst (num_scan rs fl hx sg total)) <= total.
Proof.
  revert fl hx sg. induction rs as [|[i r] rest IH]; intros fl hx sg HF Hlo; cbn [num_scan]; [cbn [fst]; lia|].
  inversion HF as [|? ? Hh Ht]; subst. cbn [fst] in Hh.
  destruct (is_digit r); [apply IH; assumption|].
  destruct (((r =? 45) || (r =? 43)) && sg); [apply IH; assumption|].
  destruct ((r =? 120) || (r =? 88)); [apply IH; assumption|].
  destruct (r =? 46); [apply IH; assumption|].
  destruct ((r =? 101) || (r =? 69)); [apply IH; assumption|].
  cbn [fst]. lia.
Qed.

(* a numeric literal is at least one byte long *)
Lemma read_numeric_len s tk ln : s <> [] -> let c := fst (decode_rune s) in is_digit c || (c =? 46) = true ->
  read_numeric s = Some (tk, ln) -> 1 <= ln <= len s.
Proof.
  intros Hne c Hc. unfold read_numeric.
  destruct (runes_head s Hne) as (rest & -> & HF). fold c.
  pose proof (decode_rune_width s Hne) as Hw.
  assert (Hn : forall fl hx sg, snd (decode_rune s) <= fst (fst (num_scan ((0, c) :: rest) fl hx sg (len s))) <= len s).
  { intros fl hx sg. cbn [num_scan].
    destruct (is_digit c) eqn:Ed; [apply num_scan_range; [exact HF|lia]|].
    cbn [orb] in Hc. apply Z.eqb_eq in Hc.
    assert (E1 : ((c =? 45) || (c =? 43)) && sg = false) by (rewrite Hc; reflexivity).
    assert (E2 : (c =? 120) || (c =? 88) = false) by (rewrite Hc; reflexivity).
    assert (E3 : (c =? 46) = true) by (rewrite Hc; reflexivity).
    rewrite E1, E2, E3. apply num_scan_range; [exact HF|lia]. }
  specialize (Hn false false false).
  destruct (num_scan ((0, c) :: rest) false false false (len s)) as [[n fl] hx]. cbn [fst] in Hn.
  assert (Hl : len (take n s) = n) by (apply len_take; lia).
  destruct (hx && has_0x (take n s)).
  { destruct (parse_uint16 _); [|discriminate]. intros H. inversion H; subst. lia. }
  destruct fl.
  { destruct (parse_float _); [|discriminate]. intros H. inversion H; subst. lia. }
  destruct (parse_int10 _); [|discriminate]. intros H. inversion H; subst. lia.
Qed.

(* readOp on a non-empty string: one or two bytes, no slice out of range *)
Lemma read_op_ok s : s <> [] -> exists op, read_op s = Ok op /\ 1 <= len op <= 2.
Proof.
  intros Hne. unfold read_op. destruct (len s =? 1) eqn:E1.
  { apply Z.eqb_eq in E1. exists s. split; [reflexivity|lia]. }
  apply Z.eqb_neq in E1.
  destruct s as [|a [|b r]]; [congruence|rewrite len_cons in E1; unfold len in E1; cbn in E1; lia|].
  unfold slice_to. rewrite !len_cons. pose proof (len_nonneg r) as Hr.
  assert (G2 : (0 <=? 2) && (2 <=? 1 + (1 + len r)) = true) by (apply andb_true_iff; split; apply Z.leb_le; lia).
  assert (G1 : (0 <=? 1) && (1 <=? 1 + (1 + len r)) = true) by (apply andb_true_iff; split; apply Z.leb_le; lia).
  rewrite G2, G1. change (Z.to_nat 2) with 2%nat. change (Z.to_nat 1) with 1%nat. cbn [bind firstn].
  match goal with |- context [if ?b then _ else _] => destruct b end; eexists; (split; [reflexivity|]); unfold len; cbn [length]; lia.
Qed.

Lemma find_rune_range c rs lo hi : Forall (fun p => lo <= fst p < hi) rs -> forall i, find_rune c rs = Some i -> lo <= i < hi.
Proof.
  induction rs as [|[j r] rest IH]; intros HF i; cbn [find_rune]; [discriminate|].
  inversion HF as [|? ? Hh Ht]; subst. cbn [fst] in Hh.
  destruct (r =? c); [intros H; inversion H; subst; lia|apply IH; exact Ht].
Qed.

Lemma runes_range s : Forall (fun p => 0 <= fst p < len s) (runes s).
Proof. unfold runes. pose proof (runes_from_bounds (length s) 0 s) as H. eapply Forall_impl; [|exact H]. intros p Hp. cbn beta in Hp. lia. Qed.

(* readQuoted: no slice out of range, the recursion ends, and the length is -1 or at least 1 *)
Lemma read_quoted_ok fuel : forall close s esc, (length s < fuel)%nat ->
  exists bt bl, read_quoted fuel close s esc = Ok (bt, bl) /\ (bl = -1 \/ 1 <= bl <= len s).
Proof.
  induction fuel as [|k IH]; intros close s esc Hf; [lia|]. cbn [read_quoted].
  destruct (find_rune close (runes s)) as [i|] eqn:Ef; [|exists [], (-1); split; [reflexivity|left; reflexivity]].
  pose proof (find_rune_range close (runes s) 0 (len s) (runes_range s) i Ef) as Hi.
  destruct (esc && (i + 1 <? len s) && _) eqn:Ec.
  - apply andb_true_iff in Ec. destruct Ec as [Ec _]. apply andb_true_iff in Ec. destruct Ec as [_ Ec]. apply Z.ltb_lt in Ec.
    unfold slice_from, slice_to.
    assert (G1 : (0 <=? i + 2) && (i + 2 <=? len s) = true) by (apply andb_true_iff; split; apply Z.leb_le; lia).
    assert (G2 : (0 <=? i + 1) && (i + 1 <=? len s) = true) by (apply andb_true_iff; split; apply Z.leb_le; lia).
    rewrite G1, G2. cbn [bind].
    assert (Hlen : (length (skipn (Z.to_nat (i + 2)) s) < k)%nat) by (rewrite skipn_length; unfold len in *; lia).
    destruct (IH close (skipn (Z.to_nat (i + 2)) s) esc Hlen) as (bt & bl & -> & Hbl). cbn [bind fst snd].
    eexists _, _. split; [reflexivity|]. right.
    assert (Hl : len (skipn (Z.to_nat (i + 2)) s) = len s - (i + 2)) by (apply (len_drop (i + 2) s); lia).
    destruct Hbl as [->|Hbl]; lia.
  - unfold slice_to.
    assert (G : (0 <=? i) && (i <=? len s) = true) by (apply andb_true_iff; split; apply Z.leb_le; lia).
    rewrite G. cbn [bind]. eexists _, _. split; [reflexivity|]. right. lia.
Qed.

Definition tok_fine (o : tokout) : Prop := match o with TPanic | TFuel => False | _ => True end.

(* the loop of tokenize(): from any index, with a budget that covers the bytes left *)
Lemma tok_loop_total fuel : forall s i acc, 0 <= i -> Z.max 0 (len s - i) < Z.of_nat fuel -> tok_fine (tok_loop fuel s i acc).
Proof.
  induction fuel as [|k IH]; intros s i acc Hi Hf; [lia|].
  cbn [tok_loop]. destruct (len s <=? i) eqn:Ele; [exact I|]. apply Z.leb_gt in Ele.
  unfold slice_from at 1.
  assert (G : (0 <=? i) && (i <=? len s) = true) by (apply andb_true_iff; split; apply Z.leb_le; lia). rewrite G.
  set (si := skipn (Z.to_nat i) s).
  assert (Hsl : len si = len s - i) by (apply (len_drop i s); lia).
  assert (Hne : si <> []) by (intros E; rewrite E in Hsl; unfold len in Hsl at 1; cbn in Hsl; lia).
  pose proof (decode_rune_width si Hne) as Hw.
  destruct (decode_rune si) as [c l] eqn:Ed. cbn [snd] in Hw.
  assert (Hrec : forall i' acc', i + 1 <= i' -> tok_fine (tok_loop k s i' acc')) by (intros i' acc' Hi'; apply IH; lia).
  destruct (is_space c); [apply Hrec; lia|].
  destruct (is_letter c || (c =? 95)) eqn:Elet.
  { pose proof (read_bareword_len si Hne) as Hb. rewrite Ed in Hb. cbn [fst snd] in Hb. specialize (Hb Elet).
    destruct (read_bareword si) as [bt bl]. cbn [snd] in Hb. apply Hrec. lia. }
  destruct (is_digit c || (c =? 46)) eqn:Edig.
  { destruct (read_numeric si) as [[tk ln]|] eqn:En; [|exact I].
    pose proof (read_numeric_len si tk ln Hne) as Hn. rewrite Ed in Hn. cbn [fst] in Hn. specialize (Hn Edig En). apply Hrec. lia. }
  destruct (zin c op_chars).
  { destruct (read_op_ok si Hne) as (op & -> & Hop). apply Hrec. lia. }
  destruct (zin c single_chars); [apply Hrec; lia|].
  assert (Hq : forall close esc typ,
             tok_fine match slice_from s (i + 1) with
                      | Err _ => TPanic
                      | Ok rest => match read_quoted (S (length rest)) close rest esc with
                                   | Err EFuel => TFuel
                                   | Err _ => TPanic
                                   | Ok (bt, bl) => if bl =? -1 then TErr (rev acc) else tok_loop k s (i + bl + l) (stoken typ bt :: acc)
                                   end
                      end).
  { intros close esc typ. unfold slice_from.
    assert (G1 : (0 <=? i + 1) && (i + 1 <=? len s) = true) by (apply andb_true_iff; split; apply Z.leb_le; lia). rewrite G1.
    destruct (read_quoted_ok (S (length (skipn (Z.to_nat (i + 1)) s))) close (skipn (Z.to_nat (i + 1)) s) esc ltac:(lia)) as (bt & bl & -> & Hbl).
    destruct (bl =? -1) eqn:Eb; [exact I|]. apply Z.eqb_neq in Eb. apply Hrec. lia. }
  destruct (zin c literal_chars); [apply Hq|].
  destruct (zin c ident_chars); [apply Hq|]. exact I.
Qed.

(* for EVERY byte string: tokenize returns tokens or an error; it never slices out of range
   and its loop ends within len(s) + 1 iterations *)
Theorem tokenize_total s : tok_fine (tokenize s).
Proof. unfold tokenize. apply tok_loop_total; [lia|unfold len; lia]. Qed.

(* locality at the level of tokens: from index i on, the loop behaves as it does from index 0 of
   the string with the first i bytes cut off - same budget, same tokens collected so far *)
Lemma skipn_skipn_nat {A} (b : nat) : forall (a : nat) (l : list A), skipn a (skipn b l) = skipn (b + a) l.
Proof.
  induction b as [|b IH]; intros a l; [reflexivity|].
  destruct l as [|x r]; [rewrite !skipn_nil; reflexivity|]. cbn [skipn Nat.add]. apply IH.
Qed.
Lemma drop_drop (i j : Z) (s : list byte) : 0 <= i -> 0 <= j -> drop j (drop i s) = drop (i + j) s.
Proof. intros Hi Hj. unfold drop. rewrite skipn_skipn_nat. f_equal. lia. Qed.

Lemma slice_from_drop s i j : 0 <= i -> 0 <= j -> i <= len s -> slice_from s (i + j) = slice_from (drop i s) j.
Proof.
  intros Hi Hj Hle. unfold slice_from. rewrite (len_drop i s) by lia.
  assert (E : (0 <=? i + j) && (i + j <=? len s) = (0 <=? j) && (j <=? len s - i)).
  { destruct (i + j <=? len s) eqn:E1, (j <=? len s - i) eqn:E2; rewrite ?Z.leb_le, ?Z.leb_gt in *; try lia;
      (replace (0 <=? i + j) with true by (symmetry; apply Z.leb_le; lia)); (replace (0 <=? j) with true by (symmetry; apply Z.leb_le; lia)); reflexivity. }
  rewrite E. destruct ((0 <=? j) && (j <=? len s - i)); [|reflexivity].
  f_equal. symmetry. apply (drop_drop i j s); assumption.
Qed.

Lemma read_bareword_nonneg s : 0 <= snd (read_bareword s).
Proof.
  unfold read_bareword. cbn [snd]. pose proof (len_nonneg s).
  apply (bareword_end_range (runes s) (len s) 0); [apply runes_range|lia].
Qed.

Theorem tok_loop_suffix fuel : forall s i j acc, 0 <= i -> 0 <= j -> i <= len s ->
  tok_loop fuel s (i + j) acc = tok_loop fuel (drop i s) j acc.
Proof.
  induction fuel as [|k IH]; intros s i j acc Hi Hj Hle; [reflexivity|]. cbn [tok_loop].
  rewrite (len_drop i s) by lia.
  replace (len s <=? i + j) with (len s - i <=? j) by (destruct (len s - i <=? j) eqn:E1, (len s <=? i + j) eqn:E2; rewrite ?Z.leb_le, ?Z.leb_gt in *; lia || reflexivity).
  destruct (len s - i <=? j) eqn:Ele; [reflexivity|]. apply Z.leb_gt in Ele.
  rewrite (slice_from_drop s i j Hi Hj Hle).
  set (si := drop j (drop i s)).
  assert (Hsf : slice_from (drop i s) j = Ok si).
  { unfold slice_from. rewrite (len_drop i s) by lia.
    assert (G : (0 <=? j) && (j <=? len s - i) = true) by (apply andb_true_iff; split; apply Z.leb_le; lia). rewrite G. reflexivity. }
  rewrite Hsf.
  assert (Hsl : len si = len s - i - j).
  { unfold si. rewrite (len_drop j (drop i s)); rewrite (len_drop i s); lia. }
  assert (Hne : si <> []) by (intros E; rewrite E in Hsl; unfold len in Hsl at 1; cbn in Hsl; lia).
  pose proof (decode_rune_width si Hne) as Hw.
  destruct (decode_rune si) as [c l] eqn:Ed. cbn [snd] in Hw.
  assert (Hrec : forall d acc', 0 <= j + d -> tok_loop k s (i + j + d) acc' = tok_loop k (drop i s) (j + d) acc').
  { intros d acc' Hd. replace (i + j + d) with (i + (j + d)) by lia. apply IH; lia. }
  destruct (is_space c); [apply Hrec; lia|].
  destruct (is_letter c || (c =? 95)).
  { pose proof (read_bareword_nonneg si) as Hb. destruct (read_bareword si) as [bt bl]. cbn [snd] in Hb.
    replace (i + j + (bl - l) + l) with (i + j + bl) by lia. replace (j + (bl - l) + l) with (j + bl) by lia. apply Hrec. lia. }
  destruct (is_digit c || (c =? 46)).
  { destruct (read_numeric si) as [[tk ln]|] eqn:En; [|reflexivity].
    assert (Hln : 0 <= ln).
    { unfold read_numeric in En. destruct (num_scan _ _ _ _ _) as [[n fl] hx].
      pose proof (len_nonneg (take n si)).
      destruct (hx && has_0x (take n si)); [destruct (parse_uint16 _); inversion En; subst; assumption|].
      destruct fl; [destruct (parse_float _); inversion En; subst; assumption|destruct (parse_int10 _); inversion En; subst; assumption]. }
    replace (i + j + (ln - 1) + l) with (i + j + (ln - 1 + l)) by lia. replace (j + (ln - 1) + l) with (j + (ln - 1 + l)) by lia. apply Hrec. lia. }
  destruct (zin c op_chars).
  { destruct (read_op si) as [op|e]; [|reflexivity]. pose proof (len_nonneg op).
    replace (i + j + (len op - 1) + l) with (i + j + (len op - 1 + l)) by lia. replace (j + (len op - 1) + l) with (j + (len op - 1 + l)) by lia. apply Hrec. lia. }
  destruct (zin c single_chars); [apply Hrec; lia|].
  assert (Hq : forall close esc typ,
             match slice_from s (i + j + 1) with
             | Err _ => TPanic
             | Ok rest => match read_quoted (S (length rest)) close rest esc with
                          | Err EFuel => TFuel
                          | Err _ => TPanic
                          | Ok (bt, bl) => if bl =? -1 then TErr (rev acc) else tok_loop k s (i + j + bl + l) (stoken typ bt :: acc)
                          end
             end =
             match slice_from (drop i s) (j + 1) with
             | Err _ => TPanic
             | Ok rest => match read_quoted (S (length rest)) close rest esc with
                          | Err EFuel => TFuel
                          | Err _ => TPanic
                          | Ok (bt, bl) => if bl =? -1 then TErr (rev acc) else tok_loop k (drop i s) (j + bl + l) (stoken typ bt :: acc)
                          end
             end).
  { intros close esc typ. replace (i + j + 1) with (i + (j + 1)) by lia. rewrite (slice_from_drop s i (j + 1)) by lia.
    destruct (slice_from (drop i s) (j + 1)) as [rest|e]; [|reflexivity].
    destruct (read_quoted_ok (S (length rest)) close rest esc ltac:(lia)) as (bt & bl & -> & Hbl).
    destruct (bl =? -1) eqn:Eb; [reflexivity|]. apply Z.eqb_neq in Eb.
    replace (i + j + bl + l) with (i + j + (bl + l)) by lia. replace (j + bl + l) with (j + (bl + l)) by lia. apply Hrec. lia. }
  destruct (zin c literal_chars); [apply Hq|].
  destruct (zin c ident_chars); [apply Hq|]. reflexivity.
Qed.

(* the tokens collected so far are only ever prepended to *)
Definition tok_prepend (pre : list token) (o : tokout) : tokout :=
  match o with TOk l => TOk (pre ++ l) | TErr l => TErr (pre ++ l) | x => x end.

Theorem tok_loop_acc fuel : forall s i acc, tok_loop fuel s i acc = tok_prepend (rev acc) (tok_loop fuel s i []).
Proof.
  induction fuel as [|k IH]; intros s i acc; [reflexivity|]. cbn [tok_loop].
  destruct (len s <=? i); [cbn [tok_prepend rev]; rewrite app_nil_r; reflexivity|].
  destruct (slice_from s i) as [si|e]; [|reflexivity].
  destruct (decode_rune si) as [c l].
  assert (Hstep : forall i' t, tok_loop k s i' (t :: acc) = tok_prepend (rev acc) (tok_loop k s i' [t])).
  { intros i' t. rewrite (IH s i' (t :: acc)), (IH s i' [t]). cbn [rev app].
    destruct (tok_loop k s i' []); cbn [tok_prepend]; rewrite <- ?app_assoc; reflexivity. }
  destruct (is_space c); [apply IH|].
  destruct (is_letter c || (c =? 95)); [destruct (read_bareword si); apply Hstep|].
  destruct (is_digit c || (c =? 46)).
  { destruct (read_numeric si) as [[tk ln]|]; [apply Hstep|cbn [tok_prepend rev app]; rewrite app_nil_r; reflexivity]. }
  destruct (zin c op_chars); [destruct (read_op si); [apply Hstep|reflexivity]|].
  destruct (zin c single_chars); [apply Hstep|].
  assert (Hq : forall close esc typ,
             match slice_from s (i + 1) with
             | Err _ => TPanic
             | Ok rest => match read_quoted (S (length rest)) close rest esc with
                          | Err EFuel => TFuel
                          | Err _ => TPanic
                          | Ok (bt, bl) => if bl =? -1 then TErr (rev acc) else tok_loop k s (i + bl + l) (stoken typ bt :: acc)
                          end
             end =
             tok_prepend (rev acc)
             match slice_from s (i + 1) with
             | Err _ => TPanic
             | Ok rest => match read_quoted (S (length rest)) close rest esc with
                          | Err EFuel => TFuel
                          | Err _ => TPanic
                          | Ok (bt, bl) => if bl =? -1 then TErr (rev []) else tok_loop k s (i + bl + l) [stoken typ bt]
                          end
             end).
  { intros close esc typ. destruct (slice_from s (i + 1)) as [rest|e]; [|reflexivity].
    destruct (read_quoted _ close rest esc) as [[bt bl]|[]]; try reflexivity.
    destruct (bl =? -1); [cbn [tok_prepend rev app]; rewrite app_nil_r; reflexivity|apply Hstep]. }
  destruct (zin c literal_chars); [apply Hq|].
  destruct (zin c ident_chars); [apply Hq|]. reflexivity.
Qed.
