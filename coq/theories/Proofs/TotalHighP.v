(* C05 for the high level API (Model/High.v: Select, SelectRowid, IndexedSelect,
   IndexedSelectEq, PKSelect): for every byte string as a database file, every
   page size, EVERY schema record - consistent with the file or not, hostile
   or not - every table / index / column name, key and non-panicking callback,
   the outcome is rows and/or an ordinary error: never a panic, never a
   divergence. *)
From SQ Require Import Model.Base Model.Varint Model.Record Model.Payload Model.Btree
     Model.Page Model.Cmp Model.Low Model.High Proofs.PayloadP Proofs.TotalP Proofs.TotalLowP.
From Coq Require Import ZifyBool ZifyNat.

Lemma column_idx_range cols n : forall i r, column_idx cols n i = r -> r = -1 \/ (i <= r < i + Z.of_nat (length cols)).
Proof.
  induction cols as [|c cols IH]; intros i r H; cbn [column_idx] in H; [left; lia|].
  destruct (beq (tc_name c) n); [right; cbn [length]; lia|].
  destruct (IH (i + 1) r H) as [->|G]; [left; reflexivity|right; cbn [length]; lia].
Qed.

Lemma np_bind {A B} (x : res A) (f : A -> res B) : np x -> (forall a, np (f a)) -> np (bind x f).
Proof. intros Hx Hf. destruct x as [a|e]; cbn [bind]; [apply Hf|exact Hx]. Qed.

Lemma to_ci_rowid_np sc columns : np (to_ci_rowid sc columns).
Proof.
  induction columns as [|c rest IH]; cbn [to_ci_rowid]; [reflexivity|].
  apply np_bind.
  - destruct (column_idx (s_cols sc) (ascii_lower c) 0 <? 0) eqn:E.
    + destruct (_ || _); reflexivity.
    + apply Z.ltb_ge in E.
      destruct (column_idx_range (s_cols sc) (ascii_lower c) 0 _ eq_refl) as [G|G]; [lia|].
      destruct (nth_error (s_cols sc) (Z.to_nat (column_idx (s_cols sc) (ascii_lower c) 0))) as [col|] eqn:En.
      * destruct (tc_rowid col); reflexivity.
      * exfalso. apply nth_error_None in En. lia.
  - intros x. apply np_bind; [exact IH|]. intros xs. reflexivity.
Qed.

Lemma to_ci_nonrowid_np sc columns : np (to_ci_nonrowid sc columns).
Proof.
  unfold to_ci_nonrowid, store_order. cbn [bind].
  set (stored := map (fun c => name_pos (store_names sc) (tc_name c) 0) (s_cols sc)).
  assert (Hl : length stored = length (s_cols sc)) by (unfold stored; apply map_length).
  induction columns as [|c rest IH]; [reflexivity|].
  destruct (column_idx (s_cols sc) (ascii_lower c) 0 <? 0) eqn:E; [reflexivity|]. apply Z.ltb_ge in E.
  destruct (column_idx_range (s_cols sc) (ascii_lower c) 0 _ eq_refl) as [G|G]; [lia|].
  destruct (nth_error (s_cols sc) (Z.to_nat (column_idx (s_cols sc) (ascii_lower c) 0))) as [col|] eqn:En;
    [|exfalso; apply nth_error_None in En; lia].
  destruct (nth_error stored (Z.to_nat (column_idx (s_cols sc) (ascii_lower c) 0))) as [pos|] eqn:Ep;
    [|exfalso; apply nth_error_None in Ep; lia].
  apply np_bind; [exact IH|]. intros xs. reflexivity.
Qed.

Lemma as_dbkey_np k : forall cols, np (as_dbkey k cols).
Proof.
  induction k as [|v k IH]; intros cols; cbn [as_dbkey]; [reflexivity|].
  destruct cols as [|c cols]; [reflexivity|].
  apply np_bind.
  - destruct (ic_coll c); [reflexivity|]. destruct (coll_of_name _); reflexivity.
  - intros coll. apply np_bind; [apply IH|]. intros rest. reflexivity.
Qed.

Lemma as_dbkey_length k : forall cols dk, as_dbkey k cols = Ok dk -> length dk = length k.
Proof.
  induction k as [|v k IH]; intros cols dk H; cbn [as_dbkey] in H; [inversion H; reflexivity|].
  destruct cols as [|c cols]; [discriminate|].
  destruct (match ic_coll c with [] => Ok CBinary | _ => _ end) as [coll|e]; cbn [bind] in H; [|discriminate].
  destruct (as_dbkey k cols) as [rest|e] eqn:Er; cbn [bind] in H; [|discriminate].
  inversion H; subst. cbn [length]. f_equal. eapply IH; eassumption.
Qed.

Lemma pk_columns_length pk : forall indcols, length (pk_columns pk indcols) = length pk.
Proof.
  induction pk as [|c pk IH]; intros indcols; cbn [pk_columns length]; [reflexivity|].
  destruct (find_icol indcols c 0); cbn [length]; f_equal; apply IH.
Qed.

Lemma set_key_np r : forall idx k, (length idx <= length k)%nat -> np (set_key r idx k).
Proof.
  induction idx as [|v idx IH]; intros k Hl; cbn [set_key]; [reflexivity|].
  destruct k as [|kc k]; [cbn in Hl; lia|].
  destruct (Z.of_nat (length r) <=? v); [reflexivity|].
  apply np_bind; [apply IH; cbn in Hl; lia|]. intros rest. reflexivity.
Qed.

Section ImageHigh.
  Variable img : list byte.
  Variable U : Z.
  Hypothesis HU : 512 <= U.
  Let pg := image_pager img U.
  Let n := image_pages img U.
  Let op := openp pg U.
  Variable S : Type.
  Variable cb : row -> S -> flow * S.
  Hypothesis Hcb : forall r s, fl_ok (cb r s).

  Lemma failing_ok {A} (x : res A) s (k : A -> flow * S) : np x -> (forall a, fl_ok (k a)) -> fl_ok (failing S x s k).
  Proof.
    intros Hx Hk. destruct x as [a|e]; cbn [failing]; [apply Hk|].
    unfold fl_ok. cbn [fst]. destruct e; try exact I; discriminate Hx.
  Qed.

  Lemma fail_ok e (s : S) : (e <> EPanic) -> (e <> EFuel) -> fl_ok (Fail e, s).
  Proof. intros A B. unfold fl_ok. cbn [fst]. destruct e; try exact I; congruence. Qed.

  Lemma with_master_ok s (k : list master_row -> flow * S) : (forall ms, fl_ok (k ms)) -> fl_ok (with_master pg op n S s k).
  Proof.
    intros Hk. unfold with_master. pose proof (image_master_ok img U HU) as Hm. fold pg n op in Hm.
    destruct (master pg op n) as [[| |e] ms]; [apply Hk|apply Hk|].
    unfold fl_ok in *. cbn [fst] in *. exact Hm.
  Qed.

  Lemma find_root_np ms typ name : np (find_root ms typ name).
  Proof. unfold find_root. destruct (find _ ms); reflexivity. Qed.

  Lemma table_rowid_np' root rowid : np (table_rowid pg op n root rowid).
  Proof. exact (image_table_rowid_np img U HU root rowid). Qed.

  Lemma select_rowid_np sc ms table rowid columns : np (select_rowid_ pg op n sc ms table rowid columns).
  Proof.
    unfold select_rowid_. apply np_bind; [apply to_ci_rowid_np|]. intros ci.
    apply np_bind; [apply find_root_np|]. intros root.
    apply np_bind; [apply table_rowid_np'|]. intros [rec|]; reflexivity.
  Qed.

  Lemma via_rowid_ok ci troot r s : fl_ok (via_rowid pg op n S cb ci troot r s).
  Proof.
    unfold via_rowid. destruct (chomp_rowid r) as [[rowid rest]|e] eqn:Ec.
    - pose proof (table_rowid_np' troot rowid) as Ht.
      destruct (table_rowid pg op n troot rowid) as [[rec|]|e]; [apply Hcb|apply fail_ok; discriminate|].
      unfold fl_ok. cbn [fst]. destruct e; try exact I; discriminate Ht.
    - unfold chomp_rowid in Ec. destruct (rev r) as [|[] ?]; try discriminate; inversion Ec; subst; apply fail_ok; discriminate.
  Qed.

  Lemma via_pk_ok ci troot cols pk r s : (length cols <= length pk)%nat -> fl_ok (via_pk pg op n S cb ci troot cols pk r s).
  Proof.
    intros Hl. unfold via_pk. pose proof (set_key_np r cols pk Hl) as Hs.
    destruct (set_key r cols pk) as [pk'|e]; [|unfold fl_ok; cbn [fst]; destruct e; try exact I; discriminate Hs].
    pose proof (image_index_scan_eq_ok img U HU (option record) troot pk' (fun row _ => (Stop, nonempty row)) None
                  ltac:(intros; exact I)) as He. fold pg n op in He.
    destruct (index_scan_eq pg op n (option record) troot pk' _ None) as [[| |e] [found|]]; try apply Hcb; try (apply fail_ok; discriminate).
    all: unfold fl_ok in *; cbn [fst] in *; exact He.
  Qed.

  Theorem h_select_ok sc table columns s : fl_ok (h_select pg op n S cb sc table columns s).
  Proof.
    unfold h_select. apply with_master_ok. intros ms. destruct (s_worowid sc).
    - apply failing_ok; [apply to_ci_nonrowid_np|]. intros ci. apply failing_ok; [apply find_root_np|]. intros root.
      apply (image_index_scan_ok img U HU). intros; apply Hcb.
    - apply failing_ok; [apply to_ci_rowid_np|]. intros ci. apply failing_ok; [apply find_root_np|]. intros root.
      apply (image_table_scan_ok img U HU). intros; apply Hcb.
  Qed.

  Theorem h_select_rowid_ok sc table rowid columns s : fl_ok (h_select_rowid pg op n S cb sc table rowid columns s).
  Proof.
    unfold h_select_rowid. apply with_master_ok. intros ms. destruct (s_worowid sc); [apply fail_ok; discriminate|].
    apply failing_ok; [apply select_rowid_np|]. intros [rw|]; [apply Hcb|exact I].
  Qed.

  Lemma pk_key_lengths sc ind pk : as_dbkey (null_key (length (s_pk sc))) (s_pk sc) = Ok pk ->
    (length (pk_columns (s_pk sc) (si_cols ind)) <= length pk)%nat.
  Proof.
    intros H. rewrite pk_columns_length. rewrite (as_dbkey_length _ _ _ H). unfold null_key. rewrite repeat_length. lia.
  Qed.

  Theorem h_indexed_select_ok sc table iname columns s : fl_ok (h_indexed_select pg op n S cb sc table iname columns s).
  Proof.
    unfold h_indexed_select. apply with_master_ok. intros ms.
    destruct (find_index sc iname) as [ind|]; [|apply fail_ok; discriminate].
    destruct (s_worowid sc).
    - apply failing_ok; [apply to_ci_nonrowid_np|]. intros ci. apply failing_ok; [apply find_root_np|]. intros troot.
      apply failing_ok; [apply find_root_np|]. intros iroot.
      destruct (as_dbkey (null_key (length (s_pk sc))) (s_pk sc)) as [pk|e] eqn:Ek.
      + cbn [failing]. apply (image_index_scan_ok img U HU). intros r s0. apply via_pk_ok. eapply pk_key_lengths; eassumption.
      + cbn [failing]. pose proof (as_dbkey_np (null_key (length (s_pk sc))) (s_pk sc)) as Hn. rewrite Ek in Hn.
        unfold fl_ok. cbn [fst]. destruct e; try exact I; discriminate Hn.
    - apply failing_ok; [apply to_ci_rowid_np|]. intros ci. apply failing_ok; [apply find_root_np|]. intros troot.
      apply failing_ok; [apply find_root_np|]. intros iroot.
      apply (image_index_scan_ok img U HU). intros r s0. apply via_rowid_ok.
  Qed.

  Lemma indexed_select_eq_ok sc ms table ind dbkey columns s : fl_ok (indexed_select_eq_ pg op n S cb sc ms table ind dbkey columns s).
  Proof.
    unfold indexed_select_eq_. apply failing_ok; [apply to_ci_rowid_np|]. intros ci. apply failing_ok; [apply find_root_np|]. intros troot.
    apply failing_ok; [apply find_root_np|]. intros iroot.
    apply (image_index_scan_eq_ok img U HU). intros r s0. apply via_rowid_ok.
  Qed.

  Theorem h_indexed_select_eq_ok sc table iname k columns s : fl_ok (h_indexed_select_eq pg op n S cb sc table iname k columns s).
  Proof.
    unfold h_indexed_select_eq. apply with_master_ok. intros ms.
    destruct (find_index sc iname) as [ind|]; [|apply fail_ok; discriminate].
    apply failing_ok; [apply as_dbkey_np|]. intros dbkey.
    destruct (s_worowid sc); [|apply indexed_select_eq_ok].
    apply failing_ok; [apply to_ci_nonrowid_np|]. intros ci. apply failing_ok; [apply find_root_np|]. intros troot.
    apply failing_ok; [apply find_root_np|]. intros iroot.
    destruct (as_dbkey (null_key (length (s_pk sc))) (s_pk sc)) as [pk|e] eqn:Ek.
    - cbn [failing]. apply (image_index_scan_eq_ok img U HU). intros r s0. apply via_pk_ok. eapply pk_key_lengths; eassumption.
    - cbn [failing]. pose proof (as_dbkey_np (null_key (length (s_pk sc))) (s_pk sc)) as Hn. rewrite Ek in Hn.
      unfold fl_ok. cbn [fst]. destruct e; try exact I; discriminate Hn.
  Qed.

  Theorem h_pk_select_ok sc table k columns s : fl_ok (h_pk_select pg op n S cb sc table k columns s).
  Proof.
    unfold h_pk_select. apply with_master_ok. intros ms. destruct (s_worowid sc).
    - apply failing_ok; [apply to_ci_nonrowid_np|]. intros ci. apply failing_ok; [apply find_root_np|]. intros troot.
      apply failing_ok; [apply as_dbkey_np|]. intros dbkey.
      apply (image_index_scan_eq_ok img U HU). intros; apply Hcb.
    - destruct (s_rowidpk sc).
      + destruct k as [|[] k']; try (apply fail_ok; discriminate).
        apply failing_ok; [apply select_rowid_np|]. intros [rw|]; [apply Hcb|exact I].
      + destruct (match s_pkname sc with [] => None | _ => _ end) as [ind|]; [|apply fail_ok; discriminate].
        apply failing_ok; [apply as_dbkey_np|]. intros dbkey. apply indexed_select_eq_ok.
  Qed.
End ImageHigh.
