(* The byte offsets the model's parse_header / valid_journal read (Model/Header.v: fld b off n) are the offsets of the
   fields of the structs the source decodes the headers into (Gen/Layout.v, translated from db/database.go and
   db/journal.go on every build), with the same widths, signedness and byte order. *)
From SQ Require Import Model.Base Model.Header Gen.Layout.
From Coq Require Import String.
Open Scope string_scope.

Definition go_field (l : list (string * (Z * Z * bool))) (name : string) : option (Z * Z * bool) :=
  match find (fun p => String.eqb (fst p) name) l with Some (_, x) => Some x | None => None end.

(* what Model/Header.v reads: field name, offset, width, signed *)
Definition model_header_reads : list (string * (Z * Z * bool)) :=
  [("Magic", (0, 16, false)); ("PageSize", (16, 2, false)); ("ReadVersion", (19, 1, false));
   ("ReservedSpace", (20, 1, false)); ("MaxFraction", (21, 1, false)); ("MinFraction", (22, 1, false));
   ("LeafFraction", (23, 1, false)); ("ChangeCounter", (24, 4, false)); ("SchemaCookie", (40, 4, false));
   ("SchemaFormat", (44, 4, false)); ("TextEncoding", (56, 4, false)); ("ReservedForExpansion", (72, 20, false))]%Z.
Definition model_journal_reads : list (string * (Z * Z * bool)) :=
  [("Magic", (0, 8, false)); ("SectorSize", (20, 4, true))]%Z.

Theorem header_layout :
  go_header_struct_size = 100%Z /\
  forall name x, In (name, x) model_header_reads -> go_field go_header_fields name = Some x.
Proof.
  split; [reflexivity|]. intros name x H. cbn [model_header_reads In] in H.
  repeat (destruct H as [H|H]; [inversion H; subst; vm_compute; reflexivity|]). contradiction.
Qed.

(* every named field of the source's struct is one the model reads: nothing the source looks at is missing from the model *)
Theorem header_fields_all_modelled : map fst go_header_fields = map fst model_header_reads.
Proof. vm_compute. reflexivity. Qed.

Theorem journal_layout :
  (go_journal_struct_size <= 28)%Z /\
  map fst go_journal_fields = map fst model_journal_reads /\
  forall name x, In (name, x) model_journal_reads -> go_field go_journal_fields name = Some x.
Proof.
  split; [vm_compute; discriminate|]. split; [vm_compute; reflexivity|]. intros name x H. cbn [model_journal_reads In] in H.
  repeat (destruct H as [H|H]; [inversion H; subst; vm_compute; reflexivity|]). contradiction.
Qed.

(* validJournal's own tests as translated: the 28 bytes read up front, the sanity test on the sector size, the rest of the first sector that must
   be readable - the model's valid_journal is exactly these, on the model's reading of the header *)
Theorem valid_journal_source j :
  valid_journal j =
  if (len j <? go_journal_header_bytes)%Z then false
  else if negb (forallb (fun p => (b2z (fst p) =? snd p)%Z) (combine (take 8 j) journal_magic)) then false
  else let ss := twos 32 (fld j 20 4) in
       if go_journal_sector_refused ss then false
       else (go_journal_header_bytes + go_journal_rest_bytes ss go_journal_header_bytes <=? len j)%Z.
Proof.
  unfold valid_journal, go_journal_header_bytes, go_journal_sector_refused, go_journal_rest_bytes.
  change (Z.shiftl 1 16) with 65536%Z.
  destruct (len j <? 28)%Z; [reflexivity|]. destruct (negb _); [reflexivity|]. cbv zeta.
  rewrite !Bool.orb_false_r.
  destruct ((twos 32 (fld j 20 4) <? 512) || (65536 <? twos 32 (fld j 20 4)))%Z%bool; [reflexivity|].
  replace (28 + (twos 32 (fld j 20 4) - 28))%Z with (twos 32 (fld j 20 4)) by ring. reflexivity.
Qed.
