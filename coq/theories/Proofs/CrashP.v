(* C09: at every crash point of the rollback-journal protocol, a database file
   that is neither the pre- nor the post-image is accompanied by a journal the
   reader recognises as hot. *)
From SQ Require Import Model.Base Model.Header Model.Crash Proofs.BaseP Proofs.HeaderP.
From Coq Require Import ZifyBool ZifyNat.

Lemma take_app_le a b n : 0 <= n <= len a -> take n (a ++ b) = take n a.
Proof. intros H. unfold take, len in *. rewrite firstn_app. replace (Z.to_nat n - length a)%nat with 0%nat by lia. cbn [firstn]. apply app_nil_r. Qed.

Lemma drop_app_le a b n : 0 <= n <= len a -> drop n (a ++ b) = drop n a ++ b.
Proof. intros H. unfold drop, len in *. rewrite skipn_app. replace (Z.to_nat n - length a)%nat with 0%nat by lia. reflexivity. Qed.

Lemma len_drop a n : 0 <= n <= len a -> len (drop n a) = len a - n.
Proof. intros H. unfold drop, len in *. rewrite skipn_length. lia. Qed.

Lemma fld_app a b off n : 0 <= off -> 0 <= n -> off + n <= len a -> fld (a ++ b) off n = fld a off n.
Proof.
  intros Ho Hn H. unfold fld. rewrite drop_app_le by lia. rewrite take_app_le; [reflexivity|]. rewrite len_drop by lia. lia.
Qed.

Lemma valid_app j bs : valid_journal j = true -> valid_journal (j ++ bs) = true.
Proof.
  unfold valid_journal. rewrite len_app. pose proof (len_nonneg bs).
  destruct (len j <? 28) eqn:E; [discriminate|]. destruct (len j + len bs <? 28) eqn:E2; [lia|].
  rewrite (take_app_le j bs 8) by lia. destruct (forallb _ _); cbn [negb]; [|discriminate].
  rewrite (fld_app j bs 20 4) by lia.
  destruct ((twos 32 (fld j 20 4) <? 512) || (65536 <? twos 32 (fld j 20 4))); [discriminate|]. lia.
Qed.

(* what validJournal looks at: the first 28 bytes and the length *)
Lemma valid_ext j j' : firstn 28 j' = firstn 28 j -> len j <= len j' -> valid_journal j = true -> valid_journal j' = true.
Proof.
  intros Hp Hl. unfold valid_journal.
  destruct (len j <? 28) eqn:E; [discriminate|]. destruct (len j' <? 28) eqn:E'; [lia|].
  assert (T8: take 8 j' = take 8 j).
  { unfold take. change (Z.to_nat 8) with 8%nat. apply list_ext. intros i. rewrite !ne_firstn. destruct (Nat.ltb_spec i 8); [|reflexivity].
    assert (G: forall l : list byte, nth_error l i = nth_error (firstn 28 l) i) by (intros l; rewrite ne_firstn; destruct (Nat.ltb_spec i 28); [reflexivity|lia]).
    rewrite (G j'), (G j), Hp. reflexivity. }
  assert (F: fld j' 20 4 = fld j 20 4).
  { apply fld_eq; try lia. intros i Hi. change (Z.to_nat 20) with 20%nat in Hi. change (Z.to_nat 4) with 4%nat in Hi.
    assert (G: forall l : list byte, nth_error l i = nth_error (firstn 28 l) i) by (intros l; rewrite ne_firstn; destruct (Nat.ltb_spec i 28); [reflexivity|lia]).
    rewrite (G j'), (G j), Hp. reflexivity. }
  rewrite T8, F. destruct (forallb _ _); cbn [negb]; [|discriminate].
  destruct ((twos 32 (fld j 20 4) <? 512) || (65536 <? twos 32 (fld j 20 4))); [discriminate|]. lia.
Qed.

Lemma valid_patch j off bs : (28 <= off)%nat -> valid_journal j = true -> valid_journal (patch j off bs) = true.
Proof.
  intros Ho Hv. assert (H28: 28 <= len j).
  { unfold valid_journal in Hv. destruct (len j <? 28) eqn:E; [discriminate|lia]. }
  apply (valid_ext j); [| |exact Hv]; unfold patch, len in *.
  - rewrite firstn_app. rewrite firstn_firstn. replace (Nat.min 28 off) with 28%nat by lia.
    rewrite firstn_length, app_length, repeat_length.
    replace (28 - Nat.min off (length j + (off - length j)))%nat with 0%nat by lia. rewrite firstn_O, app_nil_r.
    rewrite firstn_app. replace (28 - length j)%nat with 0%nat by lia. rewrite firstn_O, app_nil_r. reflexivity.
  - rewrite !app_length, firstn_length, app_length, repeat_length, skipn_length. lia.
Qed.

Lemma magic_len : length magic_bytes = 8%nat.
Proof. reflexivity. Qed.

Lemma magic_ok_self rest : forallb (fun p => b2z (fst p) =? snd p) (combine (take 8 (magic_bytes ++ rest)) journal_magic) = true.
Proof. unfold take. change (Z.to_nat 8) with 8%nat. rewrite firstn_app_exact by reflexivity. vm_compute. reflexivity. Qed.

(* the header sector with the magic and record count filled in is hot *)
Lemma hot_after_magic sector rest nrec : sector_ok sector -> length nrec = 4%nat ->
  valid_journal (overwrite (sector ++ rest) (magic_bytes ++ nrec)) = true.
Proof.
  intros (Hs & Hl & H28) Hn. unfold overwrite. rewrite app_length, magic_len, Hn. cbn [Nat.add].
  set (tail := skipn 12 (sector ++ rest)).
  assert (Ht: tail = skipn 12 sector ++ rest).
  { unfold tail. rewrite skipn_app. unfold len in H28. replace (12 - length sector)%nat with 0%nat by lia. reflexivity. }
  assert (Hlen: len ((magic_bytes ++ nrec) ++ tail) = len sector + len rest).
  { rewrite Ht. unfold len in *. rewrite !app_length, magic_len, Hn, skipn_length. lia. }
  (* bytes 20..23 are the sector's *)
  assert (Hf: fld ((magic_bytes ++ nrec) ++ tail) 20 4 = fld sector 20 4).
  { apply fld_eq; try lia. intros i Hi. change (Z.to_nat 20) with 20%nat in Hi. change (Z.to_nat 4) with 4%nat in Hi.
    unfold len in H28.
    rewrite nth_error_app2 by (rewrite app_length, magic_len, Hn; cbn; lia).
    rewrite app_length, magic_len, Hn. cbn [Nat.add]. rewrite Ht.
    rewrite nth_error_app1 by (rewrite skipn_length; lia).
    rewrite ne_skipn. f_equal. lia. }
  unfold valid_journal. rewrite Hlen. pose proof (len_nonneg rest).
  destruct (len sector + len rest <? 28) eqn:E; [lia|].
  rewrite <- app_assoc. rewrite magic_ok_self. cbn [negb]. rewrite app_assoc, Hf.
  destruct ((twos 32 (fld sector 20 4) <? 512) || (65536 <? twos 32 (fld sector 20 4))) eqn:E2; [lia|]. lia.
Qed.

(* not hot: no journal, or one validJournal rejects *)
Definition cold (s : cstate) : Prop := match cj s with None => True | Some j => valid_journal j = false end.

Lemma zero_first_invalid rest : valid_journal (x00 :: rest) = false.
Proof.
  unfold valid_journal. destruct (len (x00 :: rest) <? 28); [reflexivity|].
  unfold take. change (Z.to_nat 8) with 8%nat. cbn [firstn]. unfold journal_magic. cbn [combine forallb fst snd].
  change (b2z x00 =? 217) with false. reflexivity.
Qed.

Definition Inv (p : phase) (s : cstate) : Prop :=
  match p with
  | PStart => cmod s = false /\ cdone s = false
  | PBuilding => cmod s = false /\ cdone s = false /\ exists sector rest, sector_ok sector /\ cj s = Some (sector ++ rest)
  | PHot => cdone s = false /\ exists j, cj s = Some j /\ valid_journal j = true
  | PDone => cdone s = true /\ cold s
  end.

Lemma step_inv p q s o : Inv p s -> next p o = Some q ->
  (forall sector, o = OJCreate sector -> sector_ok sector) -> (forall nrec, o = OJMagic nrec -> length nrec = 4%nat) ->
  Inv q (cstep None s o).
Proof.
  intros HI Hn Hsec Hnr. destruct p, o; cbn [next] in Hn; try discriminate;
    try (destruct (Nat.leb_spec 28 off) as [Hoff|Hoff]; [|discriminate]); inversion Hn; subst; cbn [Inv cstep cut cj cmod cdone] in *.
  - destruct HI as [A B]. repeat split; try assumption. exists sector, (skipn (length sector) (jbytes s)). split; [apply Hsec; reflexivity|reflexivity].
  - destruct HI as (A & B & sector & rest & Hs & Hj). repeat split; try assumption.
    exists sector, (rest ++ bs). split; [exact Hs|]. unfold jbytes. rewrite Hj, app_assoc. reflexivity.
  - exact HI.
  - destruct HI as (A & B & sector & rest & Hs & Hj). split; [exact B|].
    eexists. split; [reflexivity|]. unfold jbytes. rewrite Hj. apply hot_after_magic; [exact Hs|apply Hnr; reflexivity].
  - destruct HI as (B & j & Hj & Hv). split; [exact B|]. eexists. split; [reflexivity|]. unfold jbytes. rewrite Hj. apply valid_app. exact Hv.
  - destruct HI as (B & j & Hj & Hv). split; [exact B|]. eexists. split; [reflexivity|]. unfold jbytes. rewrite Hj. apply valid_patch; assumption.
  - exact HI.
  - destruct HI as (B & j & Hj & Hv). split; [exact B|]. exists j. split; assumption.
  - exact HI.
  - split; [reflexivity|exact I].
  - split; [reflexivity|]. unfold cold. cbn [cj]. reflexivity.
  - split; [reflexivity|]. unfold cold. cbn [cj]. unfold overwrite. cbn [repeat app]. apply zero_first_invalid.
  - exact HI.
  - exact HI.
Qed.

Lemma run_inv : forall ops p q s, Inv p s -> phases p ops = Some q ->
  (forall sector, In (OJCreate sector) ops -> sector_ok sector) -> (forall nrec, In (OJMagic nrec) ops -> length nrec = 4%nat) ->
  Inv q (fold_left (cstep None) ops s).
Proof.
  induction ops as [|o rest IH]; intros p q s HI Hp Hs Hn; cbn [phases fold_left] in *.
  - inversion Hp; subst. exact HI.
  - destruct (next p o) as [p'|] eqn:En; [|discriminate].
    apply (IH p' q); [|exact Hp|intros; apply Hs; right; assumption|intros; apply Hn; right; assumption].
    apply (step_inv p p' s o HI En); intros x Hx; [apply Hs|apply Hn]; left; exact Hx.
Qed.

Lemma In_firstn_incl {A} (x : A) k l : In x (firstn k l) -> In x l.
Proof. intros H. rewrite <- (firstn_skipn k l). apply in_or_app. left. exact H. Qed.

Lemma phases_prefix : forall ops p q k, phases p ops = Some q -> exists q', phases p (firstn k ops) = Some q' /\
  match nth_error ops k with Some o => exists q'', next q' o = Some q'' | None => True end.
Proof.
  induction ops as [|o rest IH]; intros p q k H.
  - destruct k; cbn; eauto.
  - cbn [phases] in H. destruct (next p o) as [p'|] eqn:En; [|discriminate].
    destruct k as [|k]; cbn [firstn phases nth_error].
    + exists p. split; [reflexivity|]. eauto.
    + rewrite En. apply (IH p' q k H).
Qed.

(* THE crash theorem: any transaction (any number of records, spills, later
   headers), any crash point, any torn last write: a database file that has
   been touched and whose transaction did not reach its commit point sits next
   to a journal that validJournal recognises *)
Theorem crash_safe old ops k part : wf_ops ops ->
  let s := crash old ops k part in
  cmod s = true -> cdone s = false -> exists j, cj s = Some j /\ valid_journal j = true.
Proof.
  intros ((q & Hq) & Hs & Hn). unfold crash.
  destruct (phases_prefix ops PStart q k Hq) as (q' & Hq' & Hnext).
  assert (HI: Inv q' (fold_left (cstep None) (firstn k ops) (cinit old))).
  { apply (run_inv (firstn k ops) PStart q'); [split; reflexivity|exact Hq'| |].
    - intros sec Hin. apply Hs. eapply (In_firstn_incl); eauto.
    - intros nr Hin. apply Hn. eapply (In_firstn_incl); eauto. }
  set (s0 := fold_left (cstep None) (firstn k ops) (cinit old)) in *.
  assert (Base: cmod s0 = true -> cdone s0 = false -> exists j, cj s0 = Some j /\ valid_journal j = true).
  { destruct q'; cbn [Inv] in HI.
    - destruct HI as [A _]. congruence.
    - destruct HI as [A _]. congruence.
    - destruct HI as (_ & j & Hj & Hv). eauto.
    - destruct HI as [A _]. congruence. }
  destruct part as [i|]; [|exact Base].
  destruct (nth_error ops k) as [o|] eqn:Eo; [|exact Base].
  destruct Hnext as (q'' & Hstep).
  destruct q'; cbn [Inv] in HI.
  - (* nothing written yet *) destruct HI as [A B]. destruct o; cbn [next] in Hstep; try discriminate.
    cbn [cstep cmod cdone cj]. intros X; congruence.
  - (* journal being built: the database is untouched *) destruct HI as (A & B & _).
    destruct o; cbn [next] in Hstep; try discriminate; cbn [cstep cmod cdone cj]; intros X; congruence.
  - (* hot *) destruct HI as (B & j & Hj & Hv).
    destruct o; cbn [next] in Hstep; try discriminate; cbn [cstep cmod cdone cj].
    all: try exact Base.
    all: try (intros _ _; eexists; split; [reflexivity|]; unfold jbytes; rewrite Hj; apply valid_app; exact Hv).
    all: try (destruct (Nat.leb_spec 28 off); [|discriminate Hstep]; intros _ _; eexists; split; [reflexivity|]; unfold jbytes; rewrite Hj; apply valid_patch; assumption).
    all: try (intros _ _; exists j; split; assumption).
    all: try (intros _ X; discriminate X).
    destruct i; [exact Base|]. cbn [cdone]. intros _ X. discriminate X.
  - destruct o; cbn [next] in Hstep; try discriminate; cbn [cstep]; exact Base.
Qed.

(* the commit-point side: once the commit operation has (even partly) taken effect - the
   journal unlinked, truncated, or its header zeroed from the first byte on - what is left is
   not a hot journal, at every later crash point: the reader reads the file, which now is the
   transaction's post-image *)
Theorem committed_cold old ops k part : wf_ops ops ->
  let s := crash old ops k part in cdone s = true -> cold s.
Proof.
  intros ((q & Hq) & Hs & Hn). unfold crash.
  destruct (phases_prefix ops PStart q k Hq) as (q' & Hq' & Hnext).
  assert (HI: Inv q' (fold_left (cstep None) (firstn k ops) (cinit old))).
  { apply (run_inv (firstn k ops) PStart q'); [split; reflexivity|exact Hq'| |].
    - intros sec Hin. apply Hs. eapply (In_firstn_incl); eauto.
    - intros nr Hin. apply Hn. eapply (In_firstn_incl); eauto. }
  set (s0 := fold_left (cstep None) (firstn k ops) (cinit old)) in *.
  assert (Base: cdone s0 = true -> cold s0).
  { destruct q'; cbn [Inv] in HI.
    - destruct HI as [_ B]. congruence.
    - destruct HI as (_ & B & _). congruence.
    - destruct HI as (B & _). congruence.
    - destruct HI as [_ C]. intros _. exact C. }
  destruct part as [i|]; [|exact Base].
  destruct (nth_error ops k) as [o|] eqn:Eo; [|exact Base].
  destruct Hnext as (q'' & Hstep).
  destruct q'; cbn [Inv] in HI.
  - destruct HI as [A B]. destruct o; cbn [next] in Hstep; try discriminate. cbn [cstep cdone]. congruence.
  - destruct HI as (A & B & _). destruct o; cbn [next] in Hstep; try discriminate; cbn [cstep cdone]; congruence.
  - destruct HI as (B & _).
    destruct o; cbn [next] in Hstep; try discriminate; cbn [cstep cdone]; try congruence.
    + intros _. exact I.
    + intros _. unfold cold. cbn [cj]. reflexivity.
    + destruct i as [|i]; [exact Base|]. intros _. unfold cold. cbn [cj cut]. unfold overwrite. cbn [repeat firstn app]. apply zero_first_invalid.
  - destruct o; cbn [next] in Hstep; try discriminate; cbn [cstep]; exact Base.
Qed.
