(* db/bits.go readVarint as translated (Gen/VarintStep.v: one iteration of the source's loop, with Go's
   wrapping uint64 arithmetic, |, << and &) iterated the way the `for i := 0; ; i++` loop iterates it, is the
   model's read_varint on every byte string - and the loop, which has no bound of its own in the source,
   always ends within nine iterations. *)
From SQ Require Import Model.Base Model.Varint Gen.VarintStep Proofs.BaseP Proofs.ArithP.
From Coq Require Import ZifyBool ZifyNat.

(* the loop: the step applied to the whole slice at index i; None = no result after [fuel] iterations *)
Fixpoint go_rv (fuel : nat) (i n : Z) (bs : list byte) : option (Z * Z) :=
  match fuel with
  | O => None
  | S f =>
    match go_readVarint_step i (len bs) (b2z (nth (Z.to_nat i) bs x00)) n with
    | RvRet v k => Some (v, k)
    | RvNext n' => go_rv f (i + 1) n' bs
    end
  end.

(* Go's (0, -1) for "not enough bytes" *)
Definition go_varint_result (r : option (Z * Z)) : Z * Z := match r with Some x => x | None => (0, -1) end.

Lemma go_i64_to_i64 u : go_i64 u = to_i64 u.
Proof. unfold go_i64, to_i64, twos. change (2 ^ (64 - 1)) with (2 ^ 63). reflexivity. Qed.

Lemma acc8 n c : 0 <= n < 2 ^ 56 -> 0 <= c < 256 ->
  Z.lor (go_u64 (Z.shiftl n 8)) (go_u64 c) = n * 256 + c.
Proof.
  intros Hn Hc. unfold go_u64. rewrite Z.shiftl_mul_pow2 by lia. change (2 ^ 8) with 256.
  rewrite (Z.mod_small (n * 256)) by lia. rewrite (Z.mod_small c) by lia.
  change 256 with (2 ^ 8) at 1. rewrite lor_mul_add by (change (2 ^ 8) with 256; lia). reflexivity.
Qed.

Lemma acc7 n c : 0 <= n < 2 ^ 56 -> 0 <= c < 256 ->
  Z.lor (go_u64 (Z.shiftl n 7)) (go_u64 (Z.land c 127)) = n * 128 + c mod 128.
Proof.
  intros Hn Hc. unfold go_u64. rewrite Z.shiftl_mul_pow2 by lia. change (2 ^ 7) with 128.
  change 127 with (Z.ones 7). rewrite Z.land_ones by lia. change (2 ^ 7) with 128.
  assert (0 <= c mod 128 < 128) by (apply Z.mod_pos_bound; lia).
  rewrite (Z.mod_small (n * 128)) by lia. rewrite (Z.mod_small (c mod 128)) by lia.
  change 128 with (2 ^ 7) at 1. rewrite lor_mul_add by (change (2 ^ 7) with 128; lia). reflexivity.
Qed.

Lemma pow128_le k : (k <= 8)%nat -> 128 ^ Z.of_nat k <= 2 ^ 56.
Proof. intros H. change (2 ^ 56) with (128 ^ 8). apply Z.pow_le_mono_r; lia. Qed.

Lemma nth_app_at (pre : list byte) c rest : nth (Z.to_nat (len pre)) (pre ++ c :: rest) x00 = c.
Proof. unfold len. rewrite Nat2Z.id. rewrite app_nth2 by lia. rewrite Nat.sub_diag. reflexivity. Qed.

(* lockstep simulation: index i = the bytes already consumed *)
Lemma go_rv_sim : forall fuel pre rest n,
  (length pre <= 8)%nat -> (fuel + length pre = 9)%nat -> 0 <= n < 128 ^ len pre ->
  go_rv fuel (len pre) n (pre ++ rest) =
  Some (match rv_loop fuel (len pre) n rest with Some (u, k) => (to_i64 u, k) | None => (0, -1) end).
Proof.
  induction fuel as [|f IH]; intros pre rest n Hi Hf Hn; [lia|].
  cbn [go_rv rv_loop]. unfold go_readVarint_step.
  assert (Hn56 : 0 <= n < 2 ^ 56) by (pose proof (pow128_le (length pre) Hi); unfold len in Hn; lia).
  destruct rest as [|c rest].
  - rewrite app_nil_r. destruct (len pre <=? len pre) eqn:E; [reflexivity|lia].
  - rewrite len_app, len_cons. pose proof (len_nonneg rest) as Hr. pose proof (len_nonneg pre) as Hp.
    destruct (len pre + (1 + len rest) <=? len pre) eqn:E; [lia|]. clear E.
    rewrite nth_app_at. pose proof (b2z_range c) as Hc.
    destruct (len pre =? 8) eqn:E8.
    + rewrite acc8 by assumption. rewrite go_i64_to_i64. unfold to_i64 at 2. rewrite Z.mod_mod by lia. reflexivity.
    + rewrite acc7 by assumption.
      assert (Hm : 0 <= b2z c mod 128 < 128) by (apply Z.mod_pos_bound; lia).
      rewrite (Z.mod_small (n * 128 + b2z c mod 128)) by lia.
      destruct (b2z c <? 128) eqn:Ec.
      * rewrite go_i64_to_i64. reflexivity.
      * replace (pre ++ c :: rest) with ((pre ++ [c]) ++ rest) by (rewrite <- app_assoc; reflexivity).
        assert (Hl : len pre + 1 = len (pre ++ [c])) by (rewrite len_app; reflexivity).
        rewrite Hl. apply IH.
        -- rewrite app_length. cbn [length]. unfold len in E8. lia.
        -- rewrite app_length. cbn [length]. lia.
        -- rewrite <- Hl. rewrite Z.pow_add_r by lia. change (128 ^ 1) with 128. lia.
Qed.

Lemma go_rv_more fuel : forall i n bs x, go_rv fuel i n bs = Some x -> go_rv (S fuel) i n bs = Some x.
Proof.
  induction fuel as [|f IH]; intros i n bs x H; [discriminate|].
  cbn [go_rv] in *. destruct (go_readVarint_step _ _ _ _) as [v k|n']; [exact H|]. apply IH. exact H.
Qed.

(* the source's loop on every byte string: it ends within nine iterations whatever the bytes are, and
   returns what the model's read_varint returns ((0, -1) where the model says None) *)
Theorem go_readVarint_spec bs fuel : (9 <= fuel)%nat ->
  go_rv fuel 0 0 bs = Some (go_varint_result (read_varint bs)).
Proof.
  intros Hf. assert (H9 : go_rv 9 0 0 bs = Some (go_varint_result (read_varint bs))).
  { pose proof (go_rv_sim 9 [] bs 0 ltac:(cbn; lia) ltac:(cbn; lia) ltac:(cbn; lia)) as H.
    change (len []) with 0 in H. cbn [app] in H. rewrite H. unfold read_varint, go_varint_result.
    destruct (rv_loop 9 0 0 bs) as [[u k]|]; reflexivity. }
  replace fuel with ((fuel - 9) + 9)%nat by lia. induction (fuel - 9)%nat as [|d IHd]; [exact H9|].
  cbn [Nat.add]. apply go_rv_more. exact IHd.
Qed.
