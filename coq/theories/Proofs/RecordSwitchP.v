(* db/record.go parseRecord's `switch c` as translated (Gen/RecordSwitch.v: per case the serial types, the body bytes required,
   the bytes consumed, the value expression; the default case's two length expressions) decodes every serial type from every
   body exactly as the model's parse_value does. *)
From SQ Require Import Model.Base Model.Varint Model.Record Gen.RecordSwitch Proofs.BaseP.
From Coq Require Import ZifyBool.

Definition decode_kind (k : gokind) (body : list byte) : res value :=
  match k with
  | KNull => Ok VNull
  | KInt w => Ok (VInt (twos (8 * w) (be (take w body))))          (* int64(intN(binary.BigEndian.UintN(body[:w]))) *)
  | KTwos24 => Ok (VInt (read_twos24 body))
  | KTwos48 => Ok (VInt (read_twos48 body))
  | KFloat => Ok (VReal (be (take 8 body)))                         (* math.Float64frombits(binary.BigEndian.Uint64(body[:8])) *)
  | KConst z => Ok (VInt z)
  | KInternal => Err EInternal
  end.

Definition go_case (need adv : Z) (k : gokind) (body : list byte) : res (value * list byte) :=
  if len body <? need then Err ECorrupt else do v <- decode_kind k body; Ok (v, drop adv body).

Fixpoint lookup_case (c : Z) (cases : list (list Z * (Z * Z * gokind))) : option (Z * Z * gokind) :=
  match cases with
  | [] => None
  | (ls, x) :: r => if existsb (Z.eqb c) ls then Some x else lookup_case c r
  end.

(* the switch: the first case whose label list has c, else the default case *)
Definition go_parse_value (c : Z) (body : list byte) : res (value * list byte) :=
  match lookup_case c go_record_cases with
  | Some (need, adv, k) => go_case need adv k body
  | None =>
    if c <? 0 then Err ECorrupt
    else if Z.land c 1 =? 0 then
      let l := go_blob_len c in
      if len body <? l then Err ECorrupt else do p <- slice_to body l; do b' <- slice_from body l; Ok (VBlob p, b')
    else
      let l := go_text_len c in
      if len body <? l then Err ECorrupt else do p <- slice_to body l; do b' <- slice_from body l; Ok (VText p, b')
  end.

Lemma len_lt0 body : (len body <? 0) = false.
Proof. pose proof (len_nonneg body). lia. Qed.

Lemma land1_even c : (Z.land c 1 =? 0) = Z.even c.
Proof.
  change 1 with (Z.ones 1). rewrite Z.land_ones by lia. change (2 ^ 1) with 2.
  destruct (Z.even c) eqn:E.
  - apply Z.even_spec in E. destruct E as [k ->]. rewrite Z.mul_comm, Z_mod_mult. reflexivity.
  - assert (O : Z.odd c = true) by (rewrite <- Z.negb_even, E; reflexivity). apply Z.odd_spec in O. destruct O as [k ->].
    rewrite Z.add_comm, Z.mul_comm, Z_mod_plus_full. reflexivity.
Qed.

Theorem go_parse_value_spec c body : parse_value c body = go_parse_value c body.
Proof.
  unfold parse_value, go_parse_value.
  destruct (Z.eqb_spec c 0) as [->|N0]; [change (lookup_case 0 go_record_cases) with (Some (0, 0, KNull)); unfold go_case; rewrite len_lt0; reflexivity|].
  destruct (Z.eqb_spec c 1) as [->|N1]; [change (lookup_case 1 go_record_cases) with (Some (1, 1, KInt 1)); reflexivity|].
  destruct (Z.eqb_spec c 2) as [->|N2]; [change (lookup_case 2 go_record_cases) with (Some (2, 2, KInt 2)); reflexivity|].
  destruct (Z.eqb_spec c 3) as [->|N3]; [change (lookup_case 3 go_record_cases) with (Some (3, 3, KTwos24)); reflexivity|].
  destruct (Z.eqb_spec c 4) as [->|N4]; [change (lookup_case 4 go_record_cases) with (Some (4, 4, KInt 4)); reflexivity|].
  destruct (Z.eqb_spec c 5) as [->|N5]; [change (lookup_case 5 go_record_cases) with (Some (6, 6, KTwos48)); reflexivity|].
  destruct (Z.eqb_spec c 6) as [->|N6]; [change (lookup_case 6 go_record_cases) with (Some (8, 8, KInt 8)); reflexivity|].
  destruct (Z.eqb_spec c 7) as [->|N7]; [change (lookup_case 7 go_record_cases) with (Some (8, 8, KFloat)); reflexivity|].
  destruct (Z.eqb_spec c 8) as [->|N8]; [change (lookup_case 8 go_record_cases) with (Some (0, 0, KConst 0)); unfold go_case; rewrite len_lt0; reflexivity|].
  destruct (Z.eqb_spec c 9) as [->|N9]; [change (lookup_case 9 go_record_cases) with (Some (0, 0, KConst 1)); unfold go_case; rewrite len_lt0; reflexivity|].
  destruct (Z.eqb_spec c 10) as [->|N10]; [change (lookup_case 10 go_record_cases) with (Some (0, 0, KInternal)); unfold go_case; rewrite len_lt0; reflexivity|].
  destruct (Z.eqb_spec c 11) as [->|N11]; [change (lookup_case 11 go_record_cases) with (Some (0, 0, KInternal)); unfold go_case; rewrite len_lt0; reflexivity|].
  cbn [orb].
  assert (L : lookup_case c go_record_cases = None).
  { unfold go_record_cases. cbn [lookup_case existsb].
    repeat match goal with |- context [c =? ?k] => let E := fresh in assert (E : (c =? k) = false) by (apply Z.eqb_neq; assumption); rewrite E; clear E end. reflexivity. }
  rewrite L. destruct (c <? 0) eqn:Eneg; [reflexivity|].
  rewrite land1_even. unfold go_blob_len, go_text_len.
  destruct (Z.even c) eqn:Ev.
  - rewrite (Z.quot_div_nonneg (c - 12) 2) by lia. reflexivity.
  - assert (c <> 12) by (intros ->; discriminate Ev).
    rewrite (Z.quot_div_nonneg (c - 13) 2) by lia. reflexivity.
Qed.
